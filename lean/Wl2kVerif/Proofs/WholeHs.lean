import Wl2kVerif.Proofs.WholeExch
/-
The handshake interface `MasterHs` / `SlaveHs` of `Proofs/WholeExch.lean` for all well-formed configurations:
what `readHandshake` does on (any prefix of) a list of CR-terminated lines, the verdicts of the lines
`sendHandshake` writes (`;FW: …`, `[name-version-B2FHM$]`, `; target DE mycall (locator)` with or without
the master's '>'), and the two `handshake` programs.
-/
namespace Wl2k.B2F
open Wl2k Wl2k.Fmt Wl2k.Str Wl2k.Strconv

/-! ### the line loop -/

/-- what one (cleaned) handshake line does to the loop of `readHandshake` -/
inductive HsVerdict where
  | cont (d : HsData)
  | stop (d : HsData)
  | bad

def hsVerdict (data : HsData) (line : Bytes) : HsVerdict :=
  if isSID line then
    match parseSID line with
    | none => .bad
    | some sid => if !containsSub sid (sb "B2") then .bad else .cont { data with sid := sid }
  else if (sb ";FW").isPrefixOf line then
    match parseFW line with
    | none => .bad
    | some fw => .cont { data with fw := fw }
  else if (sb ";PQ").isPrefixOf line then
    if line.length < 5 then .bad else .cont { data with challenge := line.drop 5 }
  else if line.getLast? = some 62 then .stop data
  else .cont data

/-- events that are peeks only -/
def PeekOnly (pk : List Ev) : Prop := ∀ e ∈ pk, ∃ b, e = Ev.peeked b

theorem PeekOnly.out {pk : List Ev} (h : PeekOnly pk) : outBytes pk = [] := by
  induction pk with
  | nil => rfl
  | cons e t ih =>
    obtain ⟨b, rfl⟩ := h e List.mem_cons_self
    simpa [outBytes] using ih (fun x hx => h x (List.mem_cons_of_mem _ hx))

theorem PeekOnly.noConf {pk : List Ev} (h : PeekOnly pk) : NoConf pk := by
  intro m hm
  obtain ⟨b, hb⟩ := h _ hm
  cases hb

theorem peekOnly_nil : PeekOnly [] := fun _ he => by cases he

theorem PeekOnly.cons (b : UInt8) {pk : List Ev} (h : PeekOnly pk) : PeekOnly (.peeked b :: pk) := by
  intro e he
  rcases List.mem_cons.mp he with rfl | he
  · exact ⟨b, rfl⟩
  · exact h e he

theorem PeekOnly.append {a b : List Ev} (ha : PeekOnly a) (hb : PeekOnly b) : PeekOnly (a ++ b) := by
  intro e he
  rcases List.mem_append.mp he with he | he
  · exact ha e he
  · exact hb e he

/-- `nextLineRemoteErr(false)` on a complete line -/
theorem run_nextLineNE_ok (line rest : Bytes) (fuel : Nat) (h : HState) (tr : List Ev) (h13 : (13 : UInt8) ∉ line)
    (hf : line.length < fuel) :
    Proc.run hstep (nextLineRemoteErr false fuel) (line ++ 13 :: rest) h tr =
      (.done (.ok (cleanString (line ++ [13]))), rest, h, tr) := by
  unfold nextLineRemoteErr
  simp only [bind_eq, pure_eq]
  rw [run_bind, run_readString hstep 13 line fuel [] rest h tr h13 hf]
  simp [cleanStringC_eq, Proc.run]

/-- `nextLineRemoteErr(false)` on an incomplete line -/
theorem run_nextLineNE_eof (pre : Bytes) (fuel : Nat) (h : HState) (tr : List Ev) (h13 : (13 : UInt8) ∉ pre)
    (hf : pre.length < fuel) :
    Proc.run hstep (nextLineRemoteErr false fuel) pre h tr = (.done (.error .eof), [], h, tr) := by
  unfold nextLineRemoteErr
  simp only [bind_eq, pure_eq]
  rw [run_bind, run_readString_eof hstep 13 pre fuel [] h tr h13 hf]
  simp [Proc.run]

/-- the first byte of a CR-terminated line -/
def firstOf (l : Bytes) : UInt8 := l.headD 13

theorem line_cons (l rest : Bytes) : l ++ 13 :: rest = firstOf l :: ((l ++ 13 :: rest).drop 1) := by
  cases l <;> rfl

/-- one line after which the loop goes on -/
theorem hs_step_cont (master : Bool) (fuel n : Nat) (data d : HsData) (l rest : Bytes) (h : HState) (tr : List Ev)
    (h13 : (13 : UInt8) ∉ l) (hf : l.length < fuel) (hF : ¬ (firstOf l = 70 ∧ master = true))
    (hv : hsVerdict data (cleanString (l ++ [13])) = .cont d) :
    Proc.run hstep (readHandshake master fuel (n + 1) data) (l ++ 13 :: rest) h tr =
      Proc.run hstep (readHandshake master fuel n d) rest h (.peeked (firstOf l) :: tr) := by
  conv => lhs; unfold readHandshake
  rw [line_cons l rest]
  simp only [Proc.run, if_neg hF, bind_eq, pure_eq]
  rw [← line_cons l rest, run_bind, run_nextLineNE_ok l rest fuel h _ h13 hf]
  simp only
  unfold hsVerdict at hv
  split at hv
  · rename_i h1
    simp only [h1, if_true]
    split at hv
    · cases hv
    · rename_i sid hs
      rw [hs]
      simp only
      split at hv
      · cases hv
      · rename_i h2
        simp only [HsVerdict.cont.injEq] at hv
        subst hv
        simp [h2]
  · rename_i h1
    simp only [h1, Bool.false_eq_true, if_false]
    split at hv
    · rename_i h2
      simp only [h2, if_true, parseFWC_eq]
      split at hv
      · cases hv
      · rename_i fw hfw
        simp only [HsVerdict.cont.injEq] at hv
        subst hv
        simp [hfw]
    · rename_i h2
      simp only [h2, Bool.false_eq_true, if_false]
      split at hv
      · rename_i h3
        simp only [h3, if_true, challengeC_eq]
        split at hv
        · cases hv
        · rename_i h4
          simp only [HsVerdict.cont.injEq] at hv
          subst hv
          simp [h4]
      · rename_i h3
        simp only [h3, Bool.false_eq_true, if_false]
        split at hv
        · cases hv
        · rename_i h4
          simp only [HsVerdict.cont.injEq] at hv
          subst hv
          simp [h4]

/-- the line that ends the slave's loop -/
theorem hs_step_stop (master : Bool) (fuel n : Nat) (data d : HsData) (l rest : Bytes) (h : HState) (tr : List Ev)
    (h13 : (13 : UInt8) ∉ l) (hf : l.length < fuel) (hF : ¬ (firstOf l = 70 ∧ master = true))
    (hv : hsVerdict data (cleanString (l ++ [13])) = .stop d) :
    Proc.run hstep (readHandshake master fuel (n + 1) data) (l ++ 13 :: rest) h tr =
      (.done (.ok d), rest, h, .peeked (firstOf l) :: tr) := by
  conv => lhs; unfold readHandshake
  rw [line_cons l rest]
  simp only [Proc.run, if_neg hF, bind_eq, pure_eq]
  rw [← line_cons l rest, run_bind, run_nextLineNE_ok l rest fuel h _ h13 hf]
  simp only
  unfold hsVerdict at hv
  split at hv
  · split at hv
    · cases hv
    · split at hv <;> cases hv
  · rename_i h1
    simp only [h1, Bool.false_eq_true, if_false]
    split at hv
    · split at hv <;> cases hv
    · rename_i h2
      simp only [h2, Bool.false_eq_true, if_false]
      split at hv
      · split at hv <;> cases hv
      · rename_i h3
        simp only [h3, Bool.false_eq_true, if_false]
        split at hv
        · rename_i h4
          simp only [HsVerdict.stop.injEq] at hv
          subst hv
          simp [h4, Proc.run]
        · cases hv

/-- the master's loop ends at the peek that sees 'F' -/
theorem hs_step_F (fuel n : Nat) (data : HsData) (r : Bytes) (h : HState) (tr : List Ev) :
    Proc.run hstep (readHandshake true fuel (n + 1) data) (70 :: r) h tr = (.done (.ok data), 70 :: r, h, .peeked 70 :: tr) := by
  conv => lhs; unfold readHandshake
  simp [Proc.run]

/-- an incomplete line: the connection is lost -/
theorem hs_step_eof (master : Bool) (fuel n : Nat) (data : HsData) (J : Bytes) (h : HState) (tr : List Ev)
    (h13 : (13 : UInt8) ∉ J) (hf : J.length < fuel) (hF : ¬ (J.head? = some 70 ∧ master = true)) :
    ∃ pk, PeekOnly pk ∧ Proc.run hstep (readHandshake master fuel (n + 1) data) J h tr = (.done (.error .eof), [], h, pk ++ tr) := by
  conv => enter [1, pk, 2, 1]; unfold readHandshake
  cases J with
  | nil => exact ⟨[], peekOnly_nil, rfl⟩
  | cons b t =>
    have hF' : ¬ (b = 70 ∧ master = true) := by simpa using hF
    simp only [Proc.run, if_neg hF', bind_eq, pure_eq]
    rw [run_bind, run_nextLineNE_eof (b :: t) fuel h _ h13 hf]
    exact ⟨[.peeked b], peekOnly_nil.cons b, rfl⟩

/-- the bytes of a list of lines, each with its CR -/
def linesBytes (ls : List Bytes) : Bytes := (ls.map (· ++ [13])).flatten

/-- all lines let the loop go on; the data after them -/
def hsFold (data : HsData) : List Bytes → Option HsData
  | [] => some data
  | l :: ls =>
    match hsVerdict data (cleanString (l ++ [13])) with
    | .cont d => hsFold d ls
    | _ => none

/-- **`readHandshake` on (any prefix of) a list of lines that all let the loop go on**: on all of them it
continues with what follows; on any shorter prefix it reports a lost connection; only peeks happen. -/
theorem readHs_lines (master : Bool) (fuel : Nat) (h : HState) : ∀ (ls : List Bytes) (data d' : HsData) (n : Nat),
    hsFold data ls = some d' →
    (∀ l ∈ ls, (13 : UInt8) ∉ l ∧ l.length < fuel ∧ ¬ (firstOf l = 70 ∧ master = true)) → ls.length < n →
    ∀ (rest J : Bytes) (tr : List Ev), J <+: linesBytes ls ++ rest →
      (∃ J2 pk, J = linesBytes ls ++ J2 ∧ J2 <+: rest ∧ PeekOnly pk ∧
        Proc.run hstep (readHandshake master fuel n data) J h tr =
          Proc.run hstep (readHandshake master fuel (n - ls.length) d') J2 h (pk ++ tr)) ∨
      (∃ pk, J.length < (linesBytes ls).length ∧ PeekOnly pk ∧
        Proc.run hstep (readHandshake master fuel n data) J h tr = (.done (.error .eof), [], h, pk ++ tr)) := by
  intro ls
  induction ls with
  | nil =>
    intro data d' n hfold _ _ rest J tr hJ
    simp only [hsFold, Option.some.injEq] at hfold
    subst hfold
    left
    exact ⟨J, [], by simp [linesBytes], by simpa [linesBytes] using hJ, peekOnly_nil, by simp⟩
  | cons l ls ih =>
    intro data d' n hfold hok hn rest J tr hJ
    cases n with
    | zero => simp at hn
    | succ n =>
      obtain ⟨h13, hlf, hF⟩ := hok l (by simp)
      have hb : linesBytes (l :: ls) = l ++ 13 :: linesBytes ls := by simp [linesBytes]
      rw [hb, List.append_assoc, List.cons_append] at hJ
      simp only [hsFold] at hfold
      cases hv : hsVerdict data (cleanString (l ++ [13])) with
      | stop d => rw [hv] at hfold; cases hfold
      | bad => rw [hv] at hfold; cases hfold
      | cont d =>
        rw [hv] at hfold
        simp only at hfold
        rcases prefix_line_cases _ _ _ hJ with ⟨J', rfl, hJ'⟩ | hJ'
        · rw [hs_step_cont master fuel n data d l J' h tr h13 hlf hF hv]
          rcases ih d d' n hfold (fun q hq => hok q (by simp [hq])) (by simp at hn; omega) rest J' (.peeked (firstOf l) :: tr) hJ' with
            ⟨J2, pk, rfl, hJ2, hpk, hrun⟩ | ⟨pk, hlt, hpk, hrun⟩
          · left
            refine ⟨J2, pk ++ [.peeked (firstOf l)], by rw [hb]; simp, hJ2, hpk.append (peekOnly_nil.cons _), ?_⟩
            rw [hrun]
            simp
          · right
            refine ⟨pk ++ [.peeked (firstOf l)], ?_, hpk.append (peekOnly_nil.cons _), by rw [hrun]; simp⟩
            rw [hb]
            simp only [List.length_append, List.length_cons] at hlt ⊢
            omega
        · right
          have hF' : ¬ (J.head? = some 70 ∧ master = true) := by
            intro ⟨e1, e2⟩
            apply hF
            refine ⟨?_, e2⟩
            cases J with
            | nil => cases e1
            | cons b t =>
              obtain ⟨s, hs⟩ := hJ'
              cases l with
              | nil => cases hs
              | cons x xs =>
                simp only [List.cons_append, List.cons.injEq] at hs
                simp only [List.head?_cons, Option.some.injEq] at e1
                simp [firstOf, ← hs.1, e1]
          obtain ⟨pk, hpk, hrun⟩ := hs_step_eof master fuel n data J h tr (not_mem_of_prefix hJ' h13)
            (by have := hJ'.length_le; omega) hF'
          refine ⟨pk, ?_, hpk, hrun⟩
          have := hJ'.length_le
          rw [hb]
          simp only [List.length_append, List.length_cons]
          omega

/-! ### the lines `sendHandshake` writes -/

theorem lastIndexByte_snoc (s : Bytes) (c : UInt8) : lastIndexByte (s ++ [c]) c = some s.length := by
  unfold lastIndexByte
  simp [List.findIdx?_cons]

theorem lastIndexByte_mid (pre u : Bytes) (c : UInt8) (h : c ∉ u) : lastIndexByte (pre ++ c :: u) c = some pre.length := by
  unfold lastIndexByte
  have h1 : (u.reverse).findIdx? (fun x => decide (x = c)) = none := by
    rw [List.findIdx?_eq_none_iff]
    intro x hx
    simp only [List.mem_reverse] at hx
    simp only [decide_eq_false_iff_not]
    intro e; subst e; exact h hx
  simp only [List.reverse_append, List.reverse_cons, List.append_assoc, List.singleton_append]
  rw [List.findIdx?_append, h1]
  simp [List.findIdx?_cons]

theorem drop_mid {α : Type} (u : List α) (c : α) : ∀ (pre : List α), (pre ++ c :: u).drop (pre.length + 1) = u
  | [] => rfl
  | _ :: t => by simpa using drop_mid u c t

theorem takeWhile_all {α : Type} (p : α → Bool) : ∀ (l : List α), (∀ x ∈ l, p x = true) → l.takeWhile p = l
  | [], _ => rfl
  | a :: t, h => by
    simp only [List.takeWhile, h a (by simp)]
    rw [takeWhile_all p t (fun x hx => h x (by simp [hx]))]

theorem sb_FW3 : sb ";FW" = [59, 70, 87] := by decide +kernel
theorem sb_PQ3 : sb ";PQ" = [59, 80, 81] := by decide +kernel
theorem sb_B2 : sb "B2" = [66, 50] := by decide +kernel
theorem str_FW4 : strBytes ";FW:" = [59, 70, 87, 58] := by decide +kernel
theorem str_sp : strBytes " " = [32] := by decide +kernel
theorem str_cr : strBytes "\r" = [13] := by decide +kernel
theorem str_lb : strBytes "[" = [91] := by decide +kernel
theorem str_dash : strBytes "-" = [45] := by decide +kernel
theorem str_rbcr : strBytes "]\r" = [93, 13] := by decide +kernel
theorem str_semi : strBytes "; " = [59, 32] := by decide +kernel
theorem str_DE : strBytes " DE " = [32, 68, 69, 32] := by decide +kernel
theorem str_lp : strBytes " (" = [32, 40] := by decide +kernel
theorem str_rp : strBytes ")" = [41] := by decide +kernel
theorem str_gtcr : strBytes ">\r" = [62, 13] := by decide +kernel

/-- the SID codes: no '-', no newline, upper case already, contain "B2" -/
theorem sidCodes_facts (g : Bool) : (45 : UInt8) ∉ sidCodes g ∧ (10 : UInt8) ∉ sidCodes g ∧ (13 : UInt8) ∉ sidCodes g ∧
    toUpper (sidCodes g) = sidCodes g ∧ containsSub (sidCodes g) (sb "B2") = true ∧ sidCodes g ≠ [] := by
  cases g <;> decide +kernel

/-- the three lines, without their CR -/
def fwL (c : HsCfg) : Bytes := [59, 70, 87, 58] ++ (c.localFW.map fun a => 32 :: a).flatten
def sidL (c : HsCfg) : Bytes := 91 :: (c.uaName ++ 45 :: (c.uaVersion ++ 45 :: sidCodes c.gzip) ++ [93])
def trL (c : HsCfg) : Bytes :=
  59 :: (32 :: (c.targetcall ++ [32, 68, 69, 32] ++ c.mycall ++ [32, 40] ++ c.locator) ++ (if c.master then [41, 62] else [41]))

theorem fwLineAux_plain : ∀ (as : List Bytes) (i : Nat) (vs : List CbView),
    fwLineAux false i as vs = (as.map fun a => 32 :: a).flatten
  | [], _, _ => rfl
  | a :: as, i, vs => by
    simp only [fwLineAux, fwEntry, Bool.false_and, Bool.false_eq_true, if_false, str_sp, List.map_cons, List.flatten_cons]
    rw [fwLineAux_plain as]
    rfl

/-- what `sendHandshake` writes without a challenge: the three lines -/
theorem sendHandshakeV_plain (c : HsCfg) :
    sendHandshakeV c [] [] = some (fwL c ++ 13 :: (sidL c ++ 13 :: (trL c ++ [13]))) := by
  unfold sendHandshakeV fwLine sidLine trailer fwL sidL trL
  simp only [List.isEmpty_nil, Bool.not_true, Bool.false_and, Bool.false_eq_true, if_false, fwLineAux_plain, str_FW4, str_cr,
    str_lb, str_dash, str_rbcr, str_semi, str_DE, str_lp, str_rp, str_gtcr, Option.some.injEq]
  cases c.master <;> simp

/-- well-formedness of the strings that go into the handshake lines: no CR (and no LF in the SID fields);
at least one forwarder address, each non-empty and ending in a solid byte (ASCII, no blank, no NUL) -/
structure HsWF (c : HsCfg) : Prop where
  ua : ∀ b ∈ c.uaName, b ≠ 10 ∧ b ≠ 13
  ver : ∀ b ∈ c.uaVersion, b ≠ 10 ∧ b ≠ 13
  my : (13 : UInt8) ∉ c.mycall
  tg : (13 : UInt8) ∉ c.targetcall
  loc : (13 : UInt8) ∉ c.locator
  fwne : c.localFW ≠ []
  fw : ∀ a ∈ c.localFW, (13 : UInt8) ∉ a ∧ ∃ t b, a = t ++ [b] ∧ Solid b

theorem solid_semi : Solid 59 := by decide
theorem solid_lb : Solid 91 := by decide
theorem solid_rb : Solid 93 := by decide
theorem solid_gt : Solid 62 := by decide
theorem solid_rp : Solid 41 := by decide

/-- the `;FW:` line: cleaned to itself; the loop goes on (with some forwarder list) -/
theorem fwL_facts (c : HsCfg) (wf : HsWF c) (data : HsData) :
    (13 : UInt8) ∉ fwL c ∧ firstOf (fwL c) = 59 ∧
      ∃ fw, hsVerdict data (cleanString (fwL c ++ [13])) = .cont { data with fw := fw } := by
  have h13 : (13 : UInt8) ∉ fwL c := by
    unfold fwL
    simp only [List.mem_append, List.mem_cons, List.not_mem_nil, or_false, List.mem_flatten, List.mem_map, not_or]
    refine ⟨⟨by decide, by decide, by decide, by decide⟩, ?_⟩
    rintro ⟨l, ⟨a, ha, rfl⟩, hl⟩
    rcases List.mem_cons.mp hl with h | h
    · exact absurd h (by decide)
    · exact (wf.fw a ha).1 h
  -- shape of the line: ';' … solid byte
  obtain ⟨init, alast, hfw⟩ : ∃ init alast, c.localFW = init ++ [alast] :=
    ⟨c.localFW.dropLast, c.localFW.getLast wf.fwne, (List.dropLast_concat_getLast wf.fwne).symm⟩
  obtain ⟨_, t', bl, rfl, hbl⟩ := wf.fw alast (by rw [hfw]; simp)
  have hshape : fwL c = 59 :: (([70, 87, 58] ++ (init.map fun a => 32 :: a).flatten ++ 32 :: t') ++ [bl]) := by
    unfold fwL; rw [hfw]; simp
  have hclean : cleanString (fwL c ++ [13]) = fwL c := by
    rw [hshape]; exact cleanString_line 59 _ bl solid_semi hbl
  have hpre : fwPrefix.isPrefixOf (fwL c) = true := by
    unfold fwL
    cases hl : c.localFW with
    | nil => exact absurd hl wf.fwne
    | cons a0 r => simp [fwPrefix, List.isPrefixOf]
  refine ⟨h13, by simp [fwL, firstOf], ?_⟩
  rw [hclean]
  unfold hsVerdict
  have h1 : isSID (fwL c) = false := by simp [isSID, fwL]
  have h2 : (sb ";FW").isPrefixOf (fwL c) = true := by rw [sb_FW3]; simp [fwL, List.isPrefixOf]
  simp only [h1, Bool.false_eq_true, if_false, h2, if_true, parseFW, hpre, Bool.not_true]
  exact ⟨_, rfl⟩

/-- the SID line: cleaned to itself; the loop goes on with the SID codes -/
theorem sidL_facts (c : HsCfg) (wf : HsWF c) (data : HsData) :
    (13 : UInt8) ∉ sidL c ∧ firstOf (sidL c) = 91 ∧
      hsVerdict data (cleanString (sidL c ++ [13])) = .cont { data with sid := sidCodes c.gzip } := by
  obtain ⟨c45, c10, c13, cup, cb2, _⟩ := sidCodes_facts c.gzip
  have h13 : (13 : UInt8) ∉ sidL c := by
    unfold sidL
    simp only [List.mem_cons, List.mem_append, List.not_mem_nil, or_false, not_or]
    exact ⟨by decide, ⟨fun h => (wf.ua 13 h).2 rfl, by decide, fun h => (wf.ver 13 h).2 rfl, by decide, c13⟩, by decide⟩
  have hclean : cleanString (sidL c ++ [13]) = sidL c := cleanString_line 91 _ 93 solid_lb solid_rb
  refine ⟨h13, rfl, ?_⟩
  rw [hclean]
  have hl : (sidL c).getLast? = some 93 := by
    unfold sidL
    rw [show (91 : UInt8) :: (c.uaName ++ 45 :: (c.uaVersion ++ 45 :: sidCodes c.gzip) ++ [93]) =
      (91 :: (c.uaName ++ 45 :: (c.uaVersion ++ 45 :: sidCodes c.gzip))) ++ [93] from rfl, List.getLast?_append]
    simp
  have hh : (sidL c).head? = some 91 := rfl
  have h1 : isSID (sidL c) = true := by simp [isSID, hh, hl]
  -- the regexp group
  have h10 : ∀ x ∈ c.uaName ++ 45 :: (c.uaVersion ++ 45 :: sidCodes c.gzip) ++ [93], (fun b : UInt8 => decide (b ≠ 10)) x = true := by
    intro x hx
    simp only [List.mem_append, List.mem_cons, List.not_mem_nil, or_false] at hx
    simp only [ne_eq, decide_not, Bool.not_eq_eq_eq_not, Bool.not_true, decide_eq_false_iff_not]
    rcases hx with (hx | hx | hx | hx | hx) | hx
    · exact (wf.ua x hx).1
    · rw [hx]; decide
    · exact (wf.ver x hx).1
    · rw [hx]; decide
    · intro e; rw [e] at hx; exact c10 hx
    · rw [hx]; decide
  have hgroup : sidGroup (c.uaName ++ 45 :: (c.uaVersion ++ 45 :: sidCodes c.gzip) ++ [93]) = some (sidCodes c.gzip) := by
    unfold sidGroup
    rw [lastIndexByte_snoc]
    simp only [List.take_left']
    have : c.uaName ++ 45 :: (c.uaVersion ++ 45 :: sidCodes c.gzip) = (c.uaName ++ 45 :: c.uaVersion) ++ 45 :: sidCodes c.gzip := by
      simp
    rw [this]
    generalize c.uaName ++ 45 :: c.uaVersion = pre
    rw [lastIndexByte_mid _ _ 45 c45]
    simp only [drop_mid]
  have hparse : parseSID (sidL c) = some (sidCodes c.gzip) := by
    unfold parseSID sidL
    simp only [List.length_cons, sidSearch, if_true]
    rw [takeWhile_all _ _ h10, hgroup]
    simp [cup]
  unfold hsVerdict
  simp only [h1, if_true, hparse, cb2, Bool.not_true, Bool.false_eq_true, if_false]

/-- the trailer line: cleaned to itself; with the master's '>' it ends the loop, without it the loop goes on -/
theorem trL_facts (c : HsCfg) (wf : HsWF c) (data : HsData) :
    (13 : UInt8) ∉ trL c ∧ firstOf (trL c) = 59 ∧
      hsVerdict data (cleanString (trL c ++ [13])) = (if c.master then .stop data else .cont data) := by
  have h13 : (13 : UInt8) ∉ trL c := by
    unfold trL
    simp only [List.mem_cons, List.mem_append, List.not_mem_nil, or_false, not_or]
    refine ⟨by decide, ⟨by decide, ⟨⟨⟨wf.tg, by decide, by decide, by decide, by decide⟩, wf.my⟩, by decide, by decide⟩, wf.loc⟩, ?_⟩
    cases c.master <;> simp
  have hshape : ∃ t bl, trL c = 59 :: (t ++ [bl]) ∧ Solid bl ∧ bl = (if c.master then 62 else 41) := by
    unfold trL
    cases c.master with
    | true =>
      exact ⟨32 :: (c.targetcall ++ [32, 68, 69, 32] ++ c.mycall ++ [32, 40] ++ c.locator) ++ [41], 62, by simp, solid_gt, rfl⟩
    | false =>
      exact ⟨32 :: (c.targetcall ++ [32, 68, 69, 32] ++ c.mycall ++ [32, 40] ++ c.locator), 41, by simp, solid_rp, rfl⟩
  obtain ⟨t, bl, hsh, hbl, hbv⟩ := hshape
  have hclean : cleanString (trL c ++ [13]) = trL c := by
    rw [hsh]; exact cleanString_line 59 _ bl solid_semi hbl
  refine ⟨h13, rfl, ?_⟩
  rw [hclean]
  have h1 : isSID (trL c) = false := by simp [isSID, trL]
  have h2 : (sb ";FW").isPrefixOf (trL c) = false := by rw [sb_FW3]; simp [trL, List.isPrefixOf]
  have h3 : (sb ";PQ").isPrefixOf (trL c) = false := by rw [sb_PQ3]; simp [trL, List.isPrefixOf]
  have h4 : (trL c).getLast? = some bl := by
    rw [hsh, show (59 : UInt8) :: (t ++ [bl]) = (59 :: t) ++ [bl] from rfl, List.getLast?_append]; simp
  unfold hsVerdict
  simp only [h1, Bool.false_eq_true, if_false, h2, h3, h4, hbv]
  cases c.master <;> simp

/-! ### the two handshakes -/

/-- a cleaned line that leaves the loop of `readHandshake` alone -/
def Neutral (x : Bytes) : Prop :=
  isSID x = false ∧ (sb ";FW").isPrefixOf x = false ∧ (sb ";PQ").isPrefixOf x = false ∧ x.getLast? ≠ some 62

theorem neutral_verdict {x : Bytes} (h : Neutral x) (data : HsData) : hsVerdict data x = .cont data := by
  obtain ⟨h1, h2, h3, h4⟩ := h
  unfold hsVerdict
  simp [h1, h2, h3, h4]

/-- a MOTD line the slave's handshake reads over: no CR inside, and after cleaning it is neither a SID,
nor a `;FW` / `;PQ` line, nor does it end in '>' -/
structure MotdOK (l : Bytes) : Prop where
  no13 : (13 : UInt8) ∉ l
  neutral : Neutral (cleanString (l ++ [13]))

theorem hsFold_append (data : HsData) : ∀ (a b : List Bytes) (d : HsData), hsFold data a = some d →
    hsFold data (a ++ b) = hsFold d b := by
  intro a
  induction a generalizing data with
  | nil => intro b d h; simp only [hsFold, Option.some.injEq] at h; subst h; rfl
  | cons l ls ih =>
    intro b d h
    simp only [hsFold, List.cons_append] at h ⊢
    cases hv : hsVerdict data (cleanString (l ++ [13])) with
    | cont d1 => rw [hv] at h; simp only at h ⊢; exact ih d1 b d h
    | stop d1 => rw [hv] at h; cases h
    | bad => rw [hv] at h; cases h

theorem hsFold_motd (data : HsData) : ∀ (ls : List Bytes), (∀ l ∈ ls, MotdOK l) → hsFold data ls = some data
  | [], _ => rfl
  | l :: ls, h => by
    simp only [hsFold, neutral_verdict (h l (by simp)).neutral]
    exact hsFold_motd data ls (fun q hq => h q (by simp [hq]))

theorem linesBytes_append (a b : List Bytes) : linesBytes (a ++ b) = linesBytes a ++ linesBytes b := by
  simp [linesBytes]

theorem linesBytes_cons (l : Bytes) (ls : List Bytes) : linesBytes (l :: ls) = l ++ 13 :: linesBytes ls := by
  simp [linesBytes]

theorem line_length_lt : ∀ (ls : List Bytes) (l : Bytes), l ∈ ls → l.length < (linesBytes ls).length
  | [], _, h => by cases h
  | x :: xs, l, h => by
    rw [linesBytes_cons]
    simp only [List.length_append, List.length_cons]
    rcases List.mem_cons.mp h with rfl | h
    · omega
    · have := line_length_lt xs l h; omega

theorem lines_count_le : ∀ (ls : List Bytes), ls.length ≤ (linesBytes ls).length
  | [] => Nat.le_refl _
  | x :: xs => by
    rw [linesBytes_cons]
    simp only [List.length_append, List.length_cons]
    have := lines_count_le xs; omega

/-- what the master writes: the MOTD lines and its three handshake lines -/
def hsBytesM (c : Cfg) : Bytes := linesBytes (c.motd ++ [fwL c.hs, sidL c.hs, trL c.hs])
/-- what the slave writes: its three handshake lines -/
def hsBytesS (c : Cfg) : Bytes := linesBytes [fwL c.hs, sidL c.hs, trL c.hs]

theorem sendHandshakeP_plain (c : Cfg) :
    sendHandshakeP c [] = .write (linesBytes [fwL c.hs, sidL c.hs, trL c.hs]) (.ret (.ok ())) := by
  unfold sendHandshakeP
  simp only [List.isEmpty_nil, Bool.not_true, Bool.false_eq_true, false_and, if_false, if_true, sendHandshakeV_plain]
  simp [linesBytes]

theorem handshake_slave_eq (c : Cfg) (fuel : Nat) (hm : c.hs.master = false) :
    handshake c fuel = (readHandshake false fuel fuel {}).bind fun r =>
      match r with
      | .error e => .ret (.error e)
      | .ok hs =>
        if hs.sid.isEmpty then .ret (.error (.proto "no-sid"))
        else (sendHandshakeP c hs.challenge).bind fun r =>
          match r with
          | .error e => .ret (.error e)
          | .ok () => .ret (.ok hs) := by
  unfold handshake
  simp only [hm, Bool.false_eq_true, if_false, bind_eq, pure_eq, Bool.not_false, if_true, Proc.bind]
  congr

theorem handshake_master_eq (c : Cfg) (fuel : Nat) (hm : c.hs.master = true) :
    handshake c fuel = (writeLines c.motd).bind fun _ =>
      .write (linesBytes [fwL c.hs, sidL c.hs, trL c.hs]) ((readHandshake true fuel fuel {}).bind fun r =>
        match r with
        | .error e => .ret (.error e)
        | .ok hs => if hs.sid.isEmpty then .ret (.error (.proto "no-sid")) else .ret (.ok hs)) := by
  unfold handshake
  simp only [hm, if_true, bind_eq, pure_eq, Bool.not_true, Bool.false_eq_true, if_false, sendHandshakeP_plain, Proc.bind]
  congr

/-- the slave's handshake lines read by the master: all let the loop go on, and leave a non-empty SID -/
theorem hsFold_slaveLines (c : HsCfg) (wf : HsWF c) (hm : c.master = false) :
    ∃ d, hsFold {} [fwL c, sidL c, trL c] = some d ∧ d.sid.isEmpty = false := by
  obtain ⟨_, _, fw, v1⟩ := fwL_facts c wf {}
  obtain ⟨_, _, v2⟩ := sidL_facts c wf { ({} : HsData) with fw := fw }
  obtain ⟨_, _, v3⟩ := trL_facts c wf { ({ ({} : HsData) with fw := fw }) with sid := sidCodes c.gzip }
  rw [hm] at v3
  refine ⟨_, by simp only [hsFold, v1, v2, v3]; rfl, ?_⟩
  have := (sidCodes_facts c.gzip).2.2.2.2.2
  cases hs : sidCodes c.gzip with
  | nil => exact absurd hs this
  | cons a t => rfl

/-- the master's lines before its trailer, read by the slave: all let the loop go on, leave a non-empty SID
and no challenge -/
theorem hsFold_masterLines (c : Cfg) (wf : HsWF c.hs) (hmotd : ∀ l ∈ c.motd, MotdOK l) :
    ∃ d, hsFold {} (c.motd ++ [fwL c.hs, sidL c.hs]) = some d ∧ d.sid.isEmpty = false ∧ d.challenge = [] := by
  obtain ⟨_, _, fw, v1⟩ := fwL_facts c.hs wf {}
  obtain ⟨_, _, v2⟩ := sidL_facts c.hs wf { ({} : HsData) with fw := fw }
  rw [hsFold_append {} c.motd _ {} (hsFold_motd {} c.motd hmotd)]
  refine ⟨_, by simp only [hsFold, v1, v2]; rfl, ?_, rfl⟩
  have := (sidCodes_facts c.hs.gzip).2.2.2.2.2
  cases hs : sidCodes c.hs.gzip with
  | nil => exact absurd hs this
  | cons a t => rfl

/-- **The slave's handshake against a well-formed master.** -/
theorem slaveHs_of_wf (cM cS : Cfg) (fuel : Nat) (hmM : cM.hs.master = true) (hmS : cS.hs.master = false)
    (wfM : HsWF cM.hs) (hmotd : ∀ l ∈ cM.motd, MotdOK l) (hfuel : (hsBytesM cM).length < fuel) :
    SlaveHs cS fuel (hsBytesM cM) (hsBytesS cS) := by
  obtain ⟨d, hfold, hsid, hch⟩ := hsFold_masterLines cM wfM hmotd
  obtain ⟨t13, tF, tv⟩ := trL_facts cM.hs wfM d
  rw [hmM] at tv
  simp only [if_true] at tv
  have hHM : hsBytesM cM = linesBytes (cM.motd ++ [fwL cM.hs, sidL cM.hs]) ++ (trL cM.hs ++ 13 :: []) := by
    unfold hsBytesM
    rw [show cM.motd ++ [fwL cM.hs, sidL cM.hs, trL cM.hs] = (cM.motd ++ [fwL cM.hs, sidL cM.hs]) ++ [trL cM.hs] by simp,
      linesBytes_append]
    simp [linesBytes]
  have hlines : ∀ l ∈ cM.motd ++ [fwL cM.hs, sidL cM.hs], (13 : UInt8) ∉ l ∧ l.length < fuel ∧ ¬ (firstOf l = 70 ∧ false = true) := by
    intro l hl
    have hlen : l.length < fuel := by
      have := line_length_lt _ l hl
      rw [hHM] at hfuel
      simp only [List.length_append] at hfuel
      omega
    refine ⟨?_, hlen, by simp⟩
    simp only [List.mem_append, List.mem_cons, List.not_mem_nil, or_false] at hl
    rcases hl with hl | rfl | rfl
    · exact (hmotd l hl).no13
    · exact (fwL_facts cM.hs wfM {}).1
    · exact (sidL_facts cM.hs wfM {}).1
  have hcount : (cM.motd ++ [fwL cM.hs, sidL cM.hs]).length + 1 < fuel := by
    have := lines_count_le (cM.motd ++ [fwL cM.hs, sidL cM.hs])
    rw [hHM] at hfuel
    simp only [List.length_append, List.length_cons, List.length_nil] at hfuel this ⊢
    omega
  have htl : (trL cM.hs).length < fuel := by
    rw [hHM] at hfuel
    simp only [List.length_append, List.length_cons] at hfuel
    omega
  obtain ⟨k, hk⟩ : ∃ k, fuel - (cM.motd ++ [fwL cM.hs, sidL cM.hs]).length = k + 1 := ⟨fuel - (cM.motd ++ [fwL cM.hs, sidL cM.hs]).length - 1, by omega⟩
  refine ⟨hmS, ?_, ?_⟩
  · intro J h hJ hne
    rw [handshake_slave_eq cS fuel hmS, run_bind]
    rw [hHM] at hJ hne
    rcases readHs_lines false fuel h _ {} d fuel hfold hlines (by omega) _ J [] hJ with
      ⟨J2, pk, rfl, hJ2, hpk, hrun⟩ | ⟨pk, _, hpk, hrun⟩
    · rw [hrun, hk]
      rcases prefix_line_cases _ _ _ hJ2 with ⟨J', rfl, hJ'⟩ | hJ'
      · have : J' = [] := prefix_nil hJ'
        subst this
        exact absurd rfl hne
      · obtain ⟨pk2, hpk2, hrun2⟩ := hs_step_eof false fuel k d J2 h (pk ++ []) (not_mem_of_prefix hJ' t13)
          (by have := hJ'.length_le; omega) (by simp)
        rw [hrun2]
        exact ⟨pk2 ++ (pk ++ []), rfl, (hpk2.append (hpk.append peekOnly_nil)).out, (hpk2.append (hpk.append peekOnly_nil)).noConf⟩
    · rw [hrun]
      exact ⟨pk ++ [], rfl, (hpk.append peekOnly_nil).out, (hpk.append peekOnly_nil).noConf⟩
  · intro rest h
    rw [handshake_slave_eq cS fuel hmS, run_bind]
    have hJ : hsBytesM cM ++ rest <+: linesBytes (cM.motd ++ [fwL cM.hs, sidL cM.hs]) ++ (trL cM.hs ++ 13 :: rest) := by
      rw [hHM]; simp
    rcases readHs_lines false fuel h _ {} d fuel hfold hlines (by omega) _ _ [] hJ with
      ⟨J2, pk, hJeq, _, hpk, hrun⟩ | ⟨pk, hlt, _, _⟩
    · have hJ2 : J2 = trL cM.hs ++ 13 :: rest := by
        rw [hHM, List.append_assoc] at hJeq
        have := List.append_cancel_left hJeq
        simpa using this.symm
      subst hJ2
      rw [hrun, hk, hs_step_stop false fuel k d d (trL cM.hs) rest h (pk ++ []) t13 htl (by simp) tv]
      simp only [hsid, Bool.false_eq_true, if_false, hch, sendHandshakeP_plain, Proc.bind, Proc.run]
      refine ⟨d, _, rfl, ?_, ?_⟩
      · simp [outBytes, hpk.out, hsBytesS]
      · intro m hm
        rcases List.mem_cons.mp hm with hm | hm
        · cases hm
        · exact ((hpk.append peekOnly_nil).cons (firstOf (trL cM.hs))).noConf m hm
    · simp only [List.length_append] at hlt
      rw [hHM] at hlt
      simp only [List.length_append] at hlt
      omega

/-- **The master's handshake against a well-formed slave.** -/
theorem masterHs_of_wf (cM cS : Cfg) (fuel : Nat) (hmM : cM.hs.master = true) (hmS : cS.hs.master = false)
    (wfS : HsWF cS.hs) (hfuel : (hsBytesS cS).length < fuel) :
    MasterHs cM fuel (hsBytesM cM) (hsBytesS cS) := by
  obtain ⟨d, hfold, hsid⟩ := hsFold_slaveLines cS.hs wfS hmS
  have hlines : ∀ l ∈ [fwL cS.hs, sidL cS.hs, trL cS.hs], (13 : UInt8) ∉ l ∧ l.length < fuel ∧ ¬ (firstOf l = 70 ∧ true = true) := by
    intro l hl
    have hlen : l.length < fuel := by
      have := line_length_lt _ l hl
      unfold hsBytesS at hfuel
      omega
    refine ⟨?_, hlen, ?_⟩
    · simp only [List.mem_cons, List.not_mem_nil, or_false] at hl
      rcases hl with rfl | rfl | rfl
      · exact (fwL_facts cS.hs wfS {}).1
      · exact (sidL_facts cS.hs wfS {}).1
      · exact (trL_facts cS.hs wfS {}).1
    · simp only [List.mem_cons, List.not_mem_nil, or_false] at hl
      rcases hl with rfl | rfl | rfl
      · rw [(fwL_facts cS.hs wfS {}).2.1]; decide
      · rw [(sidL_facts cS.hs wfS {}).2.1]; decide
      · rw [(trL_facts cS.hs wfS {}).2.1]; decide
  have hcount : 3 < fuel := by
    have := lines_count_le [fwL cS.hs, sidL cS.hs, trL cS.hs]
    unfold hsBytesS at hfuel
    simp only [List.length_cons, List.length_nil] at this
    omega
  obtain ⟨k, hk⟩ : ∃ k, fuel - [fwL cS.hs, sidL cS.hs, trL cS.hs].length = k + 1 := ⟨fuel - 3 - 1, by simp; omega⟩
  -- what the master has written before it reads
  have hpre : ∀ (J : Bytes) (h : HState) (K : Proc (Except SErr HsData)),
      ∃ evs, outBytes evs = linesBytes cM.motd ∧ NoConf evs ∧
        Proc.run hstep ((writeLines cM.motd).bind fun _ => .write (linesBytes [fwL cM.hs, sidL cM.hs, trL cM.hs]) K) J h [] =
          Proc.run hstep K J h (.wrote (linesBytes [fwL cM.hs, sidL cM.hs, trL cM.hs]) :: evs) := by
    intro J h K
    obtain ⟨evs, w1, w2, w3⟩ := run_writeLines hstep J h cM.motd []
    refine ⟨evs, by rw [w2]; rfl, noConf_of_isConfirm w3, ?_⟩
    rw [run_bind, w1]
    simp [Proc.run]
  have hWout : ∀ (evs X : List Ev), outBytes evs = linesBytes cM.motd →
      outBytes (X ++ .wrote (linesBytes [fwL cM.hs, sidL cM.hs, trL cM.hs]) :: evs) = hsBytesM cM ++ outBytes X := by
    intro evs X he
    rw [outBytes_append]
    simp only [outBytes, he, hsBytesM, linesBytes_append]
  refine ⟨hmM, ?_, ?_, ?_⟩
  · intro J h
    rw [handshake_master_eq cM fuel hmM]
    obtain ⟨evs, he, _, hrun⟩ := hpre J h _
    rw [hrun, run_tr]
    exact ⟨_, _, rfl, hWout evs _ he⟩
  · intro J h hJ
    rw [handshake_master_eq cM fuel hmM]
    obtain ⟨evs, he, hec, hrun⟩ := hpre J h _
    rw [hrun, run_bind]
    have hJ' : J <+: linesBytes [fwL cS.hs, sidL cS.hs, trL cS.hs] ++ [] := by simpa [hsBytesS] using hJ
    have hfin : ∀ pk : List Ev, PeekOnly pk →
        outBytes (pk ++ .wrote (linesBytes [fwL cM.hs, sidL cM.hs, trL cM.hs]) :: evs) = hsBytesM cM ∧
          NoConf (pk ++ .wrote (linesBytes [fwL cM.hs, sidL cM.hs, trL cM.hs]) :: evs) := by
      intro pk hpk
      refine ⟨by rw [hWout evs pk he, hpk.out, List.append_nil], noConf_append hpk.noConf ?_⟩
      intro m hm
      rcases List.mem_cons.mp hm with hm | hm
      · cases hm
      · exact hec m hm
    rcases readHs_lines true fuel h _ {} d fuel hfold hlines (by simp; omega) [] J _ hJ' with
      ⟨J2, pk, rfl, hJ2, hpk, hrun2⟩ | ⟨pk, _, hpk, hrun2⟩
    · have : J2 = [] := prefix_nil hJ2
      subst this
      rw [hrun2, hk]
      obtain ⟨pk2, hpk2, hrun3⟩ := hs_step_eof true fuel k d [] h (pk ++ .wrote (linesBytes [fwL cM.hs, sidL cM.hs, trL cM.hs]) :: evs)
        (by simp) (by simp; omega) (by simp)
      rw [hrun3]
      refine ⟨pk2 ++ (pk ++ .wrote (linesBytes [fwL cM.hs, sidL cM.hs, trL cM.hs]) :: evs), rfl, ?_⟩
      rw [← List.append_assoc]
      exact hfin _ (hpk2.append hpk)
    · rw [hrun2]
      exact ⟨_, rfl, hfin pk hpk⟩
  · intro r h
    rw [handshake_master_eq cM fuel hmM]
    obtain ⟨evs, he, hec, hrun⟩ := hpre (hsBytesS cS ++ 70 :: r) h _
    rw [hrun, run_bind]
    have hJ' : hsBytesS cS ++ 70 :: r <+: linesBytes [fwL cS.hs, sidL cS.hs, trL cS.hs] ++ (70 :: r) := by
      simp [hsBytesS]
    rcases readHs_lines true fuel h _ {} d fuel hfold hlines (by simp; omega) (70 :: r) _ _ hJ' with
      ⟨J2, pk, hJeq, _, hpk, hrun2⟩ | ⟨pk, hlt, _, _⟩
    · have hJ2 : J2 = 70 :: r := by
        unfold hsBytesS at hJeq
        exact (List.append_cancel_left hJeq).symm
      subst hJ2
      rw [hrun2, hk, hs_step_F]
      simp only [hsid, Bool.false_eq_true, if_false, Proc.run]
      refine ⟨d, _, rfl, ?_, ?_⟩
      · rw [show Ev.peeked 70 :: (pk ++ .wrote (linesBytes [fwL cM.hs, sidL cM.hs, trL cM.hs]) :: evs) =
          (Ev.peeked 70 :: pk) ++ .wrote (linesBytes [fwL cM.hs, sidL cM.hs, trL cM.hs]) :: evs from rfl, hWout _ _ he,
          (hpk.cons 70).out, List.append_nil]
      · rw [show Ev.peeked 70 :: (pk ++ .wrote (linesBytes [fwL cM.hs, sidL cM.hs, trL cM.hs]) :: evs) =
          (Ev.peeked 70 :: pk) ++ .wrote (linesBytes [fwL cM.hs, sidL cM.hs, trL cM.hs]) :: evs from rfl]
        refine noConf_append (hpk.cons 70).noConf ?_
        intro m hm
        rcases List.mem_cons.mp hm with hm | hm
        · cases hm
        · exact hec m hm
    · unfold hsBytesS at hlt
      simp only [List.length_append, List.length_cons] at hlt
      omega

end Wl2k.B2F
