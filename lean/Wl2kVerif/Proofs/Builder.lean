import Wl2kVerif.Proofs.Message6
import Wl2kVerif.Proofs.Addr
import Wl2kVerif.Proofs.Fmt
/-
Everything the builder API model constructs is well-formed (`wf`), so the round-trip theorems are
not vacuous. Characterisation lemmas for `setRaw`/`addRaw`, then one preservation lemma per builder.
-/
namespace Wl2k.Msg
open Wl2k Wl2k.Textproto

/-! ### setRaw / addRaw -/

theorem keys_setRaw : ∀ (h : Header) (k v : Bytes), keys (setRaw h k v) = if k ∈ keys h then keys h else keys h ++ [k]
  | [], k, v => by simp [setRaw, keys]
  | (k', vs) :: t, k, v => by
    have ih := keys_setRaw t k v
    by_cases hk : k' = k
    · subst hk; simp [setRaw, keys]
    · have hk' : ¬ k = k' := fun e => hk e.symm
      simp only [setRaw, hk, if_false, keys, List.map_cons, List.mem_cons, hk', false_or] at ih ⊢
      rw [ih]; split <;> simp [*]

theorem keys_addRaw : ∀ (h : Header) (k v : Bytes), keys (addRaw h k v) = if k ∈ keys h then keys h else keys h ++ [k]
  | [], k, v => by simp [addRaw, keys]
  | (k', vs) :: t, k, v => by
    have ih := keys_addRaw t k v
    by_cases hk : k' = k
    · subst hk; simp [addRaw, keys]
    · have hk' : ¬ k = k' := fun e => hk e.symm
      simp only [addRaw, hk, if_false, keys, List.map_cons, List.mem_cons, hk', false_or] at ih ⊢
      rw [ih]; split <;> simp [*]

theorem nodup_upd {ks : List Bytes} {k : Bytes} (h : ks.Nodup) : (if k ∈ ks then ks else ks ++ [k]).Nodup := by
  split
  · exact h
  · rename_i hk
    rw [List.nodup_append]
    exact ⟨h, by simp, by intro a ha b hb; simp at hb; subst hb; intro e; subst e; exact hk ha⟩

theorem lookup_setRaw : ∀ (h : Header) (k v k' : Bytes), lookup (setRaw h k v) k' = if k = k' then [v] else lookup h k'
  | [], k, v, k' => by simp [setRaw, lookup]
  | (k0, vs) :: t, k, v, k' => by
    have ih := lookup_setRaw t k v k'
    by_cases h0 : k0 = k
    · subst h0; simp only [setRaw, if_true, lookup]; split <;> rfl
    · simp only [setRaw, h0, if_false, lookup, ih]
      by_cases h1 : k0 = k'
      · subst h1; have hne : k ≠ k0 := fun e => h0 e.symm; simp [hne]
      · simp [h1]

theorem lookup_addRaw : ∀ (h : Header) (k v k' : Bytes), lookup (addRaw h k v) k' = if k = k' then lookup h k ++ [v] else lookup h k'
  | [], k, v, k' => by simp [addRaw, lookup]
  | (k0, vs) :: t, k, v, k' => by
    have ih := lookup_addRaw t k v k'
    by_cases h0 : k0 = k
    · subst h0; simp only [addRaw, if_true, lookup]; split <;> rfl
    · simp only [addRaw, h0, if_false, lookup, ih]
      by_cases h1 : k0 = k'
      · subst h1; have hne : k ≠ k0 := fun e => h0 e.symm; simp [hne]
      · simp [h1]

theorem mem_setRaw : ∀ {h : Header} {k v : Bytes} {e : Bytes × List Bytes}, e ∈ setRaw h k v → e = (k, [v]) ∨ e ∈ h
  | [], k, v, e, he => by simp [setRaw] at he; exact Or.inl he
  | (k0, vs) :: t, k, v, e, he => by
    by_cases h0 : k0 = k
    · subst h0
      simp only [setRaw, if_true, List.mem_cons] at he
      rcases he with rfl | he
      · exact Or.inl rfl
      · exact Or.inr (by simp [he])
    · simp only [setRaw, h0, if_false, List.mem_cons] at he
      rcases he with rfl | he
      · exact Or.inr (by simp)
      · rcases mem_setRaw he with h1 | h1
        · exact Or.inl h1
        · exact Or.inr (by simp [h1])

theorem mem_addRaw : ∀ {h : Header} {k v : Bytes} {e : Bytes × List Bytes}, e ∈ addRaw h k v →
    e ∈ h ∨ e = (k, [v]) ∨ ∃ vs, (k, vs) ∈ h ∧ e = (k, vs ++ [v])
  | [], k, v, e, he => by simp [addRaw] at he; exact Or.inr (Or.inl he)
  | (k0, vs) :: t, k, v, e, he => by
    by_cases h0 : k0 = k
    · subst h0
      simp only [addRaw, if_true, List.mem_cons] at he
      rcases he with rfl | he
      · exact Or.inr (Or.inr ⟨vs, by simp, rfl⟩)
      · exact Or.inl (by simp [he])
    · simp only [addRaw, h0, if_false, List.mem_cons] at he
      rcases he with rfl | he
      · exact Or.inl (by simp)
      · rcases mem_addRaw he with h1 | h1 | ⟨ws, h1, h2⟩
        · exact Or.inl (by simp [h1])
        · exact Or.inr (Or.inl h1)
        · exact Or.inr (Or.inr ⟨ws, by simp [h1], h2⟩)

/-! ### converse of `wf_facts` -/

theorem wf_of_facts {X : Ext} {m : Msg} (F : WFfacts X m) : wf X m = true := by
  simp only [wf, Bool.and_eq_true, decide_eq_true_eq, List.all_eq_true, beq_iff_eq]
  refine ⟨⟨⟨⟨⟨⟨F.nodup, F.entries⟩, ?_⟩, ?_⟩, F.body⟩, F.files⟩, F.date⟩
  · intro e he
    cases hm : isMidFold e.1 with
    | false => simp
    | true => simp [F.midU e he hm]
  · obtain ⟨v, hv, hne⟩ := F.mid
    simp only [midWF, hv]
    cases ht : trimString v with
    | nil => exact absurd ht hne
    | cons a t => rfl

/-! ### updating a header field that is not Mid/Body/File/Date -/

theorem getRaw_setRaw_ne (h : Header) {k k' : Bytes} (v : Bytes) (hne : k ≠ k') : getRaw (setRaw h k v) k' = getRaw h k' := by
  simp [getRaw, lookup_setRaw, hne]
theorem getRaw_addRaw_ne (h : Header) {k k' : Bytes} (v : Bytes) (hne : k ≠ k') : getRaw (addRaw h k v) k' = getRaw h k' := by
  simp [getRaw, lookup_addRaw, hne]

theorem entryOK_single {k v : Bytes} (hk : keyOK k = true) (hv : valueOK v = true) : entryOK (k, [v]) = true := by
  simp [entryOK, hk, hv]

theorem entryOK_snoc {k v : Bytes} {vs : List Bytes} (h : entryOK (k, vs) = true) (hv : valueOK v = true) :
    entryOK (k, vs ++ [v]) = true := by
  simp only [entryOK, Bool.and_eq_true, List.all_eq_true] at h ⊢
  refine ⟨⟨h.1.1, by simp⟩, ?_⟩
  intro x hx
  simp only [List.mem_append, List.mem_singleton] at hx
  rcases hx with hx | rfl
  · exact h.2 x hx
  · exact hv

theorem WF_set {X : Ext} {m : Msg} (F : WFfacts X m) {k v : Bytes} (hk : keyOK k = true) (hv : valueOK v = true)
    (hm : isMidFold k = false) (h1 : k ≠ kBody) (h2 : k ≠ kFile) (h3 : k ≠ kDate) :
    WFfacts X { m with header := setRaw m.header k v } := by
  have hkm : k ≠ kMid := by intro e; subst e; revert hm; decide
  refine ⟨?_, ?_, ?_, ?_, ?_, ?_, ?_⟩
  · simp only [keys_setRaw]; exact nodup_upd F.nodup
  · intro e he
    rcases mem_setRaw he with rfl | he
    · exact entryOK_single hk hv
    · exact F.entries e he
  · intro e he hmf
    rcases mem_setRaw he with rfl | he
    · simp [hm] at hmf
    · exact F.midU e he hmf
  · simpa [lookup_setRaw, hkm] using F.mid
  · simpa [getRaw_setRaw_ne _ _ h1] using F.body
  · simpa [lookup_setRaw, h2] using F.files
  · simpa [getRaw_setRaw_ne _ _ h3] using F.date

theorem WF_add {X : Ext} {m : Msg} (F : WFfacts X m) {k v : Bytes} (hk : keyOK k = true) (hv : valueOK v = true)
    (hm : isMidFold k = false) (h1 : k ≠ kBody) (h2 : k ≠ kFile) (h3 : k ≠ kDate) :
    WFfacts X { m with header := addRaw m.header k v } := by
  have hkm : k ≠ kMid := by intro e; subst e; revert hm; decide
  refine ⟨?_, ?_, ?_, ?_, ?_, ?_, ?_⟩
  · simp only [keys_addRaw]; exact nodup_upd F.nodup
  · intro e he
    rcases mem_addRaw he with he | rfl | ⟨vs, h1, rfl⟩
    · exact F.entries e he
    · exact entryOK_single hk hv
    · exact entryOK_snoc (F.entries _ h1) hv
  · intro e he hmf
    rcases mem_addRaw he with he | rfl | ⟨vs, h1, rfl⟩
    · exact F.midU e he hmf
    · simp [hm] at hmf
    · simp [hm] at hmf
  · simpa [lookup_addRaw, hkm] using F.mid
  · simpa [getRaw_addRaw_ne _ _ h1] using F.body
  · simpa [lookup_addRaw, h2] using F.files
  · simpa [getRaw_addRaw_ne _ _ h3] using F.date

end Wl2k.Msg
