import Wl2kVerif.Url.Concurrent
/-
Basic lemmas for the concurrent registry model: case principle for `stepThread`, `lin` of an extended
trace, sequential-run facts.
-/
namespace Wl2k.Url.Conc

/-- Case principle for one scheduling slot. -/
theorem stepThread_cases (progs : List (List COp)) (st : State) (t : Nat) (P : State → Prop)
    (hskip : P st)
    (hlock : ∀ op, curOp progs st t = some op → (st.threads t).pc = .idle → st.holder = none →
      P ⟨st.reg, some t, setThread st.threads t ⟨(st.threads t).idx, .locked⟩,
          st.trace ++ [⟨t, (st.threads t).idx, op, .lock, none⟩]⟩)
    (hacc : ∀ op, curOp progs st t = some op → (st.threads t).pc = .locked →
      P ⟨(op.apply st.reg).1, st.holder,
        setThread st.threads t ⟨(st.threads t).idx, .accessed (op.apply st.reg).2⟩,
        st.trace ++ [⟨t, (st.threads t).idx, op, .access, none⟩]⟩)
    (hunlR : ∀ o res, curOp progs st t = some (.reg o) → (st.threads t).pc = .accessed res →
      P ⟨st.reg, none, setThread st.threads t ⟨(st.threads t).idx + 1, .idle⟩,
          st.trace ++ [⟨t, (st.threads t).idx, .reg o, .unlock, some res⟩]⟩)
    (hunlD : ∀ s res, curOp progs st t = some (.dial s) → (st.threads t).pc = .accessed res →
      P ⟨st.reg, none, setThread st.threads t ⟨(st.threads t).idx, .unlocked res⟩,
          st.trace ++ [⟨t, (st.threads t).idx, .dial s, .unlock, none⟩]⟩)
    (hdisp : ∀ op res, curOp progs st t = some op → (st.threads t).pc = .unlocked res →
      P ⟨st.reg, st.holder, setThread st.threads t ⟨(st.threads t).idx + 1, .idle⟩,
        st.trace ++ [⟨t, (st.threads t).idx, op, .dispatch, some res⟩]⟩) :
    P (stepThread progs st t) := by
  unfold stepThread
  split
  · exact hskip
  · rename_i op hop
    split
    · rename_i hpc
      split
      · exact hskip
      · rename_i hh; exact hlock op hop hpc hh
    · rename_i hpc; exact hacc op hop hpc
    · rename_i res hpc
      split
      · rename_i o; exact hunlR o res hop hpc
      · rename_i s; exact hunlD s res hop hpc
    · rename_i res hpc; exact hdisp op res hop hpc

@[simp] theorem setThread_same (f : Nat → Thread) (t : Nat) (th : Thread) : setThread f t th t = th := by
  simp [setThread]

theorem setThread_other (f : Nat → Thread) (t u : Nat) (th : Thread) (h : u ≠ t) :
    setThread f t th u = f u := by
  simp [setThread, h]

theorem lin_append_access (tr : List Ev) (e : Ev) (h : e.kind = .access) :
    lin (tr ++ [e]) = lin tr ++ [e.id] := by
  simp [lin, List.filterMap_append, h]

theorem lin_append_other (tr : List Ev) (e : Ev) (h : e.kind ≠ .access) :
    lin (tr ++ [e]) = lin tr := by
  simp [lin, List.filterMap_append, h]

@[simp] theorem lin_nil : lin [] = [] := rfl

theorem seqRun_append (l : List COp) (op : COp) :
    seqRun (l ++ [op]) = (op.apply (seqRun l)).1 := by
  simp [seqRun, List.foldl_append]

theorem regOps_cons_reg (o : RegOp) (l : List COp) : regOps (.reg o :: l) = o :: regOps l := rfl
theorem regOps_cons_dial (s : Bytes) (l : List COp) : regOps (.dial s :: l) = regOps l := rfl
theorem apply_reg (o : RegOp) (r : Registry) : (COp.reg o).apply r = (r.step o, .unit) := rfl
theorem apply_dial (s : Bytes) (r : Registry) : (COp.dial s).apply r = (r, .dialed (r.dial s)) := rfl

theorem foldl_apply_regOps (l : List COp) : ∀ r : Registry,
    l.foldl (fun r op => (op.apply r).1) r = (regOps l).foldl Registry.step r := by
  induction l with
  | nil => intro r; rfl
  | cons op rest ih =>
    intro r
    cases op with
    | reg o => rw [List.foldl_cons, regOps_cons_reg, List.foldl_cons, apply_reg, ih]
    | dial s => rw [List.foldl_cons, regOps_cons_dial, apply_dial, ih]

/-- The sequential run of a list of calls is `Registry.run` of its register/unregister calls. -/
theorem seqRun_eq_run (l : List COp) : seqRun l = Registry.run (regOps l) := by
  unfold seqRun Registry.run
  exact foldl_apply_regOps l []

theorem execFrom_append (progs : List (List COp)) : ∀ (s1 : List Nat) (st : State) (s2 : List Nat),
    execFrom progs st (s1 ++ s2) = execFrom progs (execFrom progs st s1) s2 := by
  intro s1
  induction s1 with
  | nil => intro st s2; rfl
  | cons t ts ih => intro st s2; simp only [List.cons_append, execFrom, ih]

theorem exec_snoc (progs : List (List COp)) (sched : List Nat) (t : Nat) :
    exec progs (sched ++ [t]) = stepThread progs (exec progs sched) t := by
  unfold exec
  rw [execFrom_append]
  rfl

/-- Invariants of `exec` are established by preservation. -/
theorem exec_induction (progs : List (List COp)) (P : State → Prop) (h0 : P init)
    (hstep : ∀ st t, P st → P (stepThread progs st t)) (sched : List Nat) : P (exec progs sched) := by
  have : ∀ (s : List Nat) (st : State), P st → P (execFrom progs st s) := by
    intro s
    induction s with
    | nil => intro st h; exact h
    | cons t ts ih => intro st h; exact ih _ (hstep st t h)
  exact this sched init h0

end Wl2k.Url.Conc
