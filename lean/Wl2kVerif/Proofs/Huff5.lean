import Wl2kVerif.Proofs.Huff3
import Wl2kVerif.Proofs.Huff4
/-
`update` preserves `HuffWF` unconditionally; every reachable state is well-formed; `decodeChar` is safe.
-/
namespace Wl2k.Lzhuf

/-- **`update` preserves the invariant**, rebuild included. -/
theorem update_preserves {h : Huff} (w : HuffWF h) (c : Nat) (hc : c < NCHAR) : HuffWF (update h c) := by
  by_cases hmax : rd h.freq R = MAXFREQ
  · have ⟨w', lt'⟩ := reconst_preserves w hmax
    have e : update h c = update (reconst h) c := by
      unfold update
      simp only [hmax, if_true]
      rw [if_neg (by omega)]
    rw [e]; exact update_preserves_of_lt w' lt' c hc
  · exact update_preserves_of_lt w (by have := w.root_le; omega) c hc

theorem foldl_update_wf (syms : List Nat) (hs : ∀ c ∈ syms, c < NCHAR) (h : Huff) (w : HuffWF h) :
    HuffWF (syms.foldl update h) := by
  induction syms generalizing h with
  | nil => exact w
  | cons c t ih =>
    rw [List.foldl_cons]
    have w' : HuffWF (update h c) := update_preserves w c (hs c List.mem_cons_self)
    exact ih (fun x hx => hs x (List.mem_cons_of_mem _ hx)) (update h c) w'

/-- **every reachable Huffman state is well-formed** -/
theorem huffWF_reachable (syms : List Nat) (hs : ∀ c ∈ syms, c < NCHAR) : HuffWF (syms.foldl update Huff.init) :=
  foldl_update_wf syms hs Huff.init huffWF_init

/-- `decodeChar` on a well-formed state, for any bit source: the result is a symbol `< NCHAR`, the new
Huffman state is well-formed (in particular no fault flag), and apart from the Huffman update the reader
only performed `n < T` single-bit reads. -/
theorem Reader.decodeChar_spec (d : Reader) (w : HuffWF d.h) :
    d.decodeChar.2 < NCHAR ∧ HuffWF d.decodeChar.1.h ∧
    ∃ n, n < T ∧ d.decodeChar.1 = { (d.takeBits n).1 with h := update d.h d.decodeChar.2 } := by
  obtain ⟨n, n1, n2, n3, n4⟩ := Reader.walk_total d w.toHuffS
  have e : d.decodeChar = ({ (d.walk (rd d.h.son R) (T + 1)).1 with
      h := update (d.walk (rd d.h.son R) (T + 1)).1.h ((d.walk (rd d.h.son R) (T + 1)).2 - T) },
      (d.walk (rd d.h.son R) (T + 1)).2 - T) := rfl
  rw [e]
  generalize d.walk (rd d.h.son R) (T + 1) = p at *
  obtain ⟨d', c⟩ := p
  simp only at *
  have hh : d'.h = d.h := by rw [n2]; exact Reader.takeBits_h d n
  have hc : c - T < NCHAR := by omega
  refine ⟨hc, ?_, n, n1, ?_⟩
  · rw [hh]; exact update_preserves w _ hc
  · rw [hh, n2]


/-- each `updateLoop` adds exactly one to the root weight -/
theorem updateLoop_root : ∀ fuel (h : Huff) (c : Nat), LoopInv h c → T + 1 ≤ fuel + c →
    rd (updateLoop h c fuel).freq R = rd h.freq R + 1 := by
  intro fuel
  induction fuel with
  | zero => intro h c inv hf; have := inv.c_lt; omega
  | succ fuel ih =>
    intro h c inv hf
    have hc := inv.c_lt
    rw [updateLoop_succ h c fuel (by rw [inv.sz_freq]; omega) (by rw [inv.sz_prnt]; omega) (by rw [inv.sz_son]; omega)]
    have st := stepH_res inv
    rw [st.prnt_l]
    split
    · rename_i hz
      have hl : (stepH h c).2 = R := (inv.toHuffS.prnt_eq_zero _ st.l_lt).1 hz
      rw [← hl, st.f_l]
    · rename_i hz
      have ⟨inv', gt⟩ := st.continue inv hz
      rw [ih _ _ inv' (by have := st.c_le; omega)]
      have hlR : (stepH h c).2 ≠ R := fun e => hz ((inv.toHuffS.prnt_eq_zero _ st.l_lt).2 e)
      rw [st.f_ne _ (fun e => hlR e.symm)]

theorem update_root_of_lt {h : Huff} (w : HuffWF h) (hlt : rd h.freq R < MAXFREQ) (c : Nat) (hc : c < NCHAR) :
    rd (update h c).freq R = rd h.freq R + 1 := by
  unfold update
  have hne : rd h.freq R ≠ MAXFREQ := by omega
  simp only [hne, if_false]
  have : c + T < h.prnt.size := by rw [w.sz_prnt]; omega
  rw [Huff.chk_of _ _ (by simpa using this)]
  have ⟨p1, p2⟩ := w.prnt_leaf c hc
  exact updateLoop_root _ _ _ (w.loopInv_leaf hlt _ p1 (by rw [p2]; omega)) (by omega)

/-- the rebuild is reachable: after `MAXFREQ - NCHAR` updates the root weight is `MAXFREQ` -/
theorem rebuild_reachable : ∃ syms : List Nat, (∀ c ∈ syms, c < NCHAR) ∧
    HuffWF (syms.foldl update Huff.init) ∧ rd (syms.foldl update Huff.init).freq R = MAXFREQ := by
  have key : ∀ n, n ≤ MAXFREQ - 314 → ∃ h, (∃ syms : List Nat, (∀ c ∈ syms, c < NCHAR) ∧ h = syms.foldl update Huff.init) ∧
      HuffWF h ∧ rd h.freq R = 314 + n := by
    intro n
    induction n with
    | zero =>
      intro _
      refine ⟨Huff.init, ⟨[], by simp, by simp only [List.foldl_nil]⟩, huffWF_init, ?_⟩
      rw [R_eq, init_spec.freq 626 (by omega)]; simp [initFreqF]
    | succ n ih =>
      intro hn
      obtain ⟨h, ⟨syms, s1, s2⟩, w, r⟩ := ih (by omega)
      have hlt : rd h.freq R < MAXFREQ := by simp only [MAXFREQ_eq] at *; omega
      refine ⟨update h 0, ⟨syms ++ [0], ?_, ?_⟩, update_preserves w 0 (by decide), ?_⟩
      · intro c hc
        rcases List.mem_append.1 hc with hc | hc
        · exact s1 c hc
        · simp at hc; subst hc; decide
      · rw [List.foldl_append, ← s2]; simp only [List.foldl_cons, List.foldl_nil]
      · rw [update_root_of_lt w hlt 0 (by decide), r]; omega
  obtain ⟨h, ⟨syms, s1, s2⟩, w, r⟩ := key (MAXFREQ - 314) (Nat.le_refl _)
  subst s2
  exact ⟨syms, s1, w, by rw [r, MAXFREQ_eq]⟩

end Wl2k.Lzhuf
