import Wl2kVerif.Proofs.AlterHeaderIns
/-
Deletion of one byte from the header of a transfer frame.
-/
namespace Wl2k.B2F
open Wl2k Wl2k.Strconv

variable {H : Type} (hstep : H → Call → H × Reply)

theorem not_mem_eraseIdx (q : Bytes) (hq : (0 : UInt8) ∉ q) (j : Nat) : (0 : UInt8) ∉ q.eraseIdx j :=
  fun h => hq (List.mem_of_mem_eraseIdx h)

/-- **Deletion from the header.** `k = j + 2` with `j ≤ |qtitle| + 2`: any position from the first title
byte up to and including the final NUL. -/
theorem run_rc_header_delete (m : Nat) (qtitle d rest : Bytes) (hq : (0 : UInt8) ∉ qtitle)
    (hlen : qtitle.length + 3 < 256) (p : Proposal)
    (fuel : Nat) (hfuel : (frameOf m qtitle d ++ rest).length < fuel) (h : H) (tr : List Ev)
    (k : Nat) (hk2 : 2 ≤ k) (hk : k ≤ qtitle.length + 4) :
    ∃ e rem, Proc.run hstep (readCompressed fuel p) ((frameOf m qtitle d).eraseIdx k ++ rest) h tr =
        (.done (.error e), rem, h, tr) ∧
      (e = .proto "header-length-mismatch" ∨ ((k = qtitle.length + 2 ∨ k = qtitle.length + 4) ∧ e = .eof)) := by
  obtain ⟨j, rfl⟩ : ∃ j, k = j + 2 := ⟨k - 2, by omega⟩
  have hL := lenByte_toNat qtitle hlen
  rw [List.length_append, frameOf_length] at hfuel
  obtain ⟨c, T, hT, hc⟩ := frameTail_head m d
  rw [frameOf_cons, List.eraseIdx_cons_succ, List.eraseIdx_cons_succ]
  by_cases hj : j < qtitle.length
  · -- a title byte
    rw [List.eraseIdx_append_of_lt_length hj]
    refine ⟨_, frameTail m d ++ rest, ?_, .inl rfl⟩
    have := run_rc_hdr_mismatch hstep fuel p (lenByte qtitle) (qtitle.eraseIdx j) [48] (frameTail m d ++ rest)
      (not_mem_eraseIdx qtitle hq j) (by decide) (by rw [List.length_eraseIdx_of_lt hj]; omega) (by simp; omega)
      (by rw [List.length_eraseIdx_of_lt hj]; simp; omega) h tr
    simpa using this
  · rw [List.eraseIdx_append_of_length_le (by omega)]
    by_cases hj0 : j = qtitle.length
    · -- the first NUL
      subst hj0
      simp only [Nat.sub_self, List.eraseIdx_cons_zero]
      obtain ⟨e, rem, hr, he⟩ := run_rc_hdr_open hstep fuel p (lenByte qtitle) (qtitle ++ [48]) [] (frameTail m d ++ rest)
        c (T ++ rest) (by simp only [List.mem_append, not_or]; exact ⟨hq, by decide⟩) (by simp) (by rw [hT]; rfl) hc
        (by simp; omega) (by simp; omega) (by simp; omega) h tr
      refine ⟨e, rem, ?_, ?_⟩
      · simpa using hr
      · rcases he with he | he
        · exact .inl he
        · exact .inr ⟨by simp, he⟩
    · by_cases hj1 : j = qtitle.length + 1
      · -- the offset digit
        subst hj1
        rw [show qtitle.length + 1 - qtitle.length = 1 by omega]
        simp only [List.eraseIdx_cons_succ, List.eraseIdx_cons_zero]
        refine ⟨_, frameTail m d ++ rest, ?_, .inl rfl⟩
        have := run_rc_hdr_mismatch hstep fuel p (lenByte qtitle) qtitle [] (frameTail m d ++ rest)
          hq (by simp) (by omega) (by simp; omega) (by simp; omega) h tr
        simpa using this
      · -- the final NUL
        have hj2 : j = qtitle.length + 2 := by omega
        subst hj2
        rw [show qtitle.length + 2 - qtitle.length = 2 by omega]
        simp only [List.eraseIdx_cons_succ, List.eraseIdx_cons_zero]
        obtain ⟨e, rem, hr, he⟩ := run_rc_hdr_open hstep fuel p (lenByte qtitle) qtitle [48] (frameTail m d ++ rest)
          c (T ++ rest) hq (by decide) (by rw [hT]; rfl) hc
          (by simp; omega) (by omega) (by simp; omega) h tr
        refine ⟨e, rem, ?_, ?_⟩
        · simpa using hr
        · rcases he with he | he
          · exact .inl he
          · exact .inr ⟨by simp, he⟩

end Wl2k.B2F
