import Wl2kVerif.Proofs.MboxConfine
import Wl2kVerif.Mbox.Crash
namespace Wl2k.Mbox
open Wl2k Wl2k.Str Wl2k.Path

theorem mem_takeWhile_sat {α} {p : α → Bool} {l : List α} {x : α} (h : x ∈ l.takeWhile p) : p x = true := by
  induction l with
  | nil => simp at h
  | cons a t ih =>
    simp only [List.takeWhile_cons] at h
    split at h
    · rename_i ha
      rcases List.mem_cons.mp h with rfl | h'
      · exact ha
      · exact ih h'
    · simp at h

theorem baseOf_noslash (p : FPath) : (47 : UInt8) ∉ baseOf p := by
  unfold baseOf pathSplit
  simp only [List.mem_reverse]
  intro h
  have := mem_takeWhile_sat h
  simp at this

theorem lookup_setFile_ne (fs : FS) (t q : FPath) (x : Bytes) (h : q ≠ t) :
    (fs.setFile t x).lookup q = fs.lookup q := by
  unfold FS.lookup FS.setFile
  have ht : ¬ (t = q) := fun e => h e.symm
  simp only [List.find?_cons, ht, decide_false]
  rw [List.find?_filter]
  congr 1
  apply find?_congr'
  intro y _
  by_cases hy : y.1 = q
  · simp [hy, h]
  · simp [hy]

theorem isFile_setFile_ne (fs : FS) (t q : FPath) (x : Bytes) (h : q ≠ t) :
    (fs.setFile t x).isFile q = fs.isFile q := by
  unfold FS.isFile FS.setFile
  have ht : ¬ (t = q) := fun e => h e.symm
  simp only [List.any_cons, ht, decide_false, Bool.false_or, List.any_filter]
  congr 1
  funext y
  by_cases hy : y.1 = q
  · simp [hy, h]
  · simp [hy]

/-- Visible file names of a directory, in file-system order. -/
def visNames (fs : FS) (d : FPath) : List Bytes :=
  fs.files.filterMap fun x =>
    if parentOf x.1 = d ∧ baseOf x.1 ≠ [] ∧ visibleName (baseOf x.1) = true then some (baseOf x.1) else none

theorem load_eq (C : Codec) (fs : FS) (d : FPath) :
    loadMessageDir C fs d = if fs.isDir d then loadAll C fs d (isort bytesLe (visNames fs d)) else none := by
  unfold loadMessageDir FS.readDir
  cases hd : fs.isDir d with
  | false => simp
  | true =>
    simp only [Bool.not_true, Bool.false_eq_true, if_false, if_true]
    rw [List.filterMap_append, List.filterMap_filterMap, List.filterMap_filterMap]
    have h2 : fs.dirs.filterMap (fun x => Option.bind
        (if parentOf x = d ∧ x ≠ d ∧ baseOf x ≠ [] then some (baseOf x, (none : Option Bytes)) else none)
        fun x => if x.2.isSome = true ∧ visibleName x.1 = true then some x.1 else none) = [] := by
      rw [List.filterMap_eq_nil_iff]
      intro q _
      split <;> simp
    rw [h2, List.append_nil]
    congr 2
    unfold visNames
    apply filterMap_congr'
    intro x _
    by_cases h1 : parentOf x.1 = d ∧ baseOf x.1 ≠ []
    · by_cases hv : visibleName (baseOf x.1) = true
      · simp [h1, hv]
      · simp [h1, hv]
    · have : ¬ (parentOf x.1 = d ∧ baseOf x.1 ≠ [] ∧ visibleName (baseOf x.1) = true) := by
        intro h; exact h1 ⟨h.1, h.2.1⟩
      simp [h1, this]

theorem visNames_setFile (fs : FS) (t : FPath) (x : Bytes) (d : FPath)
    (hinv : visibleName (baseOf t) = false) : visNames (fs.setFile t x) d = visNames fs d := by
  unfold visNames FS.setFile
  simp only [List.filterMap_cons, hinv, Bool.false_eq_true, and_false, if_false]
  rw [List.filterMap_filter]
  apply filterMap_congr'
  intro y _
  by_cases hy : y.1 = t
  · simp [hy, hinv]
  · simp [hy]

theorem loadAll_setFile (C : Codec) (fs : FS) (t : FPath) (x : Bytes) (d : FPath) (names : List Bytes)
    (h : ∀ n ∈ names, Path.join [d, n] ≠ t) :
    loadAll C (fs.setFile t x) d names = loadAll C fs d names := by
  induction names with
  | nil => rfl
  | cons n r ih =>
    simp only [loadAll, openMessage]
    rw [lookup_setFile_ne _ _ _ _ (h n (by simp)), ih (fun m hm => h m (by simp [hm]))]

theorem mem_visNames {fs : FS} {d : FPath} {n : Bytes} (h : n ∈ visNames fs d) :
    Elem n ∧ visibleName n = true := by
  unfold visNames at h
  obtain ⟨y, _, hy⟩ := List.mem_filterMap.mp h
  split at hy
  · rename_i hc
    simp only [Option.some.injEq] at hy
    subst hy
    refine ⟨elem_of_head hc.2.1 ?_ (baseOf_noslash _), hc.2.2⟩
    have := hc.2.2
    unfold visibleName at this
    simp only [Bool.and_eq_true, bne_iff_ne, ne_eq] at this
    exact this.1
  · exact absurd hy (by simp)

/-- **Creating, truncating or appending to a file whose name the loader ignores changes nothing a
restarted mailbox can observe** — for ANY file system contents. -/
theorem sameView_setFile {C : Codec} {root : FPath} (hr : NormalRoot root) (fs : FS) (f : Folder)
    (tn : Bytes) (hts : (47 : UInt8) ∉ tn) (hinv : visibleName tn = false) (x : Bytes) :
    sameView C root (fs.setFile (fp root f tn) x) fs := by
  obtain ⟨_, hb⟩ := parentOf_fp root f tn hts
  have hinv' : visibleName (baseOf (fp root f tn)) = false := by rw [hb]; exact hinv
  constructor
  · intro g
    rw [folderPath_eq hr, load_eq, load_eq, visNames_setFile _ _ _ _ hinv']
    have : (fs.setFile (fp root f tn) x).isDir (dp root g) = fs.isDir (dp root g) := rfl
    rw [this]
    cases fs.isDir (dp root g) with
    | false => rfl
    | true =>
      simp only [if_true]
      apply loadAll_setFile
      intro n hn
      have hn' := mem_visNames ((mem_isort _ _ _).mp hn)
      rw [join_dp hr g n hn'.1]
      intro e
      have := (fp_inj _ _ _ _ _ e).2
      rw [this, hinv] at hn'
      exact absurd hn'.2 (by simp)
  · intro mid hv
    unfold msgPath3
    rw [join3_eq hr _ _ (elem_name hv)]
    have hne : fp root .inbox (mid ++ ext) ≠ fp root f tn := by
      intro e
      have := (fp_inj _ _ _ _ _ e).2
      have hvis := visible_name hv
      rw [this, hinv] at hvis
      exact absurd hvis (by simp)
    unfold FS.canOpen
    rw [isFile_setFile_ne _ _ _ _ hne]
    rfl

theorem sameView.refl {C root} (a : FS) : sameView C root a a := ⟨fun _ => rfl, fun _ _ => rfl⟩
theorem sameView.trans {C root} {a b c : FS} (h1 : sameView C root a b) (h2 : sameView C root b c) :
    sameView C root a c :=
  ⟨fun f => (h1.1 f).trans (h2.1 f), fun m hm => (h1.2 m hm).trans (h2.2 m hm)⟩
theorem sameView.symm {C root} {a b : FS} (h : sameView C root a b) : sameView C root b a :=
  ⟨fun f => (h.1 f).symm, fun m hm => (h.2 m hm).symm⟩

theorem sameView_open {C : Codec} {root : FPath} (hr : NormalRoot root) (fs : FS) (f : Folder)
    (tn : Bytes) (hts : (47 : UInt8) ∉ tn) (hinv : visibleName tn = false) :
    sameView C root (Sys.apply fs (.openTrunc (fp root f tn))) fs := by
  simp only [Sys.apply]
  split
  · exact sameView_setFile hr fs f tn hts hinv []
  · exact sameView.refl fs

theorem sameView_write {C : Codec} {root : FPath} (hr : NormalRoot root) (fs : FS) (f : Folder)
    (tn : Bytes) (hts : (47 : UInt8) ∉ tn) (hinv : visibleName tn = false) (b : Bytes) :
    sameView C root (Sys.apply fs (.write (fp root f tn) b)) fs := by
  simp only [Sys.apply]
  split
  · exact sameView_setFile hr fs f tn hts hinv _
  · exact sameView.refl fs

/-- **Crash atomicity of the temp-file-and-rename script**: in every state the process can die in —
before/after each system call, after every prefix of the write — a restarted mailbox observes exactly
the state before the operation, or the file system is the one after the whole script.
For ALL file-system contents `fs`, all contents `c`, any final name `p`, any temporary name in a
mailbox folder that the loader ignores. -/
theorem crash_atomic_script {C : Codec} {root : FPath} (hr : NormalRoot root) (fs : FS) (f : Folder)
    (tn : Bytes) (hts : (47 : UInt8) ∉ tn) (hinv : visibleName tn = false) (p : FPath) (c : Bytes) :
    ∀ fs' ∈ crashStates fs (atomicScript (fp root f tn) p c),
      sameView C root fs' fs ∨ fs' = runScript fs (atomicScript (fp root f tn) p c) := by
  intro fs' hm
  have ho := sameView_open (C := C) hr fs f tn hts hinv
  simp only [atomicScript, crashStates, List.mem_cons, List.mem_append, List.mem_map, List.mem_range,
    List.mem_nil_iff, or_false] at hm
  rcases hm with rfl | (rfl | ⟨k, _, rfl⟩) | rfl | rfl | rfl
  · exact Or.inl (sameView.refl _)
  · exact Or.inl ho
  · exact Or.inl ((sameView_write hr _ f tn hts hinv _).trans ho)
  · exact Or.inl ((sameView_write hr _ f tn hts hinv _).trans ho)
  · exact Or.inl ((sameView_write hr _ f tn hts hinv _).trans ho)
  · right; rfl


theorem loadAll_congr (C : Codec) (a b : FS) (d : FPath) (names : List Bytes) (h : a.files = b.files) :
    loadAll C a d names = loadAll C b d names := by
  induction names with
  | nil => rfl
  | cons n r ih => simp only [loadAll, openMessage, FS.lookup, h, ih]

theorem sameView_of_eq {C root} {a b : FS} (hf : a.files = b.files) (hd : a.dirs = b.dirs) : sameView C root a b := by
  constructor
  · intro g
    rw [load_eq, load_eq]
    have h1 : a.isDir (folderPath root g) = b.isDir (folderPath root g) := by unfold FS.isDir; rw [hd]
    have h2 : visNames a (folderPath root g) = visNames b (folderPath root g) := by unfold visNames; rw [hf]
    rw [h1, h2, loadAll_congr C a b _ _ hf]
  · intro mid _
    unfold FS.canOpen FS.isFile FS.isDir
    rw [hf, hd]

theorem filter_filter_same {α} (p : α → Bool) (l : List α) : (l.filter p).filter p = l.filter p := by
  rw [List.filter_filter]; congr 1; funext x; simp

/-- When the operation succeeds, the script `open tmp, write, close, rename` computes exactly the
file system `writeFileAtomic` returns. -/
theorem atomic_script_is_op (fs : FS) (p : FPath) (c : Bytes) (h : (writeFileAtomic fs p c).2 = true) :
    (runScript fs (atomicScript (p ++ tmpExt) p c)).files = (writeFileAtomic fs p c).1.files ∧
    (runScript fs (atomicScript (p ++ tmpExt) p c)).dirs = (writeFileAtomic fs p c).1.dirs := by
  unfold writeFileAtomic at h ⊢
  unfold FS.writeFile at h ⊢
  cases hc1 : fs.canCreate (p ++ tmpExt) with
  | false => simp [hc1] at h
  | true =>
    simp only [hc1, if_true] at h ⊢
    have hlk1 : ((fs.setFile (p ++ tmpExt) c).touch [p ++ tmpExt]).lookup (p ++ tmpExt) = some c := by
      simp [FS.lookup, FS.setFile, FS.touch]
    have hcc : ∀ (a : FS), a.dirs = fs.dirs → a.canCreate p = fs.canCreate p := by
      intro a ha; unfold FS.canCreate FS.isDir; rw [ha]
    unfold FS.rename at h ⊢
    rw [hlk1] at h ⊢
    rw [hcc ((fs.setFile (p ++ tmpExt) c).touch [p ++ tmpExt]) rfl] at h ⊢
    cases hc2 : fs.canCreate p with
    | false => simp [hc2] at h
    | true =>
      simp only [if_true]
      -- the script
      have hlk2 : (fs.setFile (p ++ tmpExt) []).lookup (p ++ tmpExt) = some [] := by
        simp [FS.lookup, FS.setFile]
      have hlk3 : ((fs.setFile (p ++ tmpExt) []).setFile (p ++ tmpExt) c).lookup (p ++ tmpExt) = some c := by
        simp [FS.lookup, FS.setFile]
      simp only [runScript, atomicScript, List.foldl_cons, List.foldl_nil, Sys.apply, hc1, if_true, hlk2,
        List.nil_append, FS.rename, hlk3, hcc ((fs.setFile (p ++ tmpExt) []).setFile (p ++ tmpExt) c) rfl, hc2,
        Option.getD_some]
      constructor
      · simp only [FS.setFile, FS.delFile, FS.touch, List.filter_cons, ne_eq, not_true_eq_false,
          decide_false, Bool.false_eq_true, if_false, filter_filter_same]
      · rfl

/-- `SetSent`'s script is a single `rename`: the process dies before it or after it. -/
theorem crash_rename (fs : FS) (a b : FPath) :
    ∀ fs' ∈ crashStates fs [.rename a b], fs' = fs ∨ fs' = runScript fs [.rename a b] := by
  intro fs' h
  simp only [crashStates, List.mem_cons, List.mem_nil_iff, or_false] at h
  rcases h with rfl | rfl
  · exact Or.inl rfl
  · exact Or.inr rfl

/-- On a reachable state, "already received" is only answered when the inbox listing has the message. -/
theorem reject_has_copy {C root d s es} (hl : C.Lawful) (hr : NormalRoot root) (r : Rel C root d s es)
    (mid : Bytes) (hv : validMID mid = true) (h : d.fs.canOpen (msgPath3 root .inbox mid) = true) :
    ∃ l, loadMessageDir C d.fs (folderPath root .inbox) = some l ∧ ∃ m ∈ l, m.mid = mid := by
  unfold msgPath3 at h
  rw [join3_eq hr _ _ (elem_name hv)] at h
  unfold FS.canOpen at h
  rw [isDir_fp_false r.good, isFile_fp r.good, Bool.or_false, List.any_eq_true] at h
  obtain ⟨e, he, hk⟩ := h
  have hk' : e.key = (.inbox, mid) := by simpa using hk
  have hrd := r.ready_of_mem he
  have := load_rel hl hr r .inbox
  rw [r.root, hrd] at this
  simp only [if_true] at this
  refine ⟨_, this, e.m.setFilePath (e.path root), ?_, ?_⟩
  · apply List.mem_map.mpr
    exact ⟨e, mem_sortedE.mpr ⟨he, (Prod.mk.inj hk').1⟩, rfl⟩
  · exact (Prod.mk.inj hk').2

theorem all_load {C root d s es} (hl : C.Lawful) (hr : NormalRoot root) (r : Rel C root d s es)
    (hrd : s.ready = true) (g : Folder) : loadMessageDir C d.fs (folderPath root g) ≠ none := by
  have := load_rel hl hr r g
  rw [r.root, hrd] at this
  rw [this]; simp

/-- **Recovery after a crash while storing a message file** (the step shared by ProcessInbound, AddOut
and SetUnread), on every reachable mailbox state: each crash state is observationally the state before
or the state after the operation; every folder loads; "already received" is answered only when a
complete copy is listed in the inbox. -/
theorem crash_store {C root d s es} (hl : C.Lawful) (hr : NormalRoot root) (r : Rel C root d s es)
    (e : Entry) (hst : storable e.m.mid = true) (hrd : s.ready = true) :
    ∀ fs' ∈ crashStates d.fs (atomicScript (e.path root ++ tmpExt) (e.path root) (C.ser e.m)),
      (sameView C root fs' d.fs ∨ sameView C root fs' (writeFileAtomic d.fs (e.path root) (C.ser e.m)).1) ∧
      (∀ g, loadMessageDir C fs' (folderPath root g) ≠ none) ∧
      (∀ mid, validMID mid = true → fs'.canOpen (msgPath3 root .inbox mid) = true →
        ∃ l, loadMessageDir C fs' (folderPath root .inbox) = some l ∧ ∃ m ∈ l, m.mid = mid) := by
  intro fs' hm
  obtain ⟨fsp, h1, h2⟩ := rel_store_ok r e hst hrd
  -- a reference-model state for the post state
  let s' : SState := s.set e.f (insertMsg e.m.erasePath (s.get e.f))
  have rpost : Rel C root { d with fs := fsp } s' (insertE e es) := by
    apply h2 s'
    · intro g; rw [get_set]
      by_cases hg : g = e.f
      · subst hg; rfl
      · rw [if_neg hg, if_neg hg]
    · cases hf : e.f <;> simp [s', hf, SState.set]
    · cases hf : e.f <;> simp [s', hf, SState.set]
    · cases hf : e.f <;> simp [s', hf, SState.set]
  have hrd' : s'.ready = true := by cases hf : e.f <;> simp [s', hf, SState.set, hrd]
  have hv := storable_valid hst
  have hv' := validMID_spec hv
  have hh : (e.m.mid ++ ext).head? ≠ some 46 := by
    cases hmid : e.m.mid with
    | nil => exact absurd hmid hv'.1
    | cons a t => have := hv'.2.1; rw [hmid] at this; simpa using this
  have helt := elem_tmp (elem_name hv) hh
  have hpt : e.path root ++ tmpExt = fp root e.f (e.m.mid ++ ext ++ tmpExt) := fp_tmp _ _ _
  rw [hpt] at hm
  have hview : sameView C root fs' d.fs ∨ sameView C root fs' fsp := by
    rcases crash_atomic_script (C := C) hr d.fs e.f _ helt.2.1 (invisible_tmp _) (e.path root) (C.ser e.m) fs' hm with h | h
    · exact Or.inl h
    · right
      have hop := atomic_script_is_op d.fs (e.path root) (C.ser e.m) (by rw [h1])
      rw [h1, hpt] at hop
      rw [h]
      exact sameView_of_eq hop.1 hop.2
  rw [h1]
  refine ⟨hview, ?_, ?_⟩
  · intro g
    rcases hview with h | h
    · rw [h.1 g]; exact all_load hl hr r hrd g
    · rw [h.1 g]; exact all_load hl hr rpost hrd' g
  · intro mid hvm hopen
    rcases hview with h | h
    · rw [h.2 mid hvm] at hopen
      rw [h.1 .inbox]
      exact reject_has_copy hl hr r mid hvm hopen
    · rw [h.2 mid hvm] at hopen
      rw [h.1 .inbox]
      exact reject_has_copy hl hr rpost mid hvm hopen


/-- An empty, prepared mailbox. -/
def preparedFS (root : FPath) : FS :=
  { files := [], dirs := [dp root .inbox, dp root .outbox, dp root .sent, dp root .archive] }

theorem good_prepared (C : Codec) (root : FPath) : Good C root (preparedFS root) [] :=
  ⟨rfl, by simp, by simp, by
    intro d hd
    simp only [preparedFS, List.mem_cons, List.mem_nil_iff, or_false] at hd
    rcases hd with h | h | h | h
    · exact ⟨.inbox, h⟩
    · exact ⟨.outbox, h⟩
    · exact ⟨.sent, h⟩
    · exact ⟨.archive, h⟩⟩

/-- **Writing the final name in place is not crash-safe** (the code before the repair): from an empty
prepared mailbox, the crash state right after `open(O_TRUNC|O_CREAT)` — an empty `in/<MID>.b2f` — makes
the inbox fail to load and makes a proposal for that MID be answered "already received", although
before the operation the inbox loaded (empty) and the message was never stored. -/
theorem direct_write_not_recoverable (C : Codec) (hl : C.Lawful) (root : FPath) (hr : NormalRoot root)
    (mid : Bytes) (hst : storable mid = true) (c : Bytes) :
    Sys.apply (preparedFS root) (.openTrunc (fp root .inbox (mid ++ ext)))
        ∈ crashStates (preparedFS root) (directScript (fp root .inbox (mid ++ ext)) c) ∧
    loadMessageDir C (Sys.apply (preparedFS root) (.openTrunc (fp root .inbox (mid ++ ext))))
        (folderPath root .inbox) = none ∧
    (Sys.apply (preparedFS root) (.openTrunc (fp root .inbox (mid ++ ext)))).canOpen (msgPath3 root .inbox mid) = true ∧
    loadMessageDir C (preparedFS root) (folderPath root .inbox) = some [] ∧
    (preparedFS root).canOpen (msgPath3 root .inbox mid) = false := by
  have g := good_prepared C root
  have hv := storable_valid hst
  have hel := elem_name hv
  have hlen := storable_len hst
  obtain ⟨hp, hb⟩ := parentOf_fp root .inbox (mid ++ ext) hel.2.1
  have hdir : (preparedFS root).dirs.contains (dp root .inbox) = true := by simp [preparedFS]
  have hcc : (preparedFS root).canCreate (fp root .inbox (mid ++ ext)) = true := by
    unfold FS.canCreate
    rw [hp, hb, isDir_dp g, hdir, isDir_fp_false g]
    simp [nameMax, ext]; omega
  have happ : Sys.apply (preparedFS root) (.openTrunc (fp root .inbox (mid ++ ext))) =
      (preparedFS root).setFile (fp root .inbox (mid ++ ext)) [] := by
    simp only [Sys.apply, hcc, if_true]
  have hp3 : msgPath3 root .inbox mid = fp root .inbox (mid ++ ext) := join3_eq hr _ _ hel
  refine ⟨?_, ?_, ?_, ?_, ?_⟩
  · simp [directScript, crashStates]
  · rw [happ, folderPath_eq hr, load_eq]
    have hisd : ((preparedFS root).setFile (fp root .inbox (mid ++ ext)) []).isDir (dp root .inbox) = true := by
      show (preparedFS root).isDir (dp root .inbox) = true
      rw [isDir_dp g, hdir]
    have hvn : visNames ((preparedFS root).setFile (fp root .inbox (mid ++ ext)) []) (dp root .inbox) = [mid ++ ext] := by
      simp [visNames, FS.setFile, preparedFS, hp, hb, hel.1, visible_name hv]
    rw [hisd, hvn]
    simp only [if_true, isort, insertBy, loadAll, openMessage]
    rw [join_dp hr .inbox _ hel]
    simp [FS.lookup, FS.setFile, preparedFS, hl.parse_nil]
  · rw [happ, hp3]
    simp [FS.canOpen, FS.isFile, FS.setFile]
  · rw [folderPath_eq hr, load_dp hl hr g .inbox (by simp [preparedFS])]
    simp [sortedE, foldE, isort]
  · rw [hp3]
    unfold FS.canOpen
    rw [isDir_fp_false g, isFile_fp g]
    simp

end Wl2k.Mbox
