import Wl2kVerif.Proofs.AlterFrame
/-
In-transit alterations of the SOH HEADER of a transfer frame (`frameOf m qtitle d`):

    index   0    1    2 … n+1     n+2   n+3   n+4   n+5 …
    byte    SOH  L    qtitle      NUL   '0'   NUL   STX/EOT …          n = |qtitle|, L = n + 3

What `readCompressed` answers on a header `SOH hl t NUL o NUL X` with ARBITRARY length byte, title field
`t` and offset field `o` (`run_rc_hdr`), on a header whose offset field is never terminated
(`run_rc_hdr_eof`), and list surgery lemmas (`insertIdx`, `eraseIdx`, `set` on the frame).
-/
namespace Wl2k.B2F
open Wl2k Wl2k.Strconv

variable {H : Type} (hstep : H → Call → H × Reply)

/-! ### the header reader on an arbitrary header -/

/-- **`readCompressed` on `SOH hl t NUL o NUL X`** (no NUL inside `t`, `o`): the three header checks in
the order of the Go code, then the block loop on `X`. -/
theorem run_rc_hdr (fuel : Nat) (p : Proposal) (hl : UInt8) (t o X : Bytes)
    (h0t : (0 : UInt8) ∉ t) (h0o : (0 : UInt8) ∉ o) (hft : t.length < fuel) (hfo : o.length < fuel)
    (h : H) (tr : List Ev) :
    Proc.run hstep (readCompressed fuel p) (1 :: hl :: (t ++ 0 :: (o ++ 0 :: X))) h tr =
      if hl.toNat ≠ t.length + o.length + 2 then (.done (.error (.proto "header-length-mismatch")), X, h, tr)
      else if (atoi o).2 = true then (.done (.error (.proto "offset-not-an-integer")), X, h, tr)
      else if (atoi o).1 ≠ p.offset then (.done (.error (.proto "unexpected-offset")), X, h, tr)
      else Proc.run hstep (readBlocks p.csize fuel [] 0) X h tr := by
  unfold readCompressed
  have h1 : ¬ ((1 : UInt8) = 42) := by decide
  have h2 : ¬ ((1 : UInt8) ≠ 1) := by decide
  simp only [Proc.run, h1, if_false, h2, bind_eq, pure_eq]
  rw [run_bind, run_readString hstep 0 t fuel [] _ h tr h0t hft]
  simp only [List.reverse_nil, List.nil_append, Bool.false_eq_true, if_false]
  rw [run_bind, run_readString hstep 0 o fuel [] _ h tr h0o hfo]
  simp only [List.reverse_nil, List.nil_append, Bool.false_eq_true, if_false]
  rw [stripDelimC_eq _ (by simp), stripDelimC_eq _ (by simp)]
  simp only [List.dropLast_concat]
  by_cases hm : hl.toNat ≠ t.length + o.length + 2
  · rw [if_pos hm, if_pos hm]; simp only [Proc.run]
  · rw [if_neg hm, if_neg hm]
    by_cases hb : (atoi o).2 = true
    · rw [if_pos hb, if_pos hb]; simp only [Proc.run]
    · rw [if_neg hb, if_neg hb]
      by_cases hv : (atoi o).1 ≠ p.offset
      · rw [if_pos hv, if_pos hv]; simp only [Proc.run]
      · rw [if_neg hv, if_neg hv]

/-- the offset field is never terminated: the connection is lost inside the header -/
theorem run_rc_hdr_eof (fuel : Nat) (p : Proposal) (hl : UInt8) (t o : Bytes)
    (h0t : (0 : UInt8) ∉ t) (h0o : (0 : UInt8) ∉ o) (hft : t.length < fuel) (hfo : o.length < fuel)
    (h : H) (tr : List Ev) :
    Proc.run hstep (readCompressed fuel p) (1 :: hl :: (t ++ 0 :: o)) h tr =
      (.done (.error .eof), [], h, tr) := by
  unfold readCompressed
  have h1 : ¬ ((1 : UInt8) = 42) := by decide
  have h2 : ¬ ((1 : UInt8) ≠ 1) := by decide
  simp only [Proc.run, h1, if_false, h2, bind_eq, pure_eq]
  rw [run_bind, run_readString hstep 0 t fuel [] _ h tr h0t hft]
  simp only [List.reverse_nil, List.nil_append, Bool.false_eq_true, if_false]
  rw [run_bind, run_readString_eof hstep 0 o fuel [] h tr h0o hfo]
  simp [Proc.run]

/-! ### splitting at the first NUL -/

theorem nul_split : ∀ (S : Bytes), (0 : UInt8) ∉ S ∨ ∃ o X, S = o ++ 0 :: X ∧ (0 : UInt8) ∉ o
  | [] => .inl (by simp)
  | c :: T => by
    by_cases hc : c = 0
    · exact .inr ⟨[], T, by simp [hc], by simp⟩
    · rcases nul_split T with h | ⟨o, X, e, ho⟩
      · exact .inl (by simp only [List.mem_cons, not_or]; exact ⟨fun e => hc e.symm, h⟩)
      · exact .inr ⟨c :: o, X, by simp [e], by simp only [List.mem_cons, not_or]; exact ⟨fun e => hc e.symm, ho⟩⟩

/-- **The offset field runs into the stream** (its terminating NUL was deleted or overwritten): the header is
`SOH hl t NUL o` directly followed by a stream `S` that starts with a non-NUL byte, and the length byte is at
most what `t`, `o` alone account for. Then the offset field swallows at least one more byte: the header
length check fails, or the connection is lost before the next NUL. -/
theorem run_rc_hdr_open (fuel : Nat) (p : Proposal) (hl : UInt8) (t o S : Bytes) (c : UInt8) (T : Bytes)
    (h0t : (0 : UInt8) ∉ t) (h0o : (0 : UInt8) ∉ o) (hS : S = c :: T) (hc : c ≠ 0)
    (hhl : hl.toNat ≤ t.length + o.length + 2)
    (hft : t.length < fuel) (hfo : o.length + S.length < fuel) (h : H) (tr : List Ev) :
    ∃ e rem, Proc.run hstep (readCompressed fuel p) (1 :: hl :: (t ++ 0 :: (o ++ S))) h tr =
        (.done (.error e), rem, h, tr) ∧ (e = .proto "header-length-mismatch" ∨ e = .eof) := by
  rcases nul_split S with hn | ⟨o2, X, e, ho2⟩
  · refine ⟨.eof, [], ?_, .inr rfl⟩
    exact run_rc_hdr_eof hstep fuel p hl t (o ++ S) h0t
      (by simp only [List.mem_append, not_or]; exact ⟨h0o, hn⟩) hft (by simpa using hfo) h tr
  · have hpos : 1 ≤ o2.length := by
      cases o2 with
      | nil => rw [hS] at e; simp at e; exact absurd e.1 hc
      | cons a b => simp
    have hl2 : o2.length ≤ S.length := by rw [e]; simp
    refine ⟨.proto "header-length-mismatch", X, ?_, .inl rfl⟩
    have := run_rc_hdr hstep fuel p hl t (o ++ o2) X h0t
      (by simp only [List.mem_append, not_or]; exact ⟨h0o, ho2⟩) hft (by simp; omega) h tr
    rw [e, ← List.append_assoc, this, if_pos (by simp; omega)]

/-! ### the frame as a cons list -/

/-- the header-length byte `writeCompressed` emits (offset "0") -/
def lenByte (qtitle : Bytes) : UInt8 := UInt8.ofNat ((qtitle.length + 1 + 2) % 256)

/-- everything after the header: STX blocks, EOT, checksum -/
def frameTail (m : Nat) (d : Bytes) : Bytes := (frameBlocks m d).flatten ++ frameTrailer d

theorem frameOf_cons (m : Nat) (qtitle d : Bytes) :
    frameOf m qtitle d = 1 :: lenByte qtitle :: (qtitle ++ 0 :: 48 :: 0 :: frameTail m d) := by
  unfold frameOf
  rw [frameHeader_zero]
  simp [lenByte, frameTail]

theorem lenByte_toNat (qtitle : Bytes) (hlen : qtitle.length + 3 < 256) : (lenByte qtitle).toNat = qtitle.length + 3 := by
  simp [lenByte]; omega

theorem frameOf_length (m : Nat) (qtitle d : Bytes) :
    (frameOf m qtitle d).length = qtitle.length + 5 + (frameTail m d).length := by
  rw [frameOf_cons]; simp; omega

/-- the stream after the header starts with STX or EOT -/
theorem frameTail_head? (m : Nat) (d : Bytes) :
    (frameTail m d).head? = some 2 ∨ (frameTail m d).head? = some 4 := by
  unfold frameTail frameBlocks frameTrailer
  cases d with
  | nil => right; simp [chunksOf]
  | cons a t => left; simp [chunksOf]

theorem frameTail_head (m : Nat) (d : Bytes) : ∃ c T, frameTail m d = c :: T ∧ c ≠ 0 := by
  have := frameTail_head? m d
  cases h : frameTail m d with
  | nil => rw [h] at this; simp at this
  | cons c T =>
    refine ⟨c, T, rfl, ?_⟩
    rw [h] at this
    simp only [List.head?_cons, Option.some.injEq] at this
    rcases this with rfl | rfl <;> decide

/-! ### list surgery -/

theorem insertIdx_take_drop {α : Type} (a : α) : ∀ (l : List α) (k : Nat), k ≤ l.length →
    l.insertIdx k a = l.take k ++ a :: l.drop k
  | _, 0, _ => by simp
  | [], k + 1, h => by simp at h
  | x :: l, k + 1, h => by
    rw [List.insertIdx_succ_cons, insertIdx_take_drop a l k (by simpa using h)]; simp

theorem insertIdx_append_left {α : Type} (a : α) (r : List α) : ∀ (l : List α) (k : Nat), k ≤ l.length →
    (l ++ r).insertIdx k a = l.insertIdx k a ++ r
  | _, 0, _ => by simp
  | [], k + 1, h => by simp at h
  | x :: l, k + 1, h => by
    rw [List.cons_append, List.insertIdx_succ_cons, List.insertIdx_succ_cons,
      insertIdx_append_left a r l k (by simpa using h)]; simp

theorem insertIdx_append_right {α : Type} (a : α) (r : List α) : ∀ (l : List α) (k : Nat),
    (l ++ r).insertIdx (l.length + k) a = l ++ r.insertIdx k a
  | [], k => by simp
  | x :: l, k => by
    rw [List.cons_append, List.length_cons, show l.length + 1 + k = (l.length + k) + 1 by omega,
      List.insertIdx_succ_cons, insertIdx_append_right a r l k]; simp

theorem not_mem_take_drop (q : Bytes) (hq : (0 : UInt8) ∉ q) (i j : Nat) :
    (0 : UInt8) ∉ q.take i ∧ (0 : UInt8) ∉ q.drop j :=
  ⟨fun h => hq (List.mem_of_mem_take h), fun h => hq (List.mem_of_mem_drop h)⟩

end Wl2k.B2F
