import Wl2kVerif.Proofs.WholeRecv
/-
`sent_implies_received` for ALL turns of two sessions that start at complementary turn boundaries:
induction over the turns at stream level (`Con`), peeling one sender turn and the matching receiver turn off
both sides. Every case in which one side has not completed its turn is closed directly (nothing is reported
sent there, or what is reported sent was delivered within this very turn); when both have completed it the
roles swap and the induction hypothesis applies to the residual programs, inputs and handler states —
that step is `turn_boundary_aligned` in stream form.
-/
namespace Wl2k.B2F
open Wl2k Wl2k.Fmt Wl2k.Str Wl2k.Strconv

/-- what is assumed of a side: it has a handler that answers '+', '-' or '=' only — unbatched, or batched
(`GetInboundAnswers`) and not set up to return a short answer list —; every queued message is valid (`MsgOK'`);
the fuel exceeds the queue length; `writeCompressed`'s block size is 1..255 and at least one proposal is sent
per block -/
structure Good (c : Cfg) (fuel : Nat) (h : HState) : Prop where
  hh : c.hasHandler = true
  nb : c.batched = false ∨ h.batchedShort = none
  pol : ∀ x ∈ h.policy, PlainAnswer x.2
  msgs : ∀ msg ∈ h.outbox, MsgOK' fuel msg
  f5 : 5 < fuel
  fN : h.outbox.length + 3 < fuel
  m1 : 1 ≤ c.maxMsgLen
  m2 : c.maxMsgLen ≤ 255
  mb : 1 ≤ c.maxBlock

theorem Good.of_hle {c : Cfg} {fuel : Nat} {h h' : HState} (g : Good c fuel h) (hle : HLe h' h) : Good c fuel h' :=
  ⟨g.hh, by rw [hle.bs]; exact g.nb, by rw [hle.pol]; exact g.pol, fun msg hm => g.msgs msg (hle.sub msg hm), g.f5,
    by have := hle.len; have := g.fN; omega, g.m1, g.m2, g.mb⟩

theorem insertSorted_length (p : Proposal) : ∀ l : List Proposal, (insertSorted p l).length = l.length + 1
  | [] => rfl
  | q :: qs => by
    simp only [insertSorted]
    split
    · rfl
    · simp [insertSorted_length p qs]

theorem sortProposals_length (ps : List Proposal) : (sortProposals ps).length = ps.length := by
  unfold sortProposals
  induction ps with
  | nil => rfl
  | cons p t ih => simp [insertSorted_length, ih]

theorem blockOf'_length_le (c : Cfg) (h : HState) : (blockOf' c (offered h)).length ≤ h.outbox.length := by
  unfold blockOf' offered
  rw [List.length_take, sortProposals_length, List.length_map]
  have h1 := List.length_filter_le (fun m : OutMsg => m.valid) (h.outbox.filter fun m => !h.deferred.contains m.mid)
  have h2 := List.length_filter_le (fun m : OutMsg => !h.deferred.contains m.mid) h.outbox
  omega

theorem Good.blockOK {c : Cfg} {fuel : Nat} {h : HState} (g : Good c fuel h) (hne : blockOf' c (offered h) ≠ []) :
    BlockOK c fuel (fun p => (lzDecode p.cdata).getD []) (blockOf' c (offered h)) :=
  blockOK_of_msgs c fuel (offered h) hne (fun msg hm => (g.msgs msg (List.mem_filter.mp hm).1).toMsgOK) g.f5
    (by have := blockOf'_length_le c h; have := g.fN; omega) g.m1 g.m2

theorem restOfSession_armedδ (c : Cfg) (fuel n : Nat) (b : Bool) (st : SState) :
    Accepts armedδ (fun _ _ => True) false (restOfSession c fuel n b st) := by
  unfold restOfSession
  apply Accepts.bind (turns_armedδ c fuel n b st false)
  intro r s' _
  exact armedδ_of_noConfirm (finish_shape ⟨fun _ => trivial⟩ _ _ _) s'

theorem noConf_rest_nil (c : Cfg) (fuel n : Nat) (b : Bool) (st : SState) (h : HState) :
    NoConf (trOf (restOfSession c fuel n b st) [] h) :=
  fun m => no_confirm_of_no_go hstep (restOfSession_armedδ c fuel n b st) [] (by intro b hb; cases hb) h m

theorem suffix_append_split {α : Type} {S X Y : List α} (h : S <:+ X ++ Y) :
    S <:+ Y ∨ ∃ X', S = X' ++ Y ∧ X' <:+ X := by
  obtain ⟨pre, hp⟩ := h
  rcases List.append_eq_append_iff.mp hp with ⟨a', h1, h2⟩ | ⟨c', _, h2⟩
  · exact Or.inr ⟨a', h2, ⟨pre, h1.symm⟩⟩
  · exact Or.inl ⟨c', h2.symm⟩

/-- if one side's program never produces an event, nothing is reported sent by either side -/
theorem sir_of_mute_left {PS PR : Proc Result} {hS hR : HState} {eS eR : List Ev} (hm : ∀ J, trOf PS J hS = [])
    (hacc : Accepts armedδ (fun _ _ => True) false PR) (hcon : Con PS hS PR hR eS eR) :
    SIR hS eS eR ∧ SIR hR eR eS := by
  obtain ⟨JS, JR, h1, h2, _, h4⟩ := hcon
  rw [hm] at h1
  have e1 : eS = [] := suffix_nil h1
  subst e1
  have e2 : JR = [] := prefix_nil h4
  subst e2
  exact ⟨SIR.of_noConf noConf_nil, SIR.of_noConf (NoConf.of_suffix (fun m => no_confirm_of_no_go hstep hacc []
    (by intro b hb; cases hb) hR m) h2)⟩

theorem sir_of_mute_right {PS PR : Proc Result} {hS hR : HState} {eS eR : List Ev} (hm : ∀ J, trOf PR J hR = [])
    (hacc : Accepts armedδ (fun _ _ => True) false PS) (hcon : Con PS hS PR hR eS eR) :
    SIR hS eS eR ∧ SIR hR eR eS :=
  (sir_of_mute_left hm hacc hcon.symm).symm

theorem mem_of_suffix {α : Type} {a b : List α} (h : a <:+ b) : ∀ e ∈ a, e ∈ b := fun _ he => h.subset he

/-- **`turn_boundary_aligned`, stream form.** `S` = the rest of a session that starts with a sender turn, `R` =
the rest of a session that starts with a receiver turn (any turn budgets, session states, handler states
satisfying `Good`), `eS`, `eR` a consistent pair of partial traces (as in every reachable state of every pair
run, any schedule, any cut). EITHER the matter is settled within this turn — one side has not got through
it, and then whatever is reported sent was delivered (in fact nothing is reported sent beyond this turn) — OR
both sides have completed the turn IN STEP: `eR = eR' ++ TR`, `eS` consists of the turn's events `TS` and `eS'`,
where `TS` / `TR` are the events of the sender's / receiver's turn — whatever `TS` reports sent, `TR` has
handed over; `TR` reports nothing sent — and `eR'`, `eS'` are again a CONSISTENT pair of partial traces of
the two residual sessions with the roles swapped (`R` sends next), smaller turn budgets and later handler
states: the bytes each side has consumed up to its turn boundary are exactly the bytes the other wrote up to
its own, so the residual inputs are prefixes of the residual outputs. -/
theorem turn_boundary_aligned (fuel nS nR : Nat) (cS cR : Cfg) (stS stR : SState) (hS hR : HState) (eS eR : List Ev)
    (gS : Good cS fuel hS) (gR : Good cR fuel hR)
    (hcon : Con (restOfSession cS fuel nS true stS) hS (restOfSession cR fuel nR false stR) hR eS eR) :
    (SIR hS eS eR ∧ SIR hR eR eS) ∨
    ∃ (eS' eR' TS TR : List Ev) (nS' nR' : Nat) (stS' stR' : SState) (hS' hR' : HState),
      nS' < nS ∧ nR' < nR ∧
      (∀ e ∈ eS, e ∈ eS' ∨ e ∈ TS) ∧ (∀ e ∈ eS', e ∈ eS) ∧ eR = eR' ++ TR ∧ HLe hS' hS ∧ HLe hR' hR ∧
      Con (restOfSession cR fuel nR' true stR') hR' (restOfSession cS fuel nS' false stS') hS' eR' eS' ∧
      NoConf TR ∧
      (∀ m, Ev.called (.setSent m false) ∈ TS →
        ∃ msg ∈ hS.outbox, msg.mid = m ∧ Ev.called (.processInbound msg.data) ∈ TR) := by
    -- degenerate cases: a side that is out of turns or has quit produces no event
    cases nS with
    | zero => exact Or.inl (sir_of_mute_left (fun _ => rfl) (restOfSession_armedδ _ _ _ _ _) hcon)
    | succ nS =>
    cases nR with
    | zero => exact Or.inl (sir_of_mute_right (fun _ => rfl) (restOfSession_armedδ _ _ _ _ _) hcon)
    | succ nR =>
    by_cases hquitS : stS.quitReceived = true ∨ stS.quitSent = true
    · exact Or.inl (sir_of_mute_left (fun J => by rw [restOfSession_quit cS fuel nS true stS hquitS]; rfl)
        (restOfSession_armedδ _ _ _ _ _) hcon)
    by_cases hquitR : stR.quitReceived = true ∨ stR.quitSent = true
    · exact Or.inl (sir_of_mute_right (fun J => by rw [restOfSession_quit cR fuel nR false stR hquitR]; rfl)
        (restOfSession_armedδ _ _ _ _ _) hcon)
    have hqS : stS.quitReceived = false := by
      cases hq : stS.quitReceived with
      | false => rfl
      | true => exact absurd (Or.inl hq) hquitS
    have hsS : stS.quitSent = false := by
      cases hs : stS.quitSent with
      | false => rfl
      | true => exact absurd (Or.inr hs) hquitS
    have hqR : stR.quitReceived = false := by
      cases hq : stR.quitReceived with
      | false => rfl
      | true => exact absurd (Or.inl hq) hquitR
    have hsR : stR.quitSent = false := by
      cases hs : stR.quitSent with
      | false => rfl
      | true => exact absurd (Or.inr hs) hquitR
    obtain ⟨JS, JR, h1, h2, h3, h4⟩ := hcon
    by_cases hE : sortProposals (((offered hS).filter fun m : OutMsg => m.valid).map mkProp) = []
    · ---------------------------------------------------------------- nothing to send: FF / FQ
      rw [trOf_send_empty cS fuel nS stS hS gS.hh hqS hsS hE JS] at h1
      have hJR : JR <+: outBytes (trOf (restOfSession cS fuel nS false { stS with quitSent := stS.remoteNoMsgs }) JS hS ++
          [.wrote (if stS.remoteNoMsgs then sb "FQ\r" else sb "FF\r"), .called (.getOutbound stS.remoteFW)]) :=
        h4.trans (outBytes_suffix h1)
      cases hrn : stS.remoteNoMsgs with
      | true =>
        -- FQ: both sessions end without further events
        rw [hrn] at h1 hJR
        have hS' : ∀ st'' : SState, st''.quitSent = true → trOf (restOfSession cS fuel nS false st'') JS hS = [] := by
          intro st'' hq''
          cases nS with
          | zero => rfl
          | succ k => rw [restOfSession_quit cS fuel k false _ (Or.inr hq'')]; rfl
        rw [hS' _ rfl] at h1 hJR
        simp only [List.nil_append, outBytes, if_true, sb_FQ] at h1 hJR
        have hR0 := recv_FQ cR fuel nR stR hqR hsR [] JR hR gR.f5 (by simpa using hJR)
        rw [hR0] at h2
        have e2 : eR = [] := suffix_nil h2
        subst e2
        refine Or.inl ⟨SIR.of_noConf (NoConf.of_suffix ?_ h1), SIR.of_noConf noConf_nil⟩
        intro m hm
        simp at hm
      | false =>
        rw [hrn] at h1 hJR
        simp only [Bool.false_eq_true, if_false, sb_FF] at h1 hJR
        rw [outBytes_append] at hJR
        simp only [outBytes, List.nil_append] at hJR
        have hT0c : NoConf [Ev.wrote [70, 70, 13], Ev.called (.getOutbound stS.remoteFW)] := by
          intro m hm; simp at hm
        rcases recv_FF cR fuel nR stR hqR hsR _ JR hR gR.f5 (by simpa using hJR) with hR0 | ⟨J3, rfl, hJ3, hR1⟩
        · rw [hR0] at h2
          have e2 : eR = [] := suffix_nil h2
          subst e2
          have e3 : JS = [] := prefix_nil h3
          subst e3
          exact Or.inl ⟨SIR.of_noConf (NoConf.of_suffix (noConf_append (noConf_rest_nil _ _ _ _ _ _) hT0c) h1),
            SIR.of_noConf noConf_nil⟩
        · rw [hR1] at h2
          rcases suffix_append_split h1 with hin | ⟨eS', rfl, heS'⟩
          · -- the sender's trace is still inside its turn
            have hlen := (h4.trans (outBytes_suffix hin)).length_le
            simp only [outBytes, List.nil_append, List.length_append, List.length_cons, List.length_nil] at hlen
            have e3 : J3 = [] := List.eq_nil_of_length_eq_zero (by omega)
            subst e3
            exact Or.inr ⟨[], eR, _, [], nS, nR, stS, _, hS, hR, Nat.lt_succ_self _, Nat.lt_succ_self _,
              fun e he => Or.inr (hin.subset he), (by intro e he; cases he), (List.append_nil _).symm, HLe.refl _, HLe.refl _,
              ⟨[], [], h2, List.nil_suffix, List.nil_prefix, List.nil_prefix⟩, noConf_nil, fun m hm => (hT0c m hm).elim⟩
          · have hJ3' : J3 <+: outBytes eS' := by
              have := h4
              rw [outBytes_append] at this
              simp only [outBytes, List.nil_append] at this
              exact (List.prefix_append_right_inj [70, 70, 13]).mp (by simpa using this)
            exact Or.inr ⟨eS', eR, _, [], nS, nR, _, _, hS, hR, Nat.lt_succ_self _, Nat.lt_succ_self _,
              fun e he => List.mem_append.mp he, fun e he => List.mem_append_left _ he, (List.append_nil _).symm,
              HLe.refl _, HLe.refl _, ⟨J3, JS, h2, heS', hJ3', h3⟩, noConf_nil, fun m hm => (hT0c m hm).elim⟩
    · ---------------------------------------------------------------- a block to send
      have hne : blockOf' cS (offered hS) ≠ [] := block_ne_of_sorted gS.mb hE
      have hok := gS.blockOK hne
      have hbl : (blockOf' cS (offered hS)).length < fuel := by have := hok.fuelN; omega
      obtain ⟨Rr, hRr⟩ := send_out cS fuel nS stS hS gS.hh hqS hsS hne JS
      have hJR : JR <+: blockOut (blockOf' cS (offered hS)) ++ Rr := by
        have := h4.trans (outBytes_suffix h1)
        rwa [hRr] at this
      rcases recv_block cR fuel nR stR hqR hsR (blockOf' cS (offered hS)) cS.maxMsgLen gS.m1 gS.m2
        (fun p => (lzDecode p.cdata).getD []) Rr JR hR (wpaOK_ref cR hR gR.hh gR.pol gR.nb) hne hok.line hok.frame gR.f5 hbl hJR with
        hR0 | ⟨as, evs, fev, X, J2, rfl, _, hlen, hpl, hev, hfev, hfevc, hT, hfetch⟩
      · -- the block has not arrived: the receiver has done nothing, so the sender has read nothing
        rw [hR0] at h2
        have e2 : eR = [] := suffix_nil h2
        subst e2
        have e3 : JS = [] := prefix_nil h3
        subst e3
        have := (send_eof cS fuel nS stS hS gS.hh hqS hsS hne [] (by simp) (by have := gS.f5; simp; omega)).2
        exact Or.inl ⟨SIR.of_noConf (NoConf.of_suffix this h1), SIR.of_noConf noConf_nil⟩
      · rw [hT] at h2
        have hTRc : NoConf (fev ++ Ev.wrote (fsLine as ++ [13]) :: evs) := by
          refine noConf_append hfevc ?_
          intro m hm
          rcases List.mem_cons.mp hm with hm | hm
          · cases hm
          · exact noConf_of_answer evs hev m hm
        have hTRo : outBytes (fev ++ Ev.wrote (fsLine as ++ [13]) :: evs) = fsLine as ++ [13] := by
          rw [outBytes_append, hfev]; simp [outBytes, answer_evs_silent evs hev]
        have hJS : JS <+: fsLine as ++ 13 :: outBytes X := by
          have := h3.trans (outBytes_suffix h2)
          rw [outBytes_append, hTRo] at this
          simpa using this
        have hasne : as ≠ [] := by
          intro e; rw [e] at hlen; exact hne (List.length_eq_zero_iff.mp hlen.symm)
        have hfsl : (fsLine as).length < fuel := by
          have := hok.fuelN
          simp only [fsLine, fsPrefix, List.length_append, List.length_cons, List.length_nil]; omega
        -- the receiver's rest is silent about `SetSent` whenever it got nothing beyond the frames
        have hXnil : J2 <+: framesBytes cS.maxMsgLen (blockOf' cS (offered hS)) as → NoConf X := by
          intro hJ2
          rcases hfetch [] (by simpa using hJ2) with ⟨hXc, _⟩ | ⟨_, J3, h', st', hJ3, _, rfl⟩
          · exact hXc
          · have e3 : J3 = [] := prefix_nil hJ3
            subst e3
            exact noConf_rest_nil _ _ _ _ _ _
        have hJ2_of : ∀ (T : List Ev) (Y : Bytes), eS <:+ T →
            outBytes T = blockOut (blockOf' cS (offered hS)) ++ framesBytes cS.maxMsgLen (blockOf' cS (offered hS)) as ++ Y →
            J2 <+: framesBytes cS.maxMsgLen (blockOf' cS (offered hS)) as ++ Y := by
          intro T Y hsuf hout
          have := h4.trans (outBytes_suffix hsuf)
          rw [hout, List.append_assoc] at this
          exact (List.prefix_append_right_inj _).mp this
        rcases prefix_line_cases (fsLine as) (outBytes X) JS hJS with ⟨J2S, rfl, hJ2S⟩ | hshort
        · obtain ⟨T1, hT1o, hT1c, hcases⟩ := send_fs cS fuel nS stS hS gS.hh hqS hsS as J2S hlen hasne hpl hfsl hok.big
          rcases hcases with ⟨rfl, hTS⟩ | ⟨x, r, F, rfl, hx, hFc, hTS⟩ | ⟨x, r, C, h', st', rfl, hx, hle, hCo, hC, hTS⟩
          · -- the input ends with the `FS` line: connection lost
            rw [hTS] at h1
            have hJ2 := hJ2_of T1 [] h1 (by simpa using hT1o)
            exact Or.inl ⟨SIR.of_noConf (NoConf.of_suffix hT1c h1),
              SIR.of_noConf (NoConf.of_suffix (noConf_append (hXnil (by simpa using hJ2)) hTRc) h2)⟩
          · -- the byte after the `FS` line is not 'F' / ';': the receiver's rest is `finish`
            rw [hTS] at h1
            have hSc : NoConf (F ++ Ev.peeked x :: T1) := by
              refine noConf_append hFc ?_
              intro m hm
              rcases List.mem_cons.mp hm with hm | hm
              · cases hm
              · exact hT1c m hm
            have hJ2 := hJ2_of (F ++ Ev.peeked x :: T1) (outBytes F) h1 (by rw [outBytes_append]; simp [outBytes, hT1o])
            have hXc : NoConf X := by
              rcases hfetch (outBytes F) hJ2 with ⟨hXc, _⟩ | ⟨_, J3, h', st', _, _, rfl⟩
              · exact hXc
              · exfalso
                rcases send_out_head cR fuel nR st' h' gR.hh gR.mb J3 with ho | ⟨t, ho⟩
                · rw [ho] at hJ2S; simp at hJ2S
                · rw [ho] at hJ2S
                  have : x = 70 := (List.cons_prefix_cons.mp hJ2S).1
                  subst this
                  exact absurd hx (by decide)
            exact Or.inl ⟨SIR.of_noConf (NoConf.of_suffix hSc h1), SIR.of_noConf (NoConf.of_suffix (noConf_append hXc hTRc) h2)⟩
          · -- the turn completes
            rw [hTS] at h1
            have hTSo : outBytes (C ++ Ev.peeked x :: T1) =
                blockOut (blockOf' cS (offered hS)) ++ framesBytes cS.maxMsgLen (blockOf' cS (offered hS)) as := by
              rw [outBytes_append, hCo]; simp [outBytes, hT1o]
            -- what is reported sent in this turn was delivered in this turn
            have hdeliv : ∀ m, Ev.called (.setSent m false) ∈ C ++ Ev.peeked x :: T1 →
                ∃ msg ∈ hS.outbox, msg.mid = m ∧ Ev.called (.processInbound msg.data) ∈
                  deliverEvs (acceptedData (fun p => (lzDecode p.cdata).getD []) (blockOf' cS (offered hS)) as) := by
              intro m hm
              rcases List.mem_append.mp hm with hm | hm
              · obtain ⟨p, a, hpa, rfl, hmid⟩ := hC m hm
                obtain ⟨msg, hmsg, rfl⟩ := mem_blockOf' cS (offered hS) p (List.of_mem_zip hpa).1
                have hmo : msg ∈ hS.outbox := (List.mem_filter.mp hmsg).1
                refine ⟨msg, hmo, hmid, ?_⟩
                have := mem_deliverEvs _ _ (mem_acceptedData (fun p => (lzDecode p.cdata).getD []) _ _ _ hpa)
                simpa [mkProp, lz_roundtrip msg.data (gS.msgs msg hmo).small] using this
              · rcases List.mem_cons.mp hm with hm | hm
                · cases hm
                · exact (hT1c m hm).elim
            -- the receiver's trace contains its whole turn: it has written the byte the sender peeked
            have hRsplit : ∃ eR', eR = eR' ++ (fev ++ Ev.wrote (fsLine as ++ [13]) :: evs) ∧ eR' <:+ X := by
              rcases suffix_append_split h2 with hin | hx
              · exfalso
                have l1 := h3.length_le
                have l2 := (outBytes_suffix hin).length_le
                rw [hTRo] at l2
                simp only [List.length_append, List.length_cons, List.length_nil] at l1 l2
                omega
              · exact hx
            obtain ⟨eR', rfl, heR'⟩ := hRsplit
            have hJS' : x :: r <+: outBytes eR' := by
              have := h3
              rw [outBytes_append, hTRo] at this
              have h' : fsLine as ++ [13] ++ x :: r <+: fsLine as ++ [13] ++ outBytes eR' := by simpa using this
              exact (List.prefix_append_right_inj _).mp h'
            have tail : ∀ eS', eS' <:+ trOf (restOfSession cS fuel nS false st') (x :: r) h' →
                J2 <+: framesBytes cS.maxMsgLen (blockOf' cS (offered hS)) as ++ outBytes eS' →
                (∀ e ∈ eS, e ∈ eS' ∨ e ∈ C ++ Ev.peeked x :: T1) → (∀ e ∈ eS', e ∈ eS) →
                (SIR hS eS (eR' ++ (fev ++ Ev.wrote (fsLine as ++ [13]) :: evs)) ∧
                  SIR hR (eR' ++ (fev ++ Ev.wrote (fsLine as ++ [13]) :: evs)) eS) ∨
                ∃ (eS'' eR'' TS TR : List Ev) (nS' nR' : Nat) (stS' stR' : SState) (hS' hR' : HState),
                  nS' < nS + 1 ∧ nR' < nR + 1 ∧
                  (∀ e ∈ eS, e ∈ eS'' ∨ e ∈ TS) ∧ (∀ e ∈ eS'', e ∈ eS) ∧
                  eR' ++ (fev ++ Ev.wrote (fsLine as ++ [13]) :: evs) = eR'' ++ TR ∧ HLe hS' hS ∧ HLe hR' hR ∧
                  Con (restOfSession cR fuel nR' true stR') hR' (restOfSession cS fuel nS' false stS') hS' eR'' eS'' ∧
                  NoConf TR ∧
                  (∀ m, Ev.called (.setSent m false) ∈ TS →
                    ∃ msg ∈ hS.outbox, msg.mid = m ∧ Ev.called (.processInbound msg.data) ∈ TR) := by
              intro eS' ha hb hc hd
              rcases hfetch (outBytes eS') hb with ⟨_, hXo⟩ | ⟨hfd, J3, h'', st'', hJ3, hle'', rfl⟩
              · exfalso
                have hx' := hJS'.trans (outBytes_suffix heR')
                rcases hXo with ho | ⟨t, ho⟩
                · rw [ho] at hx'; simp at hx'
                · rw [ho] at hx'
                  have : x = 42 := (List.cons_prefix_cons.mp hx').1
                  subst this
                  exact absurd hx (by decide)
              · refine Or.inr ⟨eS', eR', C ++ Ev.peeked x :: T1, fev ++ Ev.wrote (fsLine as ++ [13]) :: evs, nS, nR, st', st'', h', h'',
                  Nat.lt_succ_self _, Nat.lt_succ_self _, hc, hd, rfl, hle, hle'', ⟨J3, x :: r, heR', ha, hJ3, hJS'⟩, hTRc, ?_⟩
                intro m hm
                obtain ⟨msg, g1, g2, g3⟩ := hdeliv m hm
                refine ⟨msg, g1, g2, List.mem_append_left _ ?_⟩
                rw [hfd]; exact g3
            rcases suffix_append_split h1 with hin | ⟨eS', rfl, heS'⟩
            · exact tail [] List.nil_suffix (hJ2_of _ (outBytes []) hin (by simpa [outBytes] using hTSo))
                (fun e he => Or.inr (hin.subset he)) (by intro e he; cases he)
            · exact tail eS' heS' (hJ2_of _ (outBytes eS') (List.suffix_refl _) (by rw [outBytes_append, hTSo]))
                (fun e he => List.mem_append.mp he) (fun e he => List.mem_append_left _ he)
        · -- no complete `FS` line has arrived
          have h13 : (13 : UInt8) ∉ JS := not_mem_of_prefix hshort (fsLine_no13 as hpl)
          obtain ⟨ho, hc⟩ := send_eof cS fuel nS stS hS gS.hh hqS hsS hne JS h13 (by have := hshort.length_le; omega)
          have e3 : J2 = [] := by
            have := (h4.trans (outBytes_suffix h1)).length_le
            rw [ho] at this
            simp only [List.length_append] at this
            exact List.eq_nil_of_length_eq_zero (by omega)
          subst e3
          exact Or.inl ⟨SIR.of_noConf (NoConf.of_suffix hc h1),
            SIR.of_noConf (NoConf.of_suffix (noConf_append (hXnil List.nil_prefix) hTRc) h2)⟩

/-- **`sent_implies_received`, all turns, stream form.** `S` = the rest of a session that starts with a
sender turn, `R` = the rest of a session that starts with a receiver turn, any turn budgets `nS`, `nR`, any
session states, any handler states satisfying `Good`. For every consistent pair of partial traces: whatever
either side reports sent is a message of its outbox whose bytes the other side has been handed.
(Induction over the turns with `turn_boundary_aligned` as the step.) -/
theorem turns_sir (fuel : Nat) : ∀ (N nS nR : Nat), nS + nR ≤ N →
    ∀ (cS cR : Cfg) (stS stR : SState) (hS hR : HState) (eS eR : List Ev),
      Good cS fuel hS → Good cR fuel hR →
      Con (restOfSession cS fuel nS true stS) hS (restOfSession cR fuel nR false stR) hR eS eR →
      SIR hS eS eR ∧ SIR hR eR eS := by
  intro N
  induction N with
  | zero =>
    intro nS nR hN cS cR stS stR hS hR eS eR _ _ hcon
    have : nS = 0 := by omega
    subst this
    exact sir_of_mute_left (fun _ => rfl) (restOfSession_armedδ _ _ _ _ _) hcon
  | succ N ih =>
    intro nS nR hN cS cR stS stR hS hR eS eR gS gR hcon
    rcases turn_boundary_aligned fuel nS nR cS cR stS stR hS hR eS eR gS gR hcon with hdone |
      ⟨eS', eR', TS, TR, nS', nR', stS', stR', hS', hR', l1, l2, hc, hd, rfl, hleS, hleR, hcon', hTRc, hdeliv⟩
    · exact hdone
    · obtain ⟨i1, i2⟩ := ih nR' nS' (by omega) cR cS stR' stS' hR' hS' eR' eS' (gR.of_hle hleR) (gS.of_hle hleS) hcon'
      constructor
      · intro m hm
        rcases hc _ hm with hm' | hm'
        · obtain ⟨msg, g1, g2, g3⟩ := i2 m hm'
          exact ⟨msg, hleS.sub msg g1, g2, List.mem_append_left _ g3⟩
        · obtain ⟨msg, g1, g2, g3⟩ := hdeliv m hm'
          exact ⟨msg, g1, g2, List.mem_append_right _ g3⟩
      · intro m hm
        rcases List.mem_append.mp hm with hm' | hm'
        · obtain ⟨msg, g1, g2, g3⟩ := i1 m hm'
          exact ⟨msg, hleR.sub msg g1, g2, hd _ g3⟩
        · exact (hTRc m hm').elim

end Wl2k.B2F
