import Wl2kVerif.Proofs.PairGuard
/-
Prefix determinism of `Proc.run` (`run_append`): `Proc.upto` runs a program on the bytes available so far
and stops — keeping the residual program — at the first read that finds them exhausted. The run on
`i₁ ++ i₂` and the run on `i₁` alone (where the link then fails) both pass through the state
`upto p i₁`, so everything that happened before the first read that found `i₁` empty is the same.
-/
namespace Wl2k.B2F
open Wl2k

variable {α H : Type} (hstep : H → Call → H × Reply)

/-- run until the program returns, panics, or wants to read with nothing left: (residual program,
unconsumed input, handler state, trace) -/
def Proc.upto : Proc α → Bytes → H → List Ev → Proc α × Bytes × H × List Ev
  | .ret a, inp, h, tr => (.ret a, inp, h, tr)
  | .readByte k, [], h, tr => (.readByte k, [], h, tr)
  | .readByte k, b :: t, h, tr => Proc.upto (k (some b)) t h tr
  | .peek k, [], h, tr => (.peek k, [], h, tr)
  | .peek k, b :: t, h, tr => Proc.upto (k (some b)) (b :: t) h (.peeked b :: tr)
  | .write bs k, inp, h, tr => Proc.upto k inp h (.wrote bs :: tr)
  | .call c k, inp, h, tr => Proc.upto (k (hstep h c).2) inp (hstep h c).1 (.called c :: tr)
  | .panic s, inp, h, tr => (.panic s, inp, h, tr)

/-- the program is waiting for input -/
def Proc.waiting : Proc α → Bool
  | .readByte _ => true
  | .peek _ => true
  | _ => false

/-- the program has returned or panicked -/
def Proc.terminal : Proc α → Bool
  | .ret _ => true
  | .panic _ => true
  | _ => false

/-- `upto` stops only at a terminal program, or at a read with the input exhausted -/
theorem upto_stops (p : Proc α) : ∀ (inp : Bytes) (h : H) (tr : List Ev),
    (Proc.upto hstep p inp h tr).1.terminal = true ∨
      ((Proc.upto hstep p inp h tr).1.waiting = true ∧ (Proc.upto hstep p inp h tr).2.1 = []) := by
  induction p with
  | ret a => intro inp h tr; exact Or.inl rfl
  | readByte k ih =>
    intro inp h tr
    cases inp with
    | nil => exact Or.inr ⟨rfl, rfl⟩
    | cons b t => simp only [Proc.upto]; exact ih _ _ _ _
  | peek k ih =>
    intro inp h tr
    cases inp with
    | nil => exact Or.inr ⟨rfl, rfl⟩
    | cons b t => simp only [Proc.upto]; exact ih _ _ _ _
  | write bs k ih => intro inp h tr; simp only [Proc.upto]; exact ih _ _ _
  | call c k ih => intro inp h tr; simp only [Proc.upto]; exact ih _ _ _ _
  | panic s => intro inp h tr; exact Or.inl rfl

/-- `upto` is idempotent -/
theorem upto_upto (p : Proc α) : ∀ (inp : Bytes) (h : H) (tr : List Ev),
    Proc.upto hstep (Proc.upto hstep p inp h tr).1 (Proc.upto hstep p inp h tr).2.1
      (Proc.upto hstep p inp h tr).2.2.1 (Proc.upto hstep p inp h tr).2.2.2 = Proc.upto hstep p inp h tr := by
  induction p with
  | ret a => intro inp h tr; rfl
  | readByte k ih =>
    intro inp h tr
    cases inp with
    | nil => rfl
    | cons b t => simp only [Proc.upto]; exact ih _ _ _ _
  | peek k ih =>
    intro inp h tr
    cases inp with
    | nil => rfl
    | cons b t => simp only [Proc.upto]; exact ih _ _ _ _
  | write bs k ih => intro inp h tr; simp only [Proc.upto]; exact ih _ _ _
  | call c k ih => intro inp h tr; simp only [Proc.upto]; exact ih _ _ _ _
  | panic s => intro inp h tr; rfl

/-- **Prefix determinism, small-step form**: running on `i₁ ++ i₂` = running on `i₁` until it is
exhausted, then continuing the residual program on what is left plus `i₂`. -/
theorem upto_append (p : Proc α) : ∀ (i₁ i₂ : Bytes) (h : H) (tr : List Ev),
    Proc.upto hstep p (i₁ ++ i₂) h tr =
      Proc.upto hstep (Proc.upto hstep p i₁ h tr).1 ((Proc.upto hstep p i₁ h tr).2.1 ++ i₂)
        (Proc.upto hstep p i₁ h tr).2.2.1 (Proc.upto hstep p i₁ h tr).2.2.2 := by
  induction p with
  | ret a => intro i₁ i₂ h tr; rfl
  | readByte k ih =>
    intro i₁ i₂ h tr
    cases i₁ with
    | nil => rfl
    | cons b t => simp only [List.cons_append, Proc.upto]; exact ih _ _ _ _ _
  | peek k ih =>
    intro i₁ i₂ h tr
    cases i₁ with
    | nil => rfl
    | cons b t =>
      simp only [List.cons_append, Proc.upto]
      exact ih (some b) (b :: t) i₂ h _
  | write bs k ih => intro i₁ i₂ h tr; simp only [Proc.upto]; exact ih _ _ _ _
  | call c k ih => intro i₁ i₂ h tr; simp only [Proc.upto]; exact ih _ _ _ _ _
  | panic s => intro i₁ i₂ h tr; rfl

/-- the complete run (input, then link failure) continues from the `upto` state -/
theorem run_upto (p : Proc α) : ∀ (inp : Bytes) (h : H) (tr : List Ev),
    Proc.run hstep p inp h tr =
      Proc.run hstep (Proc.upto hstep p inp h tr).1 (Proc.upto hstep p inp h tr).2.1
        (Proc.upto hstep p inp h tr).2.2.1 (Proc.upto hstep p inp h tr).2.2.2 := by
  induction p with
  | ret a => intro inp h tr; rfl
  | readByte k ih =>
    intro inp h tr
    cases inp with
    | nil => rfl
    | cons b t => simp only [Proc.run, Proc.upto]; exact ih _ _ _ _
  | peek k ih =>
    intro inp h tr
    cases inp with
    | nil => rfl
    | cons b t => simp only [Proc.run, Proc.upto]; exact ih _ _ _ _
  | write bs k ih => intro inp h tr; simp only [Proc.run, Proc.upto]; exact ih _ _ _
  | call c k ih => intro inp h tr; simp only [Proc.run, Proc.upto]; exact ih _ _ _ _
  | panic s => intro inp h tr; rfl

/-- **`proc_deterministic_prefix`** (`run_append`): the run on `i₁ ++ i₂` is the run of the residual
program `upto p i₁` on the rest. -/
theorem run_append (p : Proc α) (i₁ i₂ : Bytes) (h : H) (tr : List Ev) :
    Proc.run hstep p (i₁ ++ i₂) h tr =
      Proc.run hstep (Proc.upto hstep p i₁ h tr).1 ((Proc.upto hstep p i₁ h tr).2.1 ++ i₂)
        (Proc.upto hstep p i₁ h tr).2.2.1 (Proc.upto hstep p i₁ h tr).2.2.2 := by
  rw [run_upto, upto_append, ← run_upto]

/-- the trace only grows -/
theorem upto_trace (p : Proc α) : ∀ (inp : Bytes) (h : H) (tr : List Ev),
    ∃ evs, (Proc.upto hstep p inp h tr).2.2.2 = evs ++ tr := by
  induction p with
  | ret a => intro inp h tr; exact ⟨[], rfl⟩
  | readByte k ih =>
    intro inp h tr
    cases inp with
    | nil => exact ⟨[], rfl⟩
    | cons b t => simp only [Proc.upto]; exact ih _ _ _ _
  | peek k ih =>
    intro inp h tr
    cases inp with
    | nil => exact ⟨[], rfl⟩
    | cons b t =>
      simp only [Proc.upto]
      obtain ⟨evs, he⟩ := ih (some b) (b :: t) h (.peeked b :: tr)
      exact ⟨evs ++ [.peeked b], by rw [he]; simp⟩
  | write bs k ih =>
    intro inp h tr
    simp only [Proc.upto]
    obtain ⟨evs, he⟩ := ih inp h (.wrote bs :: tr)
    exact ⟨evs ++ [.wrote bs], by rw [he]; simp⟩
  | call c k ih =>
    intro inp h tr
    simp only [Proc.upto]
    obtain ⟨evs, he⟩ := ih (hstep h c).2 inp (hstep h c).1 (.called c :: tr)
    exact ⟨evs ++ [.called c], by rw [he]; simp⟩
  | panic s => intro inp h tr; exact ⟨[], rfl⟩

theorem run_trace (p : Proc α) (inp : Bytes) (h : H) (tr : List Ev) :
    ∃ evs, (Proc.run hstep p inp h tr).2.2.2 = evs ++ tr := by
  rw [run_tr]; exact ⟨_, rfl⟩

/-- **Prefix monotonicity of traces**: the events produced on input `i₁` before the first read that
finds it exhausted are a prefix (in time) of the trace on `i₁` followed by link failure, of the trace on
any extension `i₁ ++ i₂` followed by link failure, and of the events produced before `i₁ ++ i₂` is
exhausted. (Traces are newest-first, so "prefix in time" is a list suffix.) -/
theorem trace_prefix_mono (p : Proc α) (i₁ i₂ : Bytes) (h : H) (tr : List Ev) :
    (∃ evs, (Proc.run hstep p i₁ h tr).2.2.2 = evs ++ (Proc.upto hstep p i₁ h tr).2.2.2) ∧
    (∃ evs, (Proc.run hstep p (i₁ ++ i₂) h tr).2.2.2 = evs ++ (Proc.upto hstep p i₁ h tr).2.2.2) ∧
    (∃ evs, (Proc.upto hstep p (i₁ ++ i₂) h tr).2.2.2 = evs ++ (Proc.upto hstep p i₁ h tr).2.2.2) := by
  refine ⟨?_, ?_, ?_⟩
  · rw [run_upto]; exact run_trace hstep _ _ _ _
  · rw [run_append]; exact run_trace hstep _ _ _ _
  · rw [upto_append]; exact upto_trace hstep _ _ _ _

/-- the bytes a trace (newest first) has written, in order -/
def outBytes : List Ev → Bytes
  | [] => []
  | .wrote bs :: tr => outBytes tr ++ bs
  | _ :: tr => outBytes tr

theorem outBytes_append (evs tr : List Ev) : outBytes (evs ++ tr) = outBytes tr ++ outBytes evs := by
  induction evs with
  | nil => simp [outBytes]
  | cons e t ih =>
    cases e <;> simp [outBytes, ih]

/-- **Output is prefix-monotone in the input**: more input can only append to what was written. -/
theorem outBytes_prefix_mono (p : Proc α) (i₁ i₂ : Bytes) (h : H) (tr : List Ev) :
    ∃ more, outBytes (Proc.upto hstep p (i₁ ++ i₂) h tr).2.2.2 = outBytes (Proc.upto hstep p i₁ h tr).2.2.2 ++ more := by
  obtain ⟨evs, he⟩ := (trace_prefix_mono hstep p i₁ i₂ h tr).2.2
  exact ⟨outBytes evs, by rw [he, outBytes_append]⟩

/-- if the program ended (returned or panicked) on `i₁` without running out of input, extra input changes
nothing but the unread remainder -/
theorem run_append_of_terminal (p : Proc α) (i₁ i₂ : Bytes) (h : H) (tr : List Ev)
    (ht : (Proc.upto hstep p i₁ h tr).1.terminal = true) :
    Proc.run hstep p (i₁ ++ i₂) h tr =
      ((Proc.run hstep p i₁ h tr).1, (Proc.run hstep p i₁ h tr).2.1 ++ i₂, (Proc.run hstep p i₁ h tr).2.2.1,
        (Proc.run hstep p i₁ h tr).2.2.2) := by
  rw [run_append, run_upto hstep p i₁]
  generalize Proc.upto hstep p i₁ h tr = u at ht
  obtain ⟨p', rest, h', tr'⟩ := u
  cases p' with
  | ret a => rfl
  | panic s => rfl
  | _ => simp [Proc.terminal] at ht

end Wl2k.B2F
