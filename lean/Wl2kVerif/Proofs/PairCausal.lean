import Wl2kVerif.Proofs.PairRecv
import Wl2kVerif.Proofs.PairBridge
import Wl2kVerif.Proofs.PairLz
/-
`sent_implies_received` for one block in the pair model, with an arbitrary `limit` (link cut) on either
side and under any schedule: the stream-level argument that combines the two forward simulations
(`handleOutbound_trace_*`, `recv_turn_spec`) through the causality theorem `pair_causal`.
-/
namespace Wl2k.B2F
open Wl2k Wl2k.Fmt Wl2k.Str Wl2k.Strconv

section generic
variable {H : Type} (hstep : H → Call → H × Reply)

/-- binding a continuation only adds events -/
theorem run_bind_trace {α β : Type} (p : Proc α) (f : α → Proc β) (J : Bytes) (h : H) (tr : List Ev) :
    ∃ evs, (Proc.run hstep (p.bind f) J h tr).2.2.2 = evs ++ (Proc.run hstep p J h tr).2.2.2 := by
  rw [run_bind]
  generalize Proc.run hstep p J h tr = r
  obtain ⟨res, J', h', tr'⟩ := r
  cases res with
  | done a => exact run_trace hstep (f a) J' h' tr'
  | panicked s => exact ⟨[], rfl⟩
  | blocked => exact ⟨[], rfl⟩

/-- a continuation that only returns adds nothing -/
theorem run_bind_ret_trace {α β : Type} (p : Proc α) (g : α → β) (J : Bytes) (h : H) (tr : List Ev) :
    (Proc.run hstep (p.bind fun a => Proc.ret (g a)) J h tr).2.2.2 = (Proc.run hstep p J h tr).2.2.2 := by
  rw [run_bind]
  generalize Proc.run hstep p J h tr = r
  obtain ⟨res, J', h', tr'⟩ := r
  cases res <;> rfl

/-- whatever it reads, `sendOutbound` first writes the whole block -/
theorem run_sendOutbound_out (c : Cfg) (fuel : Nat) (outp : List Proposal) (J : Bytes) (h : H) (tr : List Ev) :
    ∃ evs R, (Proc.run hstep (sendOutbound c fuel outp) J h tr).2.2.2 = evs ++ tr ∧
      outBytes evs = blockOut (outp.take c.maxBlock) ++ R := by
  unfold sendOutbound
  simp only [bind_eq, pure_eq]
  obtain ⟨ev1, w1, w2, _⟩ := run_writeLines hstep J h
    ((outp.take c.maxBlock).map fun p => proposalLine p.code p.msgType p.mid p.size p.csize) tr
  rw [run_bind, w1]
  simp only
  rw [run_bind]
  simp only [Proc.run]
  rw [run_tr]
  generalize Proc.run hstep _ J h [] = rK
  obtain ⟨resK, JK, hK, evK⟩ := rK
  refine ⟨evK ++ .wrote (promptLine (blockSum 0 (outp.take c.maxBlock))) :: ev1, outBytes evK, ?_, ?_⟩
  · simp [← blockSum_eq]
  · simp only [outBytes_append, outBytes, w2, blockBytes_eq, blockOut]

/-- whatever it reads, `handleOutbound` (with a non-empty block to offer) first writes the whole block -/
theorem handleOutbound_out (c : Cfg) (fuel : Nat) (st : SState) (out : List OutMsg) (J : Bytes) (h h1 : H) (tr : List Ev)
    (hh : c.hasHandler = true) (hget : hstep h (.getOutbound st.remoteFW) = (h1, .msgs out))
    (hblock : blockOf' c out ≠ []) :
    ∃ evs R, (Proc.run hstep (handleOutbound c fuel st) J h tr).2.2.2 = evs ++ tr ∧
      outBytes evs = blockOut (blockOf' c out) ++ R := by
  unfold handleOutbound
  simp only [bind_eq, pure_eq]
  rw [run_bind]
  have hne : (sortProposals ((out.filter fun m : OutMsg => m.valid).map mkProp)).isEmpty = false := by
    cases hs : sortProposals ((out.filter fun m : OutMsg => m.valid).map mkProp) with
    | nil => simp [blockOf', hs] at hblock
    | cons a t => rfl
  simp only [outbound, hh, Bool.not_true, Bool.false_eq_true, if_false, Proc.run, hget, hne]
  obtain ⟨evB, hB⟩ := run_bind_trace hstep (sendOutbound c fuel (sortProposals ((out.filter fun m : OutMsg => m.valid).map mkProp)))
    _ J h1 (.called (.getOutbound st.remoteFW) :: tr)
  obtain ⟨ev1, R, w1, w2⟩ := run_sendOutbound_out hstep c fuel (sortProposals ((out.filter fun m : OutMsg => m.valid).map mkProp))
    J h1 (.called (.getOutbound st.remoteFW) :: tr)
  rw [hB, w1]
  refine ⟨evB ++ ev1 ++ [.called (.getOutbound st.remoteFW)], R ++ outBytes evB, by simp, ?_⟩
  rw [outBytes_append, outBytes_append, w2]
  simp [outBytes, blockOf']

theorem outBytes_suffix {S T : List Ev} (h : S <:+ T) : outBytes S <+: outBytes T := by
  obtain ⟨pre, rfl⟩ := h
  rw [outBytes_append]
  exact List.prefix_append _ _

theorem suffix_append_cases {α : Type} {S X Y : List α} (h : S <:+ X ++ Y) : S <:+ Y ∨ ∃ X', S = X' ++ Y := by
  obtain ⟨pre, hp⟩ := h
  rcases List.append_eq_append_iff.mp hp with ⟨a', _, h2⟩ | ⟨c', _, h2⟩
  · exact Or.inr ⟨a', h2⟩
  · exact Or.inl ⟨c', h2.symm⟩

theorem mem_acceptedData (dataOf : Proposal → Bytes) : ∀ (ps : List Proposal) (as : List UInt8) (p : Proposal),
    (p, ansAccept) ∈ ps.zip as → dataOf p ∈ acceptedData dataOf ps as := by
  intro ps
  induction ps with
  | nil => intro as p h; simp at h
  | cons q qs ih =>
    intro as p h
    cases as with
    | nil => simp at h
    | cons a as =>
      simp only [List.zip_cons_cons, List.mem_cons, Prod.mk.injEq] at h
      rcases h with ⟨rfl, rfl⟩ | h
      · simp [acceptedData]
      · simp only [acceptedData, List.mem_append]
        exact Or.inr (ih as p h)

theorem mem_deliverEvs (ds : List Bytes) (d : Bytes) (h : d ∈ ds) : Ev.called (.processInbound d) ∈ deliverEvs ds := by
  simp only [deliverEvs, List.mem_flatMap, List.mem_reverse]
  exact ⟨d, h, by simp⟩

end generic

/-- what is assumed of the block the sender offers (per-proposal wire validity, LZHUF round trip `rt` inside
`FrameOK`, payloads of ≥ 6 bytes, enough fuel, block size of `writeCompressed` in 1..255) -/
structure BlockOK (ca : Cfg) (fuel : Nat) (dataOf : Proposal → Bytes) (block : List Proposal) : Prop where
  ne : block ≠ []
  line : ∀ p ∈ block, LineOK p ∧ (pl p).length < fuel
  frame : ∀ p ∈ block, FrameOK fuel dataOf p
  big : ∀ p ∈ block, 6 ≤ p.csize
  fuel5 : 5 < fuel
  fuelN : block.length + 3 < fuel
  m1 : 1 ≤ ca.maxMsgLen
  m2 : ca.maxMsgLen ≤ 255

/-- **`sent_implies_received`, one block, any schedule, any cut on either side.** Side A runs one sender
turn (`handleOutbound`, then returns); side B runs the matching receiver turn (`handleInbound`) followed
by what `turns` does next (`afterInbound`: error → `finish`, otherwise an ARBITRARY continuation `kOK`).
In every reachable state of the pair run: if A's trace contains `SetSent(m, false)`, then `m` is the MID
of a proposal `p` of the block and B's trace ALREADY contains `processInbound (dataOf p)`. -/
theorem turn_sent_implies_received (ca cb : Cfg) (fuel : Nat) (stA stB : SState)
    (fA : Except SErr (Bool × SState) → Result) (kOK : Bool → SState → Proc Result)
    (hA hA1 hB : HState) (out : List OutMsg) (limA limB : Option Nat) (dataOf : Proposal → Bytes)
    (hhA : ca.hasHandler = true) (hget : hstep hA (.getOutbound stA.remoteFW) = (hA1, .msgs out))
    (hok : BlockOK ca fuel dataOf (blockOf' ca out))
    (hans : AnswersPlainAt hstep hB) (hnb : cb.batched = false)
    {n : Nat} {t : Side × Side}
    (he : PairExec (initPair ((handleOutbound ca fuel stA).bind fun r => Proc.ret (fA r))
      ((handleInbound cb fuel stB).bind (afterInbound kOK)) hA hB limA limB) n t)
    (m : Bytes) (hsent : Ev.called (.setSent m false) ∈ t.1.evs) :
    ∃ p ∈ blockOf' ca out, p.mid = m ∧ Ev.called (.processInbound (dataOf p)) ∈ t.2.evs := by
  obtain ⟨⟨JA, hJA, ⟨postA, hTA⟩, _⟩, ⟨JB, hJB, ⟨postB, hTB⟩, _⟩⟩ := pair_causal _ _ hA hB limA limB he
  rw [run_bind_ret_trace] at hTA
  have hsentT : Ev.called (.setSent m false) ∈ (Proc.run hstep (handleOutbound ca fuel stA) JA hA []).2.2.2 := by
    rw [hTA]; exact List.mem_append_right _ hsent
  -- whatever A reads, it writes the block first
  obtain ⟨evsA0, RA, hA0, hA0o⟩ := handleOutbound_out hstep ca fuel stA out JA hA hA1 [] hhA hget hok.ne
  rw [List.append_nil] at hA0
  have hAsuf : t.1.evs <:+ (Proc.run hstep (handleOutbound ca fuel stA) JA hA []).2.2.2 := ⟨postA, hTA.symm⟩
  have hJB' : JB <+: blockOut (blockOf' ca out) ++ RA := by
    have := hJB.trans (outBytes_suffix hAsuf)
    rwa [hA0, hA0o] at this
  have hnoconf : ∀ (J : Bytes), (13 : UInt8) ∉ J → J.length < fuel →
      Ev.called (.setSent m false) ∈ (Proc.run hstep (handleOutbound ca fuel stA) J hA []).2.2.2 → False := by
    intro J h13 hf hmem
    obtain ⟨evs, h1, _, h3⟩ := handleOutbound_trace_eof hstep ca fuel stA out J hA hA1 [] hhA hget hok.ne h13 hf
    rw [h1, List.append_nil] at hmem
    have : true = false := h3 _ hmem
    cases this
  rcases recv_turn_spec hstep cb fuel stB kOK (blockOf' ca out) ca.maxMsgLen hok.m1 hok.m2 dataOf RA JB hB [] hans hnb
    hok.ne hok.line hok.frame hok.fuel5 (by have := hok.fuelN; omega) hJB' with
    hE | ⟨as, evs, fev, X, J2, rfl, hlen, hpl, hev, hfev, hT, hfetch⟩
  · -- B saw less than the block: it wrote nothing, so A read nothing
    rw [hE] at hTB
    have hb : t.2.evs = [] := (List.append_eq_nil_iff.mp hTB.symm).2
    rw [hb] at hJA
    have : JA = [] := by simpa [outBytes] using hJA
    subst this
    exact (hnoconf [] (by simp) (by have := hok.fuel5; simp; omega) hsentT).elim
  · rw [hT, List.append_nil] at hTB
    have hBsuf : t.2.evs <:+ X ++ (fev ++ Ev.wrote (fsLine as ++ [13]) :: evs) := ⟨postB, hTB.symm⟩
    have hevs0 : outBytes evs = [] := answer_evs_silent evs hev
    have houtY : outBytes (fev ++ Ev.wrote (fsLine as ++ [13]) :: evs) = fsLine as ++ [13] := by
      rw [outBytes_append, hfev]; simp [outBytes, hevs0]
    have hJA' : JA <+: fsLine as ++ 13 :: outBytes X := by
      have := hJA.trans (outBytes_suffix hBsuf)
      rw [outBytes_append, houtY] at this
      simpa using this
    have hasne : as ≠ [] := by
      intro e; rw [e] at hlen; exact hok.ne (List.length_eq_zero_iff.mp hlen.symm)
    have hfsl : (fsLine as).length < fuel := by
      have := hok.fuelN
      simp only [fsLine, fsPrefix, List.length_append, List.length_cons, List.length_nil]; omega
    rcases prefix_line_cases (fsLine as) (outBytes X) JA hJA' with ⟨JA2, rfl, hJA2⟩ | hshort
    · obtain ⟨evsA, hA1', hA2, hA3, _⟩ := handleOutbound_trace_fs hstep ca fuel stA out as JA2 hA hA1 [] hhA hget hlen hasne hpl
        hfsl hok.big
      rw [List.append_nil] at hA1'
      rw [hA1'] at hsentT
      obtain ⟨⟨x, r, rfl, hx⟩, p, a, hmem, rfl, hmid⟩ := hA3 m hsentT
      -- what B got after the block is a prefix of the frames A wrote
      have hJ2f : J2 <+: framesBytes ca.maxMsgLen (blockOf' ca out) as := by
        have := hJB.trans (outBytes_suffix hAsuf)
        rw [hA1', hA2] at this
        exact (List.prefix_append_right_inj _).mp this
      rcases hfetch hJ2f with hd | hX0 | ⟨t', hX42⟩
      · refine ⟨p, (List.of_mem_zip hmem).1, hmid, ?_⟩
        rcases suffix_append_cases hBsuf with hsuf | ⟨X', hb⟩
        · -- B's trace would not yet contain the byte A peeked
          have h1 := hJA.length_le
          have h2 := (outBytes_suffix hsuf).length_le
          rw [houtY] at h2
          simp only [List.length_append, List.length_cons, List.length_nil] at h1 h2
          omega
        · rw [hb, hd]
          exact List.mem_append_right _ (List.mem_append_left _
            (mem_deliverEvs _ _ (mem_acceptedData dataOf _ _ p hmem)))
      · rw [hX0] at hJA2; simp at hJA2
      · rw [hX42] at hJA2
        have : x = 42 := (List.cons_prefix_cons.mp hJA2).1
        subst this
        exact absurd hx (by decide)
    · exact (hnoconf JA (not_mem_of_prefix hshort (fsLine_no13 as hpl)) (by have := hshort.length_le; omega) hsentT).elim

/-! ### instantiation for the reference handler and `mkProp` proposals -/

theorem mem_insertSorted (p q : Proposal) : ∀ (l : List Proposal), q ∈ insertSorted p l → q = p ∨ q ∈ l := by
  intro l
  induction l with
  | nil => intro h; simp only [insertSorted, List.mem_singleton] at h; exact Or.inl h
  | cons x xs ih =>
    intro h
    simp only [insertSorted] at h
    split at h
    · simp only [List.mem_cons] at h ⊢; exact h
    · simp only [List.mem_cons] at h ⊢
      rcases h with h | h
      · exact Or.inr (Or.inl h)
      · rcases ih h with h | h
        · exact Or.inl h
        · exact Or.inr (Or.inr h)

theorem mem_sortProposals (q : Proposal) : ∀ (l : List Proposal), q ∈ sortProposals l → q ∈ l := by
  intro l
  induction l with
  | nil => intro h; simp [sortProposals] at h
  | cons x xs ih =>
    intro h
    simp only [sortProposals, List.foldr_cons] at h
    rcases mem_insertSorted x q _ h with h | h
    · simp [h]
    · exact List.mem_cons_of_mem _ (ih h)

/-- every proposal of the block is `mkProp` of a valid offered message -/
theorem mem_blockOf' (c : Cfg) (out : List OutMsg) (p : Proposal) (h : p ∈ blockOf' c out) :
    ∃ msg ∈ out, p = mkProp msg := by
  have h1 := mem_sortProposals p _ (List.mem_of_mem_take h)
  simp only [List.mem_map, List.mem_filter] at h1
  obtain ⟨msg, ⟨hm, _⟩, rfl⟩ := h1
  exact ⟨msg, hm, rfl⟩

/-- the messages the reference handler offers -/
def offered (h : HState) : List OutMsg := h.outbox.filter fun m => !h.deferred.contains m.mid

theorem hstep_getOutbound (h : HState) (fw : List (Bytes × Bytes)) : hstep h (.getOutbound fw) = (h, .msgs (offered h)) := rfl

theorem answersPlain_of_policy (h : HState) (hpol : ∀ x ∈ h.policy, PlainAnswer x.2) : AnswersPlainAt hstep h := by
  intro v
  refine ⟨h.answerFor v.mid, rfl, ?_⟩
  unfold HState.answerFor
  cases hf : h.policy.find? (·.1 = v.mid) with
  | none => exact Or.inl rfl
  | some x =>
    obtain ⟨m', a⟩ := x
    exact hpol (m', a) (List.mem_of_find?_eq_some hf)

/-- the proposal line of a message whose MID contains no blank / CR and whose sizes are below 2^63 is
wire-valid (`proposal_line_roundtrip`) -/
theorem lineOK_mkProp (msg : OutMsg) (h32 : (32 : UInt8) ∉ msg.mid) (h13 : (13 : UInt8) ∉ msg.mid)
    (hs : (msg.data.length : Int) ≤ maxInt64) (hc : ((Lzhuf.compress true msg.data).length : Int) ≤ maxInt64) :
    LineOK (mkProp msg) :=
  ⟨rfl, proposalLine_no13 msg.mid _ _ h13, proposal_line_roundtrip msg.mid _ _ h32 hs hc⟩

/-- what is assumed of one offered message: a MID without blank / CR, sizes below 2^63, a Q-encoded title
without NUL that fits the one-byte header length, the LZHUF round trip (`hrt`, C06's theorem — not
available yet), and enough fuel -/
structure MsgOK (fuel : Nat) (msg : OutMsg) : Prop where
  mid32 : (32 : UInt8) ∉ msg.mid
  mid13 : (13 : UInt8) ∉ msg.mid
  sizeOK : (msg.data.length : Int) ≤ maxInt64
  csizeOK : ((Lzhuf.compress true msg.data).length : Int) ≤ maxInt64
  lineFuel : (pl (mkProp msg)).length < fuel
  noNul : (0 : UInt8) ∉ msg.qtitle
  short : msg.qtitle.length + 3 < 256
  frameFuel : msg.qtitle.length + (Lzhuf.compress true msg.data).length + 4 < fuel
  hrt : lzDecode (Lzhuf.compress true msg.data) = some msg.data

theorem blockOK_of_msgs (ca : Cfg) (fuel : Nat) (out : List OutMsg) (hne : blockOf' ca out ≠ [])
    (hmsg : ∀ msg ∈ out, MsgOK fuel msg) (hf5 : 5 < fuel) (hfN : (blockOf' ca out).length + 3 < fuel)
    (hm1 : 1 ≤ ca.maxMsgLen) (hm2 : ca.maxMsgLen ≤ 255) :
    BlockOK ca fuel (fun p => (lzDecode p.cdata).getD []) (blockOf' ca out) := by
  refine ⟨hne, ?_, ?_, ?_, hf5, hfN, hm1, hm2⟩
  · intro p hp
    obtain ⟨msg, hm, rfl⟩ := mem_blockOf' ca out p hp
    exact ⟨lineOK_mkProp msg (hmsg msg hm).mid32 (hmsg msg hm).mid13 (hmsg msg hm).sizeOK (hmsg msg hm).csizeOK,
      (hmsg msg hm).lineFuel⟩
  · intro p hp
    obtain ⟨msg, hm, rfl⟩ := mem_blockOf' ca out p hp
    have ok := hmsg msg hm
    exact ⟨rfl, ok.noNul, ok.short, ok.frameFuel, rfl, by simp [mkProp, ok.hrt]⟩
  · intro p hp
    obtain ⟨msg, hm, rfl⟩ := mem_blockOf' ca out p hp
    have := Lzhuf.compress_length_ge_6 msg.data
    simp only [mkProp]; omega

/-- **`sent_implies_received`, one block, reference handlers.** (See `turn_sent_implies_received`.) If A's
trace contains `SetSent(m, false)`, then `m` is the MID of a message offered by A's handler whose
serialised bytes `data` B's handler has ALREADY been handed by `processInbound`. -/
theorem turn_sent_implies_received_ref (ca cb : Cfg) (fuel : Nat) (stA stB : SState)
    (fA : Except SErr (Bool × SState) → Result) (kOK : Bool → SState → Proc Result)
    (hA hB : HState) (limA limB : Option Nat)
    (hhA : ca.hasHandler = true) (hnb : cb.batched = false) (hpol : ∀ x ∈ hB.policy, PlainAnswer x.2)
    (hne : blockOf' ca (offered hA) ≠ []) (hmsg : ∀ msg ∈ offered hA, MsgOK fuel msg)
    (hf5 : 5 < fuel) (hfN : (blockOf' ca (offered hA)).length + 3 < fuel)
    (hm1 : 1 ≤ ca.maxMsgLen) (hm2 : ca.maxMsgLen ≤ 255)
    {n : Nat} {t : Side × Side}
    (he : PairExec (initPair ((handleOutbound ca fuel stA).bind fun r => Proc.ret (fA r))
      ((handleInbound cb fuel stB).bind (afterInbound kOK)) hA hB limA limB) n t)
    (m : Bytes) (hsent : Ev.called (.setSent m false) ∈ t.1.evs) :
    ∃ msg ∈ hA.outbox, msg.mid = m ∧ Ev.called (.processInbound msg.data) ∈ t.2.evs := by
  obtain ⟨p, hp, hmid, hproc⟩ := turn_sent_implies_received ca cb fuel stA stB fA kOK hA hA hB (offered hA) limA limB
    (fun p => (lzDecode p.cdata).getD []) hhA (hstep_getOutbound hA _)
    (blockOK_of_msgs ca fuel (offered hA) hne hmsg hf5 hfN hm1 hm2) (answersPlain_of_policy hB hpol) hnb he m hsent
  obtain ⟨msg, hm, rfl⟩ := mem_blockOf' ca (offered hA) p hp
  refine ⟨msg, (List.mem_filter.mp hm).1, hmid, ?_⟩
  have : (lzDecode (mkProp msg).cdata).getD [] = msg.data := by simp [mkProp, (hmsg msg hm).hrt]
  rwa [this] at hproc

/-! ### the receiver running the REAL rest of the session -/

theorem Proc.bind_assoc {α β γ : Type} (p : Proc α) (f : α → Proc β) (g : β → Proc γ) :
    (p.bind f).bind g = p.bind fun a => (f a).bind g := by
  induction p with
  | ret a => rfl
  | readByte k ih => simp only [Proc.bind]; congr; funext o; exact ih o
  | peek k ih => simp only [Proc.bind]; congr; funext o; exact ih o
  | write bs k ih => simp only [Proc.bind]; congr
  | call c k ih => simp only [Proc.bind]; congr; funext r; exact ih r
  | panic s => rfl

/-- how `Exchange` ends a session: `turns`, then `finish` -/
def restOfSession (c : Cfg) (fuel n : Nat) (myTurn : Bool) (st : SState) : Proc Result :=
  (turns c fuel n myTurn st).bind fun r => finish r.1 false r.2

/-- the rest of a session that starts with a receiver turn is that turn followed by `afterInbound` -/
theorem restOfSession_recv (c : Cfg) (fuel n : Nat) (st : SState) (hq : st.quitReceived = false) (hs : st.quitSent = false) :
    restOfSession c fuel (n + 1) false st =
      (handleInbound c fuel st).bind (afterInbound fun q st' => restOfSession c fuel n true { st' with quitReceived := q }) := by
  unfold restOfSession
  conv => lhs; unfold turns
  simp only [hq, hs, Bool.false_eq_true, or_self, if_false, bind_eq, pure_eq]
  rw [Proc.bind_assoc]
  congr
  funext r
  obtain ⟨q, st', e⟩ := r
  cases e <;> rfl

end Wl2k.B2F
