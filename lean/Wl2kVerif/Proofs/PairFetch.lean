import Wl2kVerif.Proofs.PairGuard
/-
What a run of `fetchAll` / `handleInbound` that returns WITHOUT error has done: every accepted proposal's
payload was handed to `parseMessage` and `processInbound`, in order, both returned without error, and
no other event happened in between (in particular no write).
-/
namespace Wl2k.B2F
open Wl2k Wl2k.Str Wl2k.Strconv

variable {H : Type} (hstep : H → Call → H × Reply)

/-- a program made of reads only leaves the handler state and the trace alone -/
theorem run_silent {α : Type} {p : Proc α} (hp : Shape Silent p) : ∀ (inp : Bytes) (h : H) (tr : List Ev),
    (Proc.run hstep p inp h tr).2.2 = (h, tr) := by
  induction hp with
  | ret a => intro inp h tr; rfl
  | readByte k _ _ ih =>
    intro inp h tr
    cases inp with
    | nil => simp only [Proc.run]; exact ih none [] h tr
    | cons b t => simp only [Proc.run]; exact ih (some b) t h tr
  | peek k hk _ _ => exact hk.elim
  | write bs k hk _ _ => exact hk.elim
  | call c k hk _ _ => exact hk.elim
  | panic s _ => intro inp h tr; rfl

/-- the reply of `processInbound` (and of `prepare`) reports an error -/
def Reply.isErr : Reply → Bool
  | .err true => true
  | _ => false

/-- the reply of `parseMessage` (`Message.ReadFrom`) reports an error -/
def Reply.parseErr : Reply → Bool
  | .parsed true _ => true
  | _ => false

/-- the handler state after `parseMessage d`, `processInbound d` -/
def deliverStep (h : H) (d : Bytes) : H := (hstep (hstep h (.parseMessage d)).1 (.processInbound d)).1

/-- both calls for `d` from state `h` returned without error -/
def deliverOK (h : H) (d : Bytes) : Prop :=
  (hstep h (.parseMessage d)).2.parseErr = false ∧ (hstep (hstep h (.parseMessage d)).1 (.processInbound d)).2.isErr = false

/-- the events of delivering `datas` in order (newest first) -/
def deliverEvs (datas : List Bytes) : List Ev :=
  datas.reverse.flatMap fun d => [Ev.called (.processInbound d), Ev.called (.parseMessage d)]

theorem deliverEvs_cons (d : Bytes) (ds : List Bytes) :
    deliverEvs (d :: ds) = deliverEvs ds ++ [Ev.called (.processInbound d), Ev.called (.parseMessage d)] := by
  simp [deliverEvs]

/-- all deliveries succeeded, threading the handler state -/
def AllOK : H → List Bytes → Prop
  | _, [] => True
  | h, d :: ds => deliverOK hstep h d ∧ AllOK (deliverStep hstep h d) ds

def accepted (ps : List Proposal) : List Proposal := ps.filter (·.answer = ansAccept)

theorem fetchAll_done_none (fuel : Nat) : ∀ (ps : List Proposal) (st : SState) (inp : Bytes) (h : H) (tr : List Ev)
    (st' : SState) (inp' : Bytes) (h' : H) (tr' : List Ev),
    Proc.run hstep (fetchAll fuel ps st) inp h tr = (.done (st', none), inp', h', tr') →
    ∃ datas : List Bytes,
      datas.length = (accepted ps).length ∧
      st'.received = st.received ++ (accepted ps).map (·.mid) ∧
      tr' = deliverEvs datas ++ tr ∧
      h' = datas.foldl (deliverStep hstep) h ∧
      AllOK hstep h datas ∧
      (∀ d ∈ datas, ∃ cdata, lzDecode cdata = some d) := by
  intro ps
  induction ps with
  | nil =>
    intro st inp h tr st' inp' h' tr' hr
    simp only [fetchAll, Proc.run, Prod.mk.injEq, Ended.done.injEq] at hr
    obtain ⟨⟨rfl, _⟩, _, rfl, rfl⟩ := hr
    exact ⟨[], rfl, by simp [accepted], by simp [deliverEvs], rfl, trivial, by intro d hd; cases hd⟩
  | cons p ps ih =>
    intro st inp h tr st' inp' h' tr' hr
    unfold fetchAll at hr
    by_cases hacc : p.answer = ansAccept
    · have hne : ¬ (p.answer ≠ ansAccept) := by simpa using hacc
      simp only [hne, if_false, bind_eq, pure_eq] at hr
      rw [run_bind] at hr
      have hsil := run_silent hstep (readCompressed_shape (E := Silent) ⟨trivial, fun _ => trivial⟩ fuel p) inp h tr
      generalize hrc : Proc.run hstep (readCompressed fuel p) inp h tr = rc at hr hsil
      obtain ⟨res, inp1, h1, tr1⟩ := rc
      simp only [Prod.mk.injEq] at hsil
      obtain ⟨rfl, rfl⟩ := hsil
      cases res with
      | panicked s => simp at hr
      | blocked => simp at hr
      | done r =>
        cases r with
        | error e => simp [Proc.run] at hr
        | ok cdata =>
          simp only at hr
          by_cases h68 : p.code = 68
          · simp [h68, Proc.bind, Proc.run] at hr
          · simp only [h68, if_false, Proc.bind] at hr
            cases hd : lzDecode cdata with
            | none => simp [hd, Proc.run] at hr
            | some data =>
              simp only [hd, Proc.run] at hr
              generalize hp1 : hstep h1 (.parseMessage data) = x1 at hr
              obtain ⟨h2, r1⟩ := x1
              simp only at hr
              split at hr
              · simp [Proc.run] at hr
              · rename_i hne1
                simp only [Proc.run] at hr
                generalize hp2 : hstep h2 (.processInbound data) = x2 at hr
                obtain ⟨h3, r2⟩ := x2
                simp only at hr
                split at hr
                · simp [Proc.run] at hr
                · rename_i hne2
                  obtain ⟨datas, hlen, hrec, htr, hh, hall, hdec⟩ := ih _ _ _ _ _ _ _ _ hr
                  refine ⟨data :: datas, ?_, ?_, ?_, ?_, ?_, ?_⟩
                  · simp [accepted, hacc] at hlen ⊢; exact hlen
                  · simp only [accepted, List.filter_cons, hacc, decide_true, if_true, List.map_cons] at hrec ⊢
                    rw [hrec]; simp
                  · rw [htr, deliverEvs_cons]; simp
                  · simp only [List.foldl_cons, deliverStep, hp1, hp2]; exact hh
                  · refine ⟨⟨?_, ?_⟩, ?_⟩
                    · rw [hp1]; cases r1 with
                      | parsed b e => cases b with
                        | true => exact absurd rfl (hne1 e)
                        | false => rfl
                      | _ => rfl
                    · rw [hp1]; simp only; rw [hp2]; cases r2 with
                      | err b => cases b with
                        | true => exact absurd rfl (hne2 )
                        | false => rfl
                      | _ => rfl
                    · simp only [deliverStep, hp1, hp2]; exact hall
                  · intro d hd'
                    simp only [List.mem_cons] at hd'
                    rcases hd' with rfl | hd'
                    · exact ⟨cdata, hd⟩
                    · exact hdec d hd'
    · have hne : p.answer ≠ ansAccept := hacc
      rw [if_pos hne] at hr
      obtain ⟨datas, hlen, hrec, htr, hh, hall, hdec⟩ := ih _ _ _ _ _ _ _ _ hr
      refine ⟨datas, ?_, ?_, htr, hh, hall, hdec⟩
      · simpa [accepted, hacc] using hlen
      · simpa [accepted, hacc] using hrec

/-- `handleInbound` returned without error ⇒ after the line loop returned `props`, every accepted proposal
was fetched, parsed and processed without error, in order, with no other event in between. -/
theorem handleInbound_done_none (c : Cfg) (fuel : Nat) (st : SState) (inp : Bytes) (h : H) (tr : List Ev)
    (q : Bool) (st' : SState) (inp' : Bytes) (h' : H) (tr' : List Ev)
    (hr : Proc.run hstep (handleInbound c fuel st) inp h tr = (.done (q, st', none), inp', h', tr')) :
    ∃ (props : List Proposal) (st1 : SState) (inp1 : Bytes) (h1 : H) (tr1 : List Ev) (datas : List Bytes),
      Proc.run hstep (inboundLoop c fuel fuel [] 0 st) inp h tr = (.done (.ok (q, props, st1)), inp1, h1, tr1) ∧
      datas.length = (accepted props).length ∧
      st'.received = st1.received ++ (accepted props).map (·.mid) ∧
      tr' = deliverEvs datas ++ tr1 ∧
      h' = datas.foldl (deliverStep hstep) h1 ∧
      AllOK hstep h1 datas ∧
      (∀ d ∈ datas, ∃ cdata, lzDecode cdata = some d) := by
  unfold handleInbound at hr
  simp only [bind_eq, pure_eq] at hr
  rw [run_bind] at hr
  generalize hil : Proc.run hstep (inboundLoop c fuel fuel [] 0 st) inp h tr = il at hr
  obtain ⟨res, inp1, h1, tr1⟩ := il
  cases res with
  | panicked s => simp at hr
  | blocked => simp at hr
  | done r =>
    cases r with
    | error e => simp [Proc.run] at hr
    | ok v =>
      obtain ⟨q1, props, st1⟩ := v
      simp only at hr
      rw [run_bind] at hr
      generalize hfa : Proc.run hstep (fetchAll fuel props st1) inp1 h1 tr1 = fa at hr
      obtain ⟨res2, inp2, h2, tr2⟩ := fa
      cases res2 with
      | panicked s => simp at hr
      | blocked => simp at hr
      | done r2 =>
        obtain ⟨st2, e2⟩ := r2
        simp only [Proc.run, Prod.mk.injEq, Ended.done.injEq] at hr
        obtain ⟨⟨rfl, rfl, rfl⟩, rfl, rfl, rfl⟩ := hr
        obtain ⟨datas, a1, a2, a3, a4, a5, a6⟩ := fetchAll_done_none hstep fuel props st1 inp1 h1 tr1 _ _ _ _ hfa
        exact ⟨props, st1, inp1, h1, tr1, datas, rfl, a1, a2, a3, a4, a5, a6⟩

end Wl2k.B2F
