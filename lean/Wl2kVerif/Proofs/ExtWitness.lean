import Wl2kVerif.Proofs.Builder4
/-
The laws assumed of the external encode/decode functions are satisfiable: a two-letters-per-byte
code meets all of them. (The real functions are checked against the same laws, per generated
input, by the harness.)
-/
namespace Wl2k.Msg
open Wl2k Wl2k.Textproto

def wEnc (s : Bytes) : Bytes := s.flatMap fun b => [65 + b / 16, 65 + b % 16]

def wDec : Bytes → Bytes
  | a :: b :: t => ((a - 65) * 16 + (b - 65)) :: wDec t
  | _ => []

def wExt : Ext := { encode := wEnc, decode := wDec, dateFallback := fun _ => false }

theorem wByte_facts : ∀ n, n < 256 →
    ((65 + UInt8.ofNat n / 16 - 65) * 16 + (65 + UInt8.ofNat n % 16 - 65) = UInt8.ofNat n) ∧
    (33 ≤ 65 + UInt8.ofNat n / 16 && 65 + UInt8.ofNat n / 16 ≤ 126) = true ∧
    (33 ≤ 65 + UInt8.ofNat n % 16 && 65 + UInt8.ofNat n % 16 ≤ 126) = true := by decide +kernel

theorem wByte (b : UInt8) : ((65 + b / 16 - 65) * 16 + (65 + b % 16 - 65) = b) ∧
    (33 ≤ 65 + b / 16 && 65 + b / 16 ≤ 126) = true ∧ (33 ≤ 65 + b % 16 && 65 + b % 16 ≤ 126) = true := by
  have := wByte_facts b.toNat b.toNat_lt; simpa using this

theorem wDec_wEnc : ∀ s, wDec (wEnc s) = s
  | [] => rfl
  | b :: t => by
    have : wEnc (b :: t) = (65 + b / 16) :: (65 + b % 16) :: wEnc t := by simp [wEnc]
    rw [this, wDec, wDec_wEnc t, (wByte b).1]

theorem wEnc_graphic (s : Bytes) : graphic (wEnc s) = true := by
  simp only [graphic, wEnc, List.all_eq_true, List.mem_flatMap]
  rintro c ⟨b, _, hc⟩
  simp only [List.mem_cons, List.not_mem_nil, or_false] at hc
  rcases hc with rfl | rfl
  · exact (wByte b).2.1
  · exact (wByte b).2.2

theorem wExt_laws : ExtLaws wExt where
  decode_encode := fun s _ => wDec_wEnc s
  encode_value := fun s => graphic_valueOK (wEnc_graphic s)
  encode_trimmed := fun s => graphic_trimmed (wEnc_graphic s)
  encode_ne := fun s hs => by
    cases s with
    | nil => exact absurd rfl hs
    | cons b t => simp [wExt, wEnc]

end Wl2k.Msg
