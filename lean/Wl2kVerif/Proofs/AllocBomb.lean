import Wl2kVerif.Proofs.AllocWitness
namespace Wl2k.Lzhuf
open Wl2k Wl2k.Bits

theorem bomb_new : Reader.new false bombStream = .ok bombReader := rfl

/-- **60 bytes out of 7**: any sequence of reads on `bombStream` that reaches an error return (`io.EOF`
included) has returned 60 spaces, and `Close` = nil. -/
theorem bomb_reads (ns : List Nat) (hend : ∃ e, some e ∈ errsWith bombReader ns) :
    (readsWith bombReader ns).2 = List.replicate 60 32 ∧ (readsWith bombReader ns).1.close = none := by
  have := decode_tokens false bombStream bombReader bomb_new [.mat 60 59]
    (by intro t ht; rw [List.mem_singleton] at ht; subst ht; exact ⟨by decide, by decide, by decide⟩)
    (List.replicate 7 false)
    (by decide) bomb_bits (by rw [bomb_decode]; rfl) (by intro h; cases h) ns hend
  rw [bomb_decode] at this
  exact this

end Wl2k.Lzhuf
