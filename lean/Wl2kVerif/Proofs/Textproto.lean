import Wl2kVerif.Std.Textproto
/-
Lemmas about the `net/textproto` reader model: a line `l ++ "\r\n"` without LF in `l` is read back
as `l`; a following line that does not begin with a blank is not a continuation; trimming.
-/
namespace Wl2k.Textproto
open Wl2k

/-! ### trimming -/

theorem dropWhile_head_neg {p : UInt8 → Bool} : ∀ (s : Bytes), (∀ b, s.head? = some b → p b = false) → s.dropWhile p = s
  | [], _ => rfl
  | b :: t, h => by
    have := h b rfl
    simp [this]

theorem trimWith_id {p : UInt8 → Bool} (s : Bytes)
    (h1 : ∀ b, s.head? = some b → p b = false) (h2 : ∀ b, s.getLast? = some b → p b = false) :
    trimWith p s = s := by
  unfold trimWith
  rw [dropWhile_head_neg s h1, dropWhile_head_neg s.reverse (by simpa using h2)]
  simp

theorem trimWith_nil (p : UInt8 → Bool) : trimWith p [] = [] := rfl

theorem dropWhile_head_not {p : UInt8 → Bool} : ∀ (s : Bytes) (b : UInt8), (s.dropWhile p).head? = some b → p b = false
  | [], _, h => by simp at h
  | a :: t, b, h => by
    rw [List.dropWhile_cons] at h
    by_cases hp : p a
    · simp only [hp, if_true] at h; exact dropWhile_head_not t b h
    · simp only [hp] at h
      simp at h; subst h; simpa using hp

/-- the result of a trim neither begins nor ends with a trimmed byte -/
theorem trimWith_head {p : UInt8 → Bool} (s : Bytes) (b : UInt8) (h : (trimWith p s).head? = some b) : p b = false := by
  unfold trimWith at h
  rw [List.head?_reverse] at h
  -- last of (dropWhile p (reverse (dropWhile p s))) is an element of the tail end of (dropWhile p s).reverse,
  -- i.e. the head of dropWhile p s, or there is nothing
  generalize hd : s.dropWhile p = d at h
  have hd0 : ∀ x, d.head? = some x → p x = false := fun x hx => dropWhile_head_not s x (hd ▸ hx)
  -- (d.reverse.dropWhile p) is a suffix of d.reverse; if non-empty, its last is d.reverse's last = d.head
  have hsuf : (d.reverse.dropWhile p) <:+ d.reverse := List.dropWhile_suffix p
  obtain ⟨pre, hpre⟩ := hsuf
  have hne : d.reverse.dropWhile p ≠ [] := by intro h0; rw [h0] at h; simp at h
  have : (d.reverse).getLast? = some b := by
    rw [← hpre, List.getLast?_append, h]; rfl
  rw [List.getLast?_reverse] at this
  exact hd0 b this

theorem trimWith_last {p : UInt8 → Bool} (s : Bytes) (b : UInt8) (h : (trimWith p s).getLast? = some b) : p b = false := by
  unfold trimWith at h
  rw [List.getLast?_reverse] at h
  exact dropWhile_head_not _ b h

theorem trimWith_idem {p : UInt8 → Bool} (s : Bytes) : trimWith p (trimWith p s) = trimWith p s :=
  trimWith_id _ (trimWith_head s) (trimWith_last s)

theorem trimString_idem (s : Bytes) : trimString (trimString s) = trimString s := trimWith_idem s

theorem isBlank_space {b : UInt8} (h : isASCIISpace b = false) : isBlank b = false := by
  simp only [isASCIISpace, isBlank, Bool.or_eq_false_iff] at *
  exact ⟨h.1.1.1, h.1.1.2⟩

theorem mem_trimWith {p : UInt8 → Bool} {s : Bytes} {b : UInt8} (h : b ∈ trimWith p s) : b ∈ s := by
  unfold trimWith at h
  rw [List.mem_reverse] at h
  have h1 := (List.dropWhile_sublist p).subset h
  rw [List.mem_reverse] at h1
  exact (List.dropWhile_sublist p).subset h1

/-! ### lines -/

theorem splitLF_append : ∀ (l r : Bytes), (10 : UInt8) ∉ l → splitLF (l ++ 10 :: r) = (l, some r)
  | [], r, _ => by simp [splitLF]
  | b :: t, r, h => by
    have hb : b ≠ 10 := fun e => h (by simp [e])
    have ht : (10 : UInt8) ∉ t := fun e => h (by simp [e])
    simp [splitLF, hb, splitLF_append t r ht]

theorem splitLF_none : ∀ (l : Bytes), (10 : UInt8) ∉ l → splitLF l = (l, none)
  | [], _ => rfl
  | b :: t, h => by
    have hb : b ≠ 10 := fun e => h (by simp [e])
    have ht : (10 : UInt8) ∉ t := fun e => h (by simp [e])
    simp [splitLF, hb, splitLF_none t ht]

theorem dropCR_snoc (l : Bytes) : dropCR (l ++ [13]) = l := by simp [dropCR]

/-- a CRLF-terminated line without LF is read back as it is -/
theorem readLine_crlf (l r : Bytes) (h : (10 : UInt8) ∉ l) : readLine (l ++ 13 :: 10 :: r) = some (l, r) := by
  have h' : (10 : UInt8) ∉ l ++ [13] := by simp [h]
  have e : l ++ 13 :: 10 :: r = (l ++ [13]) ++ 10 :: r := by simp
  have hs := splitLF_append (l ++ [13]) r h'
  rw [← e] at hs
  cases hl : l ++ 13 :: 10 :: r with
  | nil => simp at hl
  | cons a t =>
    rw [hl] at hs
    simp only [readLine, hs, dropCR_snoc]

/-- no continuation when the next byte is not a blank -/
theorem contLoop_stop (f : Nat) (buf s : Bytes) (h : ∀ b, s.head? = some b → isBlank b = false) :
    contLoop f buf s = (buf, s) := by
  cases f with
  | zero => rfl
  | succ f =>
    cases s with
    | nil => rfl
    | cons b t => simp [contLoop, h b rfl]

theorem readContinued_line (l r : Bytes) (hne : l ≠ []) (hlf : (10 : UInt8) ∉ l) (hc : (58 : UInt8) ∈ l)
    (hr : ∀ b, r.head? = some b → isBlank b = false) :
    readContinued (l ++ 13 :: 10 :: r) = .ok (trim l, r) := by
  have hc' : l.contains 58 = true := by simpa using hc
  have he : l.isEmpty = false := by cases l <;> simp_all
  simp [readContinued, readLine_crlf l r hlf, he, hc, contLoop_stop _ _ _ hr]

theorem readContinued_blank (r : Bytes) : readContinued (13 :: 10 :: r) = .ok ([], r) := by
  have := readLine_crlf [] r (by simp)
  simp only [List.nil_append] at this
  simp [readContinued, this]

theorem cutColon_append : ∀ (k v : Bytes), (58 : UInt8) ∉ k → cutColon (k ++ 58 :: v) = some (k, v)
  | [], v, _ => by simp [cutColon]
  | b :: t, v, h => by
    have hb : b ≠ 58 := fun e => h (by simp [e])
    have ht : (58 : UInt8) ∉ t := fun e => h (by simp [e])
    simp [cutColon, hb, cutColon_append t v ht]

end Wl2k.Textproto
