import Wl2kVerif.Proofs.HeaderText
/-
The four `ExtLaws` for the transcribed `encodeHeaderText` / `WordDecoder.DecodeHeader`
(`Msg/HeaderText.lean`): shape of the encoder's result, the decoder's run on the single Q word,
the verbatim case, and the laws themselves.
-/
namespace Wl2k.Msg.HeaderText
open Wl2k Wl2k.Utf8 Wl2k.Textproto Wl2k.Msg

/-- the single encoded word `=?ISO-8859-1?q?…?=` around the Q form of `e` -/
def word (e : Bytes) : Bytes :=
  61 :: 63 :: 73 :: 83 :: 79 :: 45 :: 56 :: 56 :: 53 :: 57 :: 45 :: 49 :: 63 :: 113 :: 63 :: (writeQString e ++ [63, 61])

theorem writeQString_length (e : Bytes) : e.length ≤ (writeQString e).length := by
  induction e with
  | nil => simp [writeQString]
  | cons b t ih =>
    have : writeQString (b :: t) = qByte b ++ writeQString t := by simp [writeQString]
    rw [this, List.length_append, List.length_cons]
    have : 1 ≤ (qByte b).length := by
      rcases qByte_cases b with ⟨_, h⟩ | ⟨h, _⟩ | ⟨h, _⟩ <;> simp [h]
    omega

theorem word_ne (e : Bytes) : word e ≠ e := by
  intro h
  have := congrArg List.length h
  have := writeQString_length e
  simp [word] at *
  omega

theorem isUTF8_default : isUTF8 defaultCharset = false := by decide +kernel

theorem encodeWord_default (e : Bytes) : encodeWord defaultCharset e = word e := by
  simp only [encodeWord, qEncode, isUTF8_default, Bool.not_false, if_true]
  simp [openWord, closeWord, word, eqq, qeq, defaultCharset]

theorem hand_eq (e : Bytes) : eqq ++ defaultCharset ++ [63, 113, 63] ++ e.flatMap handByte ++ qeq = word e := by
  have : e.flatMap handByte = writeQString e := by
    simp only [writeQString]; congr 1; funext b; exact handByte_eq b
  rw [this]; simp [word, eqq, qeq, defaultCharset]

/-- **The two shapes of `encodeHeaderText`.** Either the Latin-1 form is returned verbatim — then it is
TAB/printable ASCII only, contains no "=?" and has no outer blank — or it is the single Q word. -/
theorem encode_shape (s : Bytes) :
    (encodeHeaderText s = toLatin1 s ∧ (toLatin1 s).all plainByte = true ∧
        Str.containsSub (toLatin1 s) eqq = false ∧ trimWith isBlank (toLatin1 s) = toLatin1 s) ∨
      encodeHeaderText s = word (toLatin1 s) := by
  generalize he : toLatin1 s = e
  unfold encodeHeaderText
  simp only [he, qEncodingEncode]
  by_cases hn : needsEncoding e = true
  · right
    simp only [hn, Bool.not_true, Bool.false_eq_true, if_false, encodeWord_default]
    have : (word e != e) = true := by simpa using word_ne e
    simp [this]
  · have hn' : needsEncoding e = false := by simpa using hn
    simp only [hn', Bool.not_false, if_true, bne_self_eq_false, Bool.false_or]
    by_cases hv : (!Str.containsSub e eqq && trimWith isBlank e == e) = true
    · left
      simp only [hv, if_true]
      simp only [Bool.and_eq_true, Bool.not_eq_true', beq_iff_eq] at hv
      exact ⟨trivial, needsEncoding_false hn', hv.1, hv.2⟩
    · right
      simp only [hv]
      exact hand_eq e


/-! ### `DecodeHeader` on the single word -/

theorem writeQString_no_q (e : Bytes) : (63 : UInt8) ∉ writeQString e := by
  intro h
  simp only [writeQString, List.mem_flatMap] at h
  obtain ⟨b, _, hb⟩ := h
  have := qByte_graphic b
  simp only [List.all_eq_true] at this
  have := this 63 hb
  simp at this

theorem writeQString_graphic (e : Bytes) : graphic (writeQString e) = true := by
  simp only [graphic, writeQString, List.all_eq_true, List.mem_flatMap]
  rintro c ⟨b, _, hb⟩
  have := qByte_graphic b
  simp only [List.all_eq_true] at this
  have := this c hb
  simp only [Bool.and_eq_true] at this ⊢
  exact this.1

/-- `strings.Index(q ++ "?=" , "?=")` when `q` has no '?' -/
theorem index_qeq (q : Bytes) (h : (63 : UInt8) ∉ q) : index qeq (q ++ [63, 61]) = some q.length := by
  induction q with
  | nil => simp [index, qeq]
  | cons b t ih =>
    simp only [List.mem_cons, not_or] at h
    have hb : (63 : UInt8) ≠ b := h.1
    have : (qeq.isPrefixOf (b :: (t ++ [63, 61]))) = false := by
      simp [qeq, List.isPrefixOf, hb]
    simp only [List.cons_append, index, this, Bool.false_eq_true, if_false, ih h.2]
    simp

theorem dhLoop_nil (f : Nat) (buf : Bytes) (bw : Bool) : dhLoop f buf [] bw = (buf, false) := by
  cases f <;> simp [dhLoop, index, eqq]

theorem convert_default (e : Bytes) :
    convert defaultCharset e = some (e.flatMap fun c => encodeRune c.toNat) := by
  have h1 : equalFoldC cUtf8 defaultCharset = false := by decide +kernel
  have h2 : equalFoldC cLatin1 defaultCharset = true := by decide +kernel
  simp [convert, h1, h2]

theorem mimeDecodeHeader_word (e : Bytes) :
    mimeDecodeHeader (word e) = (e.flatMap fun c => encodeRune c.toNat, false) := by
  have hi : index eqq (word e) = some 0 := by simp [index, eqq, word]
  simp only [mimeDecodeHeader, hi, List.drop_zero, List.take_zero]
  have h2 : index [63] ((word e).drop 2) = some 10 := by simp [index, word]
  have hq := index_qeq (writeQString e) (writeQString_no_q e)
  have h3 : (word e).drop 15 = writeQString e ++ [63, 61] := by simp [word]
  have hlen : (word e).length = 17 + (writeQString e).length := by simp [word]; omega
  simp only [dhLoop, hi, h2, h3, hq]
  have g13 : (word e).getD (0 + 2 + 10 + 1) 0 = 113 := by simp [word]
  have g14 : (word e).getD (0 + 2 + 10 + 1 + 1) 0 = 63 := by simp [word]
  have hcs : ((word e).drop (0 + 2)).take 10 = defaultCharset := by simp [word, defaultCharset]
  have hend : (word e).drop (0 + 2 + 10 + 1 + 1 + 1 + (writeQString e).length + 2) = [] := by
    apply List.drop_eq_nil_of_le; omega
  have hdec : decode 113 (writeQString e) = some e := by
    simp [decode, qDecode_writeQString]
  have hnl : ¬ (word e).length < 0 + 2 + 10 + 1 + 4 := by omega
  simp only [g13, g14, hcs, hend, hnl, if_false, List.take_left', hdec, convert_default, dhLoop_nil]
  simp


theorem decodeHeader_word (e : Bytes) :
    decodeHeader (word e) = (e.flatMap fun c => encodeRune c.toNat, false) := by
  have hi : index eqq (word e) = some 0 := by simp [index, eqq, word]
  simp only [decodeHeader, hi, mimeDecodeHeader_word]

/-! ### ISO-8859-1 → UTF-8 undoes UTF-8 → ISO-8859-1 on representable text -/

theorem encodeRune_ascii_table : ∀ n, n < 128 → encodeRune (UInt8.ofNat n).toNat = [UInt8.ofNat n] := by
  decide +kernel

theorem encodeRune_two_table : ∀ n, n < 256 → isCont (UInt8.ofNat n) = true →
    encodeRune (twoByte 0xC2 (UInt8.ofNat n)).toNat = [0xC2, UInt8.ofNat n] ∧
    encodeRune (twoByte 0xC3 (UInt8.ofNat n)).toNat = [0xC3, UInt8.ofNat n] := by
  decide +kernel

theorem latin1_utf8_inv {s : Bytes} (hs : L1 s) :
    (toLatin1 s).flatMap (fun c => encodeRune c.toNat) = s := by
  induction hs with
  | nil => simp [toLatin1, toLatin1S]
  | ascii b t hb _ ih =>
    rw [toLatin1_ascii _ _ hb, List.flatMap_cons, ih]
    have hlt : b.toNat < 128 := by simpa [UInt8.lt_iff_toNat_lt] using hb
    have := encodeRune_ascii_table b.toNat hlt
    simp only [UInt8.ofNat_toNat] at this
    rw [this]; rfl
  | two l c t hl hc _ ih =>
    rw [toLatin1_two _ _ _ hl hc, List.flatMap_cons, ih]
    have := encodeRune_two_table c.toNat c.toNat_lt (by simpa using hc)
    simp only [UInt8.ofNat_toNat] at this
    rcases hl with rfl | rfl
    · rw [this.1]; rfl
    · rw [this.2]; rfl

/-! ### the verbatim case -/

theorem containsSub_index (sub s : Bytes) : Str.containsSub s sub = (index sub s).isSome := by
  induction s with
  | nil => simp [Str.containsSub, index]; cases sub <;> simp
  | cons b t ih =>
    simp only [Str.containsSub, index, ih]
    by_cases h : sub.isPrefixOf (b :: t) = true
    · simp [h]
    · simp [h]

theorem plain_ascii {b : UInt8} (h : plainByte b = true) : b < 0x80 := by
  have : ∀ n, n < 256 → plainByte (UInt8.ofNat n) = true → UInt8.ofNat n < 0x80 := by decide +kernel
  have := this b.toNat b.toNat_lt; simp only [UInt8.ofNat_toNat] at this; exact this h

theorem utf8Valid_ascii {e : Bytes} (h : ∀ b ∈ e, b < 0x80) : utf8Valid e = true := by
  unfold utf8Valid
  induction e with
  | nil => rfl
  | cons b t ih =>
    have hb := h b (by simp)
    have hlt : b.toNat < 128 := by simpa [UInt8.lt_iff_toNat_lt] using hb
    have hd : decodeRune (b :: t) = (b.toNat, 1) := by simp [decodeRune, hb]
    simp only [validS, hd]
    have : (b.toNat == runeError) = false := by simp [runeError]; omega
    simp only [this, Bool.false_and, Bool.not_false, Bool.true_and, Nat.sub_self]
    exact ih (fun c hc => h c (by simp [hc]))

/-- a representable text whose Latin-1 form is ASCII is its own Latin-1 form -/
theorem toLatin1_ascii_id {s : Bytes} (hs : L1 s) (h : ∀ b ∈ toLatin1 s, b < 0x80) : toLatin1 s = s := by
  induction hs with
  | nil => simp [toLatin1, toLatin1S]
  | ascii b t hb _ ih =>
    rw [toLatin1_ascii _ _ hb] at h ⊢
    rw [ih (fun c hc => h c (by simp [hc]))]
  | two l c t hl hc _ ih =>
    rw [toLatin1_two _ _ _ hl hc] at h
    have := h (twoByte l c) (by simp)
    have hge := twoByte_ge l c hl
    simp only [UInt8.lt_iff_toNat_lt] at this
    simp at this; omega

theorem decodeHeader_verbatim {e : Bytes} (h1 : e.all plainByte = true)
    (h2 : Str.containsSub e eqq = false) : decodeHeader e = (e, false) := by
  have hi : index eqq e = none := by
    rw [containsSub_index] at h2
    cases hx : index eqq e with
    | none => rfl
    | some _ => rw [hx] at h2; simp at h2
  have hv : utf8Valid e = true := utf8Valid_ascii (fun b hb => plain_ascii (List.all_eq_true.1 h1 b hb))
  simp [decodeHeader, hi, hv]


/-! ### the four laws -/

theorem plain_facts {b : UInt8} (h : plainByte b = true) :
    validValueByte b = true ∧ isASCIISpace b = isBlank b := by
  have : ∀ n, n < 256 → plainByte (UInt8.ofNat n) = true →
      validValueByte (UInt8.ofNat n) = true ∧ isASCIISpace (UInt8.ofNat n) = isBlank (UInt8.ofNat n) := by
    decide +kernel
  have := this b.toNat b.toNat_lt; simp only [UInt8.ofNat_toNat] at this; exact this h

theorem dropWhile_congr_mem {p q : UInt8 → Bool} {s : Bytes} (h : ∀ b ∈ s, p b = q b) :
    s.dropWhile p = s.dropWhile q := by
  induction s with
  | nil => rfl
  | cons b t ih =>
    simp only [List.dropWhile_cons, h b (by simp)]
    split
    · exact ih (fun c hc => h c (by simp [hc]))
    · rfl

theorem trimWith_congr_mem {p q : UInt8 → Bool} {s : Bytes} (h : ∀ b ∈ s, p b = q b) :
    trimWith p s = trimWith q s := by
  unfold trimWith
  rw [dropWhile_congr_mem h]
  rw [dropWhile_congr_mem (s := (s.dropWhile q).reverse)]
  intro b hb
  exact h b ((List.dropWhile_sublist q).subset (List.mem_reverse.1 hb))

theorem word_graphic (e : Bytes) : graphic (word e) = true := by
  have := writeQString_graphic e
  simp only [graphic, List.all_eq_true] at this ⊢
  intro c hc
  simp only [word, List.mem_cons, List.mem_append, List.not_mem_nil, or_false] at hc
  rcases hc with rfl | rfl | rfl | rfl | rfl | rfl | rfl | rfl | rfl | rfl | rfl | rfl | rfl | rfl | rfl | hc
  all_goals first | decide | skip
  rcases hc with hc | rfl | rfl
  · exact this c hc
  · decide
  · decide

theorem encode_value (s : Bytes) : valueOK (encodeHeaderText s) = true := by
  rcases encode_shape s with ⟨h, hp, _, _⟩ | h
  · rw [h]
    simp only [valueOK, List.all_eq_true] at hp ⊢
    intro b hb; exact (plain_facts (hp b hb)).1
  · rw [h]; exact graphic_valueOK (word_graphic _)

theorem encode_trimmed (s : Bytes) : trimString (encodeHeaderText s) = encodeHeaderText s := by
  rcases encode_shape s with ⟨h, hp, _, ht⟩ | h
  · rw [h]
    simp only [List.all_eq_true] at hp
    have : trimString (toLatin1 s) = trimWith isBlank (toLatin1 s) :=
      trimWith_congr_mem (fun b hb => (plain_facts (hp b hb)).2)
    rw [this, ht]
  · rw [h]; exact graphic_trimmed (word_graphic _)

theorem toLatin1_ne {s : Bytes} (hs : s ≠ []) : toLatin1 s ≠ [] := by
  cases s with
  | nil => exact absurd rfl hs
  | cons b t => simp [toLatin1, toLatin1S]

theorem encode_ne (s : Bytes) (hs : s ≠ []) : encodeHeaderText s ≠ [] := by
  rcases encode_shape s with ⟨h, _⟩ | h
  · rw [h]; exact toLatin1_ne hs
  · rw [h]; simp [word]

theorem decode_encode (s : Bytes) (hs : L1 s) : (decodeHeader (encodeHeaderText s)).1 = s := by
  rcases encode_shape s with ⟨h, hp, hc, _⟩ | h
  · rw [h, decodeHeader_verbatim hp hc]
    exact toLatin1_ascii_id hs (fun b hb => plain_ascii (List.all_eq_true.1 hp b hb))
  · rw [h, decodeHeader_word]
    exact latin1_utf8_inv hs

/-- For EVERY text (representable or not) decoding the encoded form gives the UTF-8 form of the
Latin-1 translation (unrepresentable characters and invalid bytes have become '?'). -/
theorem decode_encode_any (s : Bytes) :
    (decodeHeader (encodeHeaderText s)).1 = (toLatin1 s).flatMap (fun c => encodeRune c.toNat) := by
  rcases encode_shape s with ⟨h, hp, hc, _⟩ | h
  · rw [h, decodeHeader_verbatim hp hc]
    simp only [List.all_eq_true] at hp
    generalize toLatin1 s = e at hp
    induction e with
    | nil => rfl
    | cons b t ih =>
      have hb := plain_ascii (hp b (by simp))
      have hlt : b.toNat < 128 := by simpa [UInt8.lt_iff_toNat_lt] using hb
      have := encodeRune_ascii_table b.toNat hlt
      simp only [UInt8.ofNat_toNat] at this
      rw [List.flatMap_cons, this, ← ih (fun c hc => hp c (by simp [hc]))]; rfl
  · rw [h, decodeHeader_word]

/-- … and the decoder reports no error on an encoded text -/
theorem decode_encode_noerr (s : Bytes) : (decodeHeader (encodeHeaderText s)).2 = false := by
  rcases encode_shape s with ⟨h, hp, hc, _⟩ | h
  · rw [h, decodeHeader_verbatim hp hc]
  · rw [h, decodeHeader_word]

end Wl2k.Msg.HeaderText
