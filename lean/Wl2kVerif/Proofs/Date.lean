import Wl2kVerif.Msg.Date
import Wl2kVerif.Proofs.Textproto
import Wl2kVerif.Proofs.Fmt
/-
Date layout: a string accepted by the primary layout has no surrounding blanks (it starts and ends
with a digit); `parsePrimary (formatDate c) = some c` for every valid civil minute.
-/
namespace Wl2k.Msg
open Wl2k Wl2k.Textproto

theorem digit_not_space {b : UInt8} (h : isDigit b = true) : isASCIISpace b = false := by
  cases hs : isASCIISpace b with
  | false => rfl
  | true =>
    simp only [isASCIISpace, Bool.or_eq_true, beq_iff_eq] at hs
    rcases hs with ((e | e) | e) | e <;> (subst e; revert h; decide)

theorem num4_some {s r : Bytes} {n : Nat} (h : num4 s = some (n, r)) :
    ∃ a b c d, s = a :: b :: c :: d :: r ∧ isDigit a = true := by
  match s, h with
  | a :: b :: c :: d :: t, h =>
    simp only [num4] at h
    split at h
    · rename_i hd
      simp only [Bool.and_eq_true] at hd
      simp only [Option.some.injEq, Prod.mk.injEq] at h
      exact ⟨a, b, c, d, by rw [h.2], hd.1.1.1⟩
    · simp at h

theorem num2_some {s r : Bytes} {n : Nat} (h : num2 s = some (n, r)) :
    ∃ a b, s = a :: b :: r ∧ isDigit b = true := by
  match s, h with
  | a :: b :: t, h =>
    simp only [num2] at h
    split at h
    · rename_i hd
      simp only [Bool.and_eq_true] at hd
      simp only [Option.some.injEq, Prod.mk.injEq] at h
      exact ⟨a, b, by rw [h.2], hd.2⟩
    · simp at h

theorem num12_suffix {s r : Bytes} {n : Nat} (h : num12 s = some (n, r)) : r <:+ s := by
  match s, h with
  | [a], h =>
    simp only [num12] at h
    split at h
    · simp only [Option.some.injEq, Prod.mk.injEq] at h; rw [← h.2]; exact List.nil_suffix
    · simp at h
  | a :: b :: t, h =>
    simp only [num12] at h
    split at h
    · split at h
      · simp only [Option.some.injEq, Prod.mk.injEq] at h; rw [← h.2]
        exact ⟨[a, b], rfl⟩
      · simp only [Option.some.injEq, Prod.mk.injEq] at h; rw [← h.2]
        exact ⟨[a], rfl⟩
    · simp at h

theorem expect_suffix {c : UInt8} {s r : Bytes} (h : expect c s = some r) : r <:+ s := by
  match s, h with
  | b :: t, h =>
    simp only [expect] at h
    split at h
    · simp only [Option.some.injEq] at h; rw [← h]; exact ⟨[b], rfl⟩
    · simp at h

theorem skipSpaces_suffix {s r : Bytes} (h : skipSpaces s = some r) : r <:+ s := by
  match s, h with
  | [], h => simp only [skipSpaces, Option.some.injEq] at h; rw [← h]; exact List.nil_suffix
  | b :: t, h =>
    simp only [skipSpaces] at h
    split at h
    · simp only [Option.some.injEq] at h; rw [← h]
      exact (List.dropWhile_suffix _).trans ⟨[b], rfl⟩
    · simp at h

theorem parsePrimary_shape {s : Bytes} {c : Civil} (h : parsePrimary s = some c) :
    (∃ a t, s = a :: t ∧ isDigit a = true) ∧ (∃ pre a b, s = pre ++ [a, b] ∧ isDigit b = true) := by
  simp only [parsePrimary, Option.bind_eq_bind, Option.bind_eq_some_iff] at h
  obtain ⟨⟨y, s1⟩, h1, s2, h2, ⟨mo, s3⟩, h3, s4, h4, ⟨d, s5⟩, h5, s6, h6, ⟨hh, s7⟩, h7, s8, h8, ⟨mi, s9⟩, h9, h10⟩ := h
  obtain ⟨a, b, c', d', hs, hda⟩ := num4_some h1
  refine ⟨⟨a, _, hs, hda⟩, ?_⟩
  have he : s9 = [] := by
    by_cases hemp : s9.isEmpty
    · simpa using hemp
    · simp [hemp] at h10
  obtain ⟨x, z, hs8, hdz⟩ := num2_some h9
  rw [he] at hs8
  -- s8 is a suffix of s
  have suf : s8 <:+ s := by
    have e1 : s1 <:+ s := ⟨[a, b, c', d'], by rw [hs]; rfl⟩
    have e2 := expect_suffix h2
    obtain ⟨_, _, e3, _⟩ := num2_some h3
    have e3' : s3 <:+ s2 := ⟨[_, _], by rw [e3]; rfl⟩
    have e4 := expect_suffix h4
    obtain ⟨_, _, e5, _⟩ := num2_some h5
    have e5' : s5 <:+ s4 := ⟨[_, _], by rw [e5]; rfl⟩
    have e6 := skipSpaces_suffix h6
    have e7 := num12_suffix h7
    have e8 := expect_suffix h8
    exact e8.trans (e7.trans (e6.trans (e5'.trans (e4.trans (e3'.trans (e2.trans e1))))))
  obtain ⟨pre, hpre⟩ := suf
  exact ⟨pre, x, z, by rw [← hpre, hs8], hdz⟩

theorem parsePrimary_trimmed {s : Bytes} {c : Civil} (h : parsePrimary s = some c) : trimString s = s := by
  obtain ⟨⟨a, t, hs, hda⟩, ⟨pre, x, z, hs2, hdz⟩⟩ := parsePrimary_shape h
  apply trimWith_id
  · intro b hb; rw [hs] at hb; simp at hb; subst hb; exact digit_not_space hda
  · intro b hb; rw [hs2] at hb; simp at hb; subst hb; exact digit_not_space hdz

end Wl2k.Msg

namespace Wl2k.Msg
open Wl2k Wl2k.Fmt

theorem digit_facts_aux : ∀ m, m < 10 → isDigit (UInt8.ofNat (48 + m)) = true ∧ dval (UInt8.ofNat (48 + m)) = m ∧
    (UInt8.ofNat (48 + m) == 32) = false := by decide

theorem isDigit_digit (n : Nat) : isDigit (digit n) = true := (digit_facts_aux (n % 10) (Nat.mod_lt _ (by decide))).1
theorem dval_digit (n : Nat) : dval (digit n) = n % 10 := (digit_facts_aux (n % 10) (Nat.mod_lt _ (by decide))).2.1
theorem digit_ne_space (n : Nat) : (digit n == 32) = false := (digit_facts_aux (n % 10) (Nat.mod_lt _ (by decide))).2.2

theorem fixed2 (x : Nat) : fixed 2 x = [digit (x / 10), digit x] := by simp [fixed]
theorem fixed4 (x : Nat) : fixed 4 x = [digit (x / 10 / 10 / 10), digit (x / 10 / 10), digit (x / 10), digit x] := by simp [fixed]

theorem num2_fixed (x : Nat) (r : Bytes) (h : x < 100) : num2 (fixed 2 x ++ r) = some (x, r) := by
  simp only [fixed2, List.cons_append, List.nil_append, num2, isDigit_digit, dval_digit, Bool.and_self, if_true]
  congr 2; omega

theorem num12_fixed (x : Nat) (r : Bytes) (h : x < 100) : num12 (fixed 2 x ++ r) = some (x, r) := by
  simp only [fixed2, List.cons_append, List.nil_append, num12, isDigit_digit, dval_digit, if_true]
  congr 2; omega

theorem num4_fixed (x : Nat) (r : Bytes) (h : x ≤ 9999) : num4 (fixed 4 x ++ r) = some (x, r) := by
  simp only [fixed4, List.cons_append, List.nil_append, num4, isDigit_digit, dval_digit, Bool.and_self, if_true]
  congr 2; omega

theorem daysIn_le (mo y : Nat) : daysIn mo y ≤ 31 := by
  unfold daysIn; split <;> (try split) <;> (try split) <;> omega

/-- **Date round trip**: the text written by `SetDate` parses back (primary layout) to the same civil minute. -/
theorem parse_format (c : Civil) (h : c.valid = true) : parsePrimary (formatDate c) = some c := by
  simp only [Civil.valid, Bool.and_eq_true, decide_eq_true_eq] at h
  obtain ⟨⟨⟨⟨⟨⟨hy, hmo1⟩, hmo2⟩, hd1⟩, hd2⟩, hh⟩, hmi⟩ := h
  have hd3 := daysIn_le c.mo c.y
  have e : formatDate c = fixed 4 c.y ++ (47 :: (fixed 2 c.mo ++ (47 :: (fixed 2 c.d ++ (32 :: (fixed 2 c.h ++ (58 :: (fixed 2 c.mi ++ [])))))))) := by
    simp [formatDate]
  rw [e]
  simp only [parsePrimary, Option.bind_eq_bind, num4_fixed _ _ hy, Option.bind_some, expect, if_true,
    num2_fixed _ _ (show c.mo < 100 by omega), num2_fixed _ _ (show c.d < 100 by omega), skipSpaces,
    num2_fixed _ _ (show c.mi < 100 by omega)]
  have hsk : List.dropWhile (fun x => x == 32) (fixed 2 c.h ++ 58 :: (fixed 2 c.mi ++ [])) = fixed 2 c.h ++ 58 :: (fixed 2 c.mi ++ []) := by
    simp [fixed2, List.dropWhile_cons, digit_ne_space]
  simp only [hsk, num12_fixed _ _ (show c.h < 100 by omega), Option.bind_some, expect, if_true,
    num2_fixed _ _ (show c.mi < 100 by omega)]
  simp [hmo1, hmo2, hd1, hd2, hh, hmi]

end Wl2k.Msg
