import Wl2kVerif.Telnet.Login
namespace Wl2k.Telnet
open Wl2k Wl2k.Str

theorem flat_nil : flat [] = [] := rfl
theorem flat_cons (t : Nat) (c : Bytes) (cs : Chunks) : flat ((t, c) :: cs) = c ++ flat cs := by
  simp [flat]

/-! ### splitCR -/

theorem splitCR_some : ∀ {s l r : Bytes}, splitCR s = some (l, r) →
    ∃ x, l = x ++ [13] ∧ (13 : UInt8) ∉ x ∧ s = l ++ r
  | [], l, r, h => by simp [splitCR] at h
  | b :: t, l, r, h => by
    simp only [splitCR] at h
    split at h
    · next hb =>
      simp only [Option.some.injEq, Prod.mk.injEq] at h
      obtain ⟨rfl, rfl⟩ := h
      exact ⟨[], by simp, by simp, by simp [hb]⟩
    · next hb =>
      split at h
      · next l' r' hs =>
        simp only [Option.some.injEq, Prod.mk.injEq] at h
        obtain ⟨rfl, rfl⟩ := h
        obtain ⟨x, hx, hn, ht⟩ := splitCR_some hs
        refine ⟨b :: x, by simp [hx], ?_, by simp [ht]⟩
        simp only [List.mem_cons, not_or]
        exact ⟨fun e => hb e.symm, hn⟩
      · simp at h

theorem splitCR_none : ∀ {s : Bytes}, splitCR s = none → (13 : UInt8) ∉ s
  | [], _ => by simp
  | b :: t, h => by
    simp only [splitCR] at h
    split at h
    · simp at h
    · next hb =>
      split at h
      · simp at h
      · next hs =>
        simp only [List.mem_cons, not_or]
        exact ⟨fun e => hb e.symm, splitCR_none hs⟩

/-- The first CR of a byte string is where it is. -/
theorem first_cr_unique : ∀ {x y r1 r2 : Bytes}, (13 : UInt8) ∉ x → (13 : UInt8) ∉ y →
    x ++ 13 :: r1 = y ++ 13 :: r2 → x = y ∧ r1 = r2
  | [], [], _, _, _, _, h => by simpa using h
  | [], b :: y, _, _, _, hy, h => by
    simp only [List.nil_append, List.cons_append, List.cons.injEq] at h
    exact absurd (by simp [h.1]) hy
  | a :: x, [], _, _, hx, _, h => by
    simp only [List.nil_append, List.cons_append, List.cons.injEq] at h
    exact absurd (by simp [h.1]) hx
  | a :: x, b :: y, r1, r2, hx, hy, h => by
    simp only [List.cons_append, List.cons.injEq] at h
    simp only [List.mem_cons, not_or] at hx hy
    obtain ⟨e1, e2⟩ := first_cr_unique hx.2 hy.2 h.2
    exact ⟨by rw [h.1, e1], e2⟩

/-! ### recv -/

theorem due_max {D : Option Nat} {a b : Nat} (ha : due D a = false) (hb : due D b = false) :
    due D (max a b) = false := by
  cases D with
  | none => rfl
  | some d =>
    simp only [due, decide_eq_false_iff_not, Nat.not_le] at *
    omega

theorem recv_data {D : Option Nat} {now cap : Nat} {close : Option Nat} (hcap : 0 < cap) :
    ∀ {cs : Chunks} {now' : Nat} {bs : Bytes} {rest : Chunks},
      recv D now cap close cs = .data now' bs rest →
      bs ≠ [] ∧ bs.length ≤ cap ∧ bs ++ flat rest = flat cs ∧ now ≤ now' ∧ due D now' = false ∧
      (∀ P : Nat → Prop, (∀ p ∈ cs, P p.1) → ∀ p ∈ rest, P p.1)
  | [], _, _, _, h => by
    simp only [recv] at h
    repeat' split at h
    all_goals simp at h
  | (t, c) :: cs, now', bs, rest, h => by
    simp only [recv] at h
    split at h
    · obtain ⟨h1, h2, h3, h4, h5, h6⟩ := recv_data hcap h
      next hc =>
      have hc' : c = [] := by simpa using hc
      refine ⟨h1, h2, by simp [h3, flat_cons, hc'], h4, h5, ?_⟩
      intro P hP p hp
      exact h6 P (fun q hq => hP q (by simp [hq])) p hp
    · next hc =>
      split at h
      · simp at h
      · next hd =>
        simp only [Recv.data.injEq] at h
        obtain ⟨rfl, rfl, rfl⟩ := h
        have hc' : c ≠ [] := by simpa using hc
        refine ⟨?_, by simp [List.length_take]; omega, ?_, Nat.le_max_left _ _, by simpa using hd, ?_⟩
        · intro e
          have := congrArg List.length e
          simp only [List.length_take, List.length_nil] at this
          have : 0 < c.length := List.length_pos_iff.mpr hc'
          omega
        · split
          · next hl => simp [flat_cons, List.take_of_length_le hl]
          · simp [flat_cons, ← List.append_assoc]
        · intro P hP p hp
          split at hp
          · exact hP p (by simp [hp])
          · simp only [List.mem_cons] at hp
            rcases hp with rfl | hp
            · exact hP (t, c) (by simp)
            · exact hP p (by simp [hp])

theorem recv_intime {D : Option Nat} {now cap : Nat} {close : Option Nat}
    (hnow : due D now = false) :
    ∀ {cs : Chunks}, (∀ p ∈ cs, due D p.1 = false) → flat cs ≠ [] →
      ∃ now' bs rest, recv D now cap close cs = .data now' bs rest
  | [], _, hne => absurd flat_nil hne
  | (t, c) :: cs, hin, hne => by
    simp only [recv]
    split
    · next hc =>
      have hc' : c = [] := by simpa using hc
      exact recv_intime hnow (fun p hp => hin p (by simp [hp])) (by simpa [flat_cons, hc'] using hne)
    · have := due_max hnow (hin (t, c) (by simp))
      simp only at this
      simp [this]

/-! ### readLine = bufio.Reader.ReadString('\r') -/

theorem bufSize_pos : 0 < bufSize := by decide

/-- Free space offered to `fill` is never zero. -/
theorem cap_pos (buf : Bytes) :
    0 < bufSize - (if decide (bufSize ≤ buf.length) = true then ([] : Bytes) else buf).length := by
  split
  · exact bufSize_pos
  · next h => simp only [decide_eq_true_eq, Nat.not_le] at h; omega

/-- Specification of a successful `ReadString`: the line is everything up to and including the first
CR, and NOTHING is lost or reordered: line ++ new buffer ++ rest of connection = what was there. -/
theorem readLineF_ok {D close : Option Nat} : ∀ (f : Nat) (acc : Bytes) (r : Rd) {line : Bytes} {r' : Rd},
    readLineF D close f acc r = .ok line r' →
    ∃ x, line = acc ++ x ++ [13] ∧ (13 : UInt8) ∉ x ∧
      acc ++ r.stream = line ++ r'.stream ∧ r.now ≤ r'.now ∧
      (due D r.now = false → due D r'.now = false) ∧
      (∀ P : Nat → Prop, (∀ p ∈ r.chunks, P p.1) → ∀ p ∈ r'.chunks, P p.1)
  | 0, _, _, _, _, h => by simp [readLineF] at h
  | f + 1, acc, r, line, r', h => by
    simp only [readLineF] at h
    split at h
    · next l rest hs =>
      simp only [RL.ok.injEq] at h
      obtain ⟨rfl, rfl⟩ := h
      obtain ⟨x, hx, hn, hb⟩ := splitCR_some hs
      refine ⟨x, by simp [hx], hn, by simp [Rd.stream, hb], Nat.le_refl _, id, fun _ hP => hP⟩
    · next hs =>
      have hnb := splitCR_none hs
      split at h
      · next now bs rest hr =>
        obtain ⟨_, _, hcons, hnow, hdue, hP⟩ := recv_data (cap_pos r.buf) hr
        obtain ⟨x, hx, hn, hst, hnow', hdd, hP'⟩ := readLineF_ok f _ _ h
        simp only [Rd.stream] at hst ⊢
        by_cases hfull : bufSize ≤ r.buf.length
        · simp only [hfull, decide_true, if_true, List.nil_append] at hx hst
          refine ⟨r.buf ++ x, by simp [hx], ?_, ?_, Nat.le_trans hnow hnow', fun _ => ?_, fun P h0 => hP' P (hP P h0)⟩
          · simp only [List.mem_append, not_or]; exact ⟨hnb, hn⟩
          · rw [← hst, ← hcons]; simp
          · exact hdd hdue
        · simp only [hfull, decide_false, if_false, Bool.false_eq_true] at hx hst
          obtain ⟨y, hy, hny, hst2⟩ : ∃ y, line = acc ++ y ++ [13] ∧ (13 : UInt8) ∉ y ∧
              acc ++ (r.buf ++ flat r.chunks) = line ++ (r'.buf ++ flat r'.chunks) := by
            refine ⟨x, hx, hn, ?_⟩
            rw [← hst, ← hcons]; simp
          refine ⟨y, hy, hny, hst2, Nat.le_trans hnow hnow', fun _ => ?_, fun P h0 => hP' P (hP P h0)⟩
          exact hdd hdue
      · simp at h
      · simp at h

theorem readLineF_nofuel {D close : Option Nat} : ∀ (f : Nat) (acc : Bytes) (r : Rd),
    (flat r.chunks).length < f → readLineF D close f acc r ≠ .fuel
  | 0, _, _, h => by omega
  | f + 1, acc, r, h => by
    simp only [readLineF]
    split
    · simp
    · split
      · next now bs rest hr =>
        obtain ⟨hne, _, hcons, _⟩ := recv_data (cap_pos r.buf) hr
        apply readLineF_nofuel
        have := congrArg List.length hcons
        simp only [List.length_append] at this
        have : 0 < bs.length := List.length_pos_iff.mpr hne
        simp only
        omega
      · simp
      · simp

/-- If a CR is still to come and every chunk arrives before the deadline, `ReadString` succeeds. -/
theorem readLineF_total {D close : Option Nat} : ∀ (f : Nat) (acc : Bytes) (r : Rd),
    (flat r.chunks).length < f → due D r.now = false → (∀ p ∈ r.chunks, due D p.1 = false) →
    (13 : UInt8) ∈ r.stream → ∃ line r', readLineF D close f acc r = .ok line r'
  | 0, _, _, h, _, _, _ => by omega
  | f + 1, acc, r, h, hnow, hin, hcr => by
    simp only [readLineF]
    split
    · exact ⟨_, _, rfl⟩
    · next hs =>
      have hnb := splitCR_none hs
      have hcr' : (13 : UInt8) ∈ flat r.chunks := by
        simp only [Rd.stream, List.mem_append] at hcr
        exact hcr.resolve_left hnb
      have hne : flat r.chunks ≠ [] := by intro e; simp [e] at hcr'
      obtain ⟨now', bs, rest, hr⟩ := recv_intime (cap := bufSize - (if decide (bufSize ≤ r.buf.length) = true then ([] : Bytes) else r.buf).length) (close := close) hnow hin hne
      simp only [hr]
      obtain ⟨hbne, _, hcons, _, hdue, hP⟩ := recv_data (cap_pos r.buf) hr
      apply readLineF_total
      · have := congrArg List.length hcons
        simp only [List.length_append] at this
        have : 0 < bs.length := List.length_pos_iff.mpr hbne
        simp only
        omega
      · exact hdue
      · exact hP (fun t => due D t = false) hin
      · simp only [Rd.stream, List.append_assoc, hcons]
        simp [hcr']

theorem recv_fail_le {close : Option Nat} {d now cap : Nat} (hnow : now ≤ d) {e : IOErr} {t : Nat} :
    ∀ (cs : Chunks), recv (some d) now cap close cs = .fail e t → t ≤ d := by
  intro cs
  induction cs with
  | nil =>
    simp only [recv]
    cases close with
    | none => simp only [Recv.fail.injEq, and_imp]; intro _ ht; omega
    | some tc =>
      simp only [due, failTime]
      by_cases hd : d ≤ max now tc
      · simp only [hd, decide_true, if_true, Recv.fail.injEq, and_imp]; intro _ ht; omega
      · simp only [hd, decide_false, Bool.false_eq_true, if_false, Recv.fail.injEq, and_imp]; intro _ ht; omega
  | cons p cs ih =>
    obtain ⟨tc, c⟩ := p
    simp only [recv]
    split
    · exact ih
    · split
      · simp only [failTime, Recv.fail.injEq, and_imp]; intro _ ht; omega
      · simp

theorem recv_no_hang {close : Option Nat} {d now cap : Nat} :
    ∀ (cs : Chunks), recv (some d) now cap close cs ≠ .hang := by
  intro cs
  induction cs with
  | nil => simp only [recv]; cases close <;> simp <;> split <;> simp
  | cons p cs ih =>
    obtain ⟨tc, c⟩ := p
    simp only [recv]
    split
    · exact ih
    · split <;> simp

/-- With a deadline `d` a `ReadString` started no later than `d` never hangs, and whatever it
returns it returns no later than `d`. -/
theorem readLineF_deadline {close : Option Nat} {d : Nat} : ∀ (f : Nat) (acc : Bytes) (r : Rd),
    r.now ≤ d →
    (∀ line r', readLineF (some d) close f acc r = .ok line r' → r'.now ≤ d) ∧
    (∀ e t, readLineF (some d) close f acc r = .fail e t → t ≤ d) ∧
    readLineF (some d) close f acc r ≠ .hang
  | 0, _, _, _ => by simp [readLineF]
  | f + 1, acc, r, h => by
    simp only [readLineF]
    split
    · refine ⟨?_, by simp, by simp⟩
      intro line r' e
      simp only [RL.ok.injEq] at e
      rw [← e.2]; exact h
    · split
      · next now bs rest hr =>
        obtain ⟨_, _, _, _, hdue, _⟩ := recv_data (cap_pos r.buf) hr
        apply readLineF_deadline
        simp only [due, decide_eq_false_iff_not, Nat.not_le] at hdue
        simp only; omega
      · next e t hr =>
        refine ⟨by simp, ?_, by simp⟩
        intro e' t' h'
        simp only [RL.fail.injEq] at h'
        rw [← h'.2]
        exact recv_fail_le h _ hr
      · next hr => exact absurd hr (recv_no_hang _)

/-- A login line as sent on the wire: CR-free text followed by one CR. -/
def Line (l : Bytes) : Prop := ∃ x, l = x ++ [13] ∧ (13 : UInt8) ∉ x

theorem Line.ne_nil {l : Bytes} (h : Line l) : l ≠ [] := by
  obtain ⟨x, rfl, _⟩ := h; simp

theorem line_of_text {x : Bytes} (h : (13 : UInt8) ∉ x) : Line (x ++ [13]) := ⟨x, rfl, h⟩

/-- `ReadString` on a stream that starts with a line returns exactly that line and leaves exactly
the rest (in buffer + connection), however the stream is chunked. -/
theorem readLine_line {D close : Option Nat} {r : Rd} {l rest : Bytes} (hl : Line l)
    (hs : r.stream = l ++ rest) (hnow : due D r.now = false)
    (hin : ∀ p ∈ r.chunks, due D p.1 = false) :
    ∃ r', readLine D close r = .ok l r' ∧ r'.stream = rest ∧ r.now ≤ r'.now ∧
      due D r'.now = false ∧ (∀ p ∈ r'.chunks, due D p.1 = false) := by
  obtain ⟨x, rfl, hx⟩ := hl
  have hcr : (13 : UInt8) ∈ r.stream := by rw [hs]; simp
  obtain ⟨line, r', hok⟩ := readLineF_total (D := D) (close := close) ((flat r.chunks).length + 1) [] r
    (Nat.lt_succ_self _) hnow hin hcr
  obtain ⟨y, hy, hny, hst, hn, hd, hP⟩ := readLineF_ok _ _ _ hok
  simp only [List.nil_append] at hy hst
  rw [hs, hy] at hst
  have := first_cr_unique hx hny (r1 := rest) (r2 := r'.stream) (by simpa using hst)
  refine ⟨r', ?_, this.2.symm, hn, hd hnow, hP (fun t => due D t = false) hin⟩
  simp only [readLine, hok, hy, this.1]

/-- The replies the login loop writes for a sequence of prompt lines (before the password prompt). -/
def replies (classify : Bytes → Kind) (call : Bytes) : List Bytes → List Bytes
  | [] => []
  | l :: t => (if classify l = .callsign then [call ++ [13]] else []) ++ replies classify call t

theorem clientLoop_lines (classify : Bytes → Kind) (D close : Option Nat) (call pw : Bytes) :
    ∀ (ls : List Bytes) (lp rest : Bytes) (f : Nat) (w : List Bytes) (r : Rd),
    (∀ l ∈ ls, Line l ∧ classify l ≠ .password) → Line lp → classify lp = .password →
    r.stream = ls.flatten ++ lp ++ rest → ls.length < f →
    due D r.now = false → (∀ p ∈ r.chunks, due D p.1 = false) →
    ∃ r', clientLoop classify D close call pw f w r =
        .done (w ++ replies classify call ls ++ [pw ++ [13]]) r' ∧
      r'.stream = rest ∧ due D r'.now = false
  | [], lp, rest, f, w, r, _, hlp, hcp, hs, hf, hnow, hin => by
    obtain ⟨f, rfl⟩ : ∃ g, f = g + 1 := ⟨f - 1, by omega⟩
    obtain ⟨r', hr, hst, _, hd, _⟩ := readLine_line (close := close) hlp (by simpa using hs) hnow hin
    exact ⟨r', by simp [clientLoop, hr, hcp, replies], hst, hd⟩
  | l :: ls, lp, rest, f, w, r, hls, hlp, hcp, hs, hf, hnow, hin => by
    obtain ⟨f, rfl⟩ : ∃ g, f = g + 1 := ⟨f - 1, by omega⟩
    have hl := hls l (by simp)
    obtain ⟨r', hr, hst, _, hd, hin'⟩ := readLine_line (close := close) (rest := ls.flatten ++ lp ++ rest) hl.1
      (by simpa using hs) hnow hin
    have ih := fun w' => clientLoop_lines classify D close call pw ls lp rest f w' r'
      (fun m hm => hls m (by simp [hm])) hlp hcp hst (by simp at hf; omega) hd hin'
    simp only [clientLoop, hr, replies]
    cases hk : classify l with
    | password => exact absurd hk hl.2
    | callsign =>
      obtain ⟨r'', h1, h2, h3⟩ := ih (w ++ [call ++ [13]])
      exact ⟨r'', by simp [h1], h2, h3⟩
    | other =>
      obtain ⟨r'', h1, h2, h3⟩ := ih w
      exact ⟨r'', by simp [h1], h2, h3⟩

theorem length_le_flatten : ∀ (ls : List Bytes), (∀ l ∈ ls, l ≠ []) → ls.length ≤ ls.flatten.length
  | [], _ => by simp
  | l :: ls, h => by
    have := length_le_flatten ls (fun m hm => h m (by simp [hm]))
    have : 0 < l.length := List.length_pos_iff.mpr (h l (by simp))
    simp only [List.length_cons, List.flatten_cons, List.length_append]
    omega

theorem readLine_shrinks {D close : Option Nat} {r r' : Rd} {line : Bytes}
    (h : readLine D close r = .ok line r') : r'.stream.length < r.stream.length := by
  obtain ⟨x, hx, _, hst, _⟩ := readLineF_ok _ _ _ h
  have := congrArg List.length hst
  simp only [List.nil_append, hx, List.length_append, List.length_cons, List.length_nil] at this
  omega

theorem readLine_nofuel {D close : Option Nat} (r : Rd) : readLine D close r ≠ .fuel :=
  readLineF_nofuel _ _ _ (Nat.lt_succ_self _)

/-- The fuel of the login loop suffices: each round consumes at least the CR. -/
theorem clientLoop_nofuel (classify : Bytes → Kind) (D close : Option Nat) (call pw : Bytes) :
    ∀ (f : Nat) (w : List Bytes) (r : Rd), r.stream.length < f →
      clientLoop classify D close call pw f w r ≠ .stop .fuel
  | 0, _, _, h => by omega
  | f + 1, w, r, h => by
    simp only [clientLoop]
    split
    · next line r' hr =>
      have := readLine_shrinks hr
      split
      · exact clientLoop_nofuel classify D close call pw f _ r' (by omega)
      · simp
      · exact clientLoop_nofuel classify D close call pw f _ r' (by omega)
    · simp
    · simp
    · next hr => exact absurd hr (readLine_nofuel r)

/-- With a deadline `d`: the loop started no later than `d` never hangs and ends no later than `d`. -/
theorem clientLoop_deadline (classify : Bytes → Kind) (close : Option Nat) (call pw : Bytes) (d : Nat) :
    ∀ (f : Nat) (w : List Bytes) (r : Rd), r.now ≤ d →
      (∀ w' r', clientLoop classify (some d) close call pw f w r = .done w' r' → r'.now ≤ d) ∧
      (∀ e w' t, clientLoop classify (some d) close call pw f w r = .stop (.fail e w' t) → t ≤ d) ∧
      (∀ w', clientLoop classify (some d) close call pw f w r ≠ .stop (.hang w')) ∧
      (∀ c w' t, clientLoop classify (some d) close call pw f w r ≠ .stop (.conn c w' t))
  | 0, _, _, _ => by simp [clientLoop]
  | f + 1, w, r, h => by
    obtain ⟨h1, h2, h3⟩ := readLineF_deadline (close := close) ((flat r.chunks).length + 1) [] r h
    simp only [clientLoop]
    split
    · next line r' hr =>
      have hn := h1 _ _ hr
      split
      · exact clientLoop_deadline classify close call pw d f _ r' hn
      · refine ⟨?_, by simp, by simp, by simp⟩
        intro w' r'' e
        simp only [Loop.done.injEq] at e
        rw [← e.2]; exact hn
      · exact clientLoop_deadline classify close call pw d f _ r' hn
    · next e t hr =>
      refine ⟨by simp, ?_, by simp, by simp⟩
      intro e' w' t' he
      simp only [Loop.stop.injEq, Dial.fail.injEq] at he
      rw [← he.2.2]; exact h2 _ _ hr
    · next hr => exact absurd hr h3
    · simp

/-! ### strings.TrimSpace (ASCII) facts used for RemoteCall -/

theorem dropWhile_snoc {p : UInt8 → Bool} {c : UInt8} (hc : p c = true) : ∀ (s : Bytes),
    (s ++ [c]).dropWhile p = if s.dropWhile p = [] then [] else s.dropWhile p ++ [c]
  | [] => by simp [List.dropWhile, hc]
  | a :: t => by
    by_cases ha : p a = true
    · simp only [List.cons_append, List.dropWhile_cons, ha, if_true]
      exact dropWhile_snoc hc t
    · simp [List.dropWhile_cons, ha]

/-- The CR that ends the callsign line is white space and is trimmed with it. -/
theorem trimSpace_snoc {c : UInt8} (hc : isSpace c = true) (s : Bytes) :
    trimSpace (s ++ [c]) = trimSpace s := by
  simp only [trimSpace, dropWhile_snoc hc]
  split
  · next h => simp [h]
  · simp [List.dropWhile_cons, hc]

/-- A text that neither starts nor ends with white space is left alone. -/
theorem trimSpace_clean (s : Bytes) (h1 : ∀ a, s.head? = some a → isSpace a = false)
    (h2 : ∀ a, s.getLast? = some a → isSpace a = false) : trimSpace s = s := by
  cases s with
  | nil => rfl
  | cons a t =>
    have ha := h1 a rfl
    have e1 : (a :: t).dropWhile isSpace = a :: t := by simp [ha]
    simp only [trimSpace, e1]
    cases hr : (a :: t).reverse with
    | nil => simp at hr
    | cons b u =>
      have hs : a :: t = u.reverse ++ [b] := by
        have := congrArg List.reverse hr
        simpa using this
      have hb := h2 b (by rw [hs]; simp)
      simp [hb, hs]

/-! ### Conn.Read after login -/

theorem Conn.read_stream {n : Nat} (hn : 0 < n) (c : Conn) :
    (c.read n).1 ++ (c.read n).2.stream = c.stream := by
  unfold Conn.read
  by_cases hd : c.drains = true
  · simp only [hd, if_true]
    by_cases hb : c.buf.isEmpty = true
    · simp only [hb, if_true]
      have hb' : c.buf = [] := by simpa using hb
      split
      · next now bs rest hr =>
        have hcap : 0 < (if bufSize ≤ n then n else bufSize) := by split <;> simp_all [bufSize]
        obtain ⟨_, _, hcons, _⟩ := recv_data hcap hr
        simp only [Conn.stream, hd, if_true, hb', List.nil_append, ← hcons]
        rw [← List.append_assoc, List.take_append_drop]
      · simp
    · simp only [hb, Bool.false_eq_true, if_false, Conn.stream, hd, if_true]
      rw [← List.append_assoc, List.take_append_drop]
  · simp only [hd, Bool.false_eq_true, if_false]
    split
    · next now bs rest hr =>
      obtain ⟨_, _, hcons, _⟩ := recv_data hn hr
      simp [Conn.stream, hd, hcons]
    · simp

/-- A read on a connection that still has something to deliver returns at least one byte. -/
theorem Conn.read_progress {n : Nat} (hn : 0 < n) (c : Conn) (hd : c.drains = true)
    (hs : c.stream ≠ []) : (c.read n).1 ≠ [] := by
  unfold Conn.read
  simp only [hd, if_true]
  by_cases hb : c.buf.isEmpty = true
  · simp only [hb, if_true]
    have hb' : c.buf = [] := by simpa using hb
    have hne : flat c.chunks ≠ [] := by simpa [Conn.stream, hd, hb'] using hs
    obtain ⟨now', bs, rest, hr⟩ := recv_intime (D := none) (now := 0)
      (cap := if bufSize ≤ n then n else bufSize) (close := none) rfl (fun _ _ => rfl) hne
    have hcap : 0 < (if bufSize ≤ n then n else bufSize) := by split <;> simp_all [bufSize]
    obtain ⟨hbs, _⟩ := recv_data hcap hr
    simp only [hr]
    intro e
    have h0 : (bs.take n).length = 0 := by simp [e]
    have : 0 < bs.length := List.length_pos_iff.mpr hbs
    simp only [List.length_take] at h0
    omega
  · simp only [hb, Bool.false_eq_true, if_false]
    have : c.buf ≠ [] := by simpa using hb
    intro e
    have h0 : (c.buf.take n).length = 0 := by simp [e]
    have : 0 < c.buf.length := List.length_pos_iff.mpr this
    simp only [List.length_take] at h0
    omega

/-- A sequence of `Read` calls with arbitrary buffer sizes. -/
def Conn.readMany : List Nat → Conn → Bytes × Conn
  | [], c => ([], c)
  | n :: ns, c =>
    let (a, c1) := c.read n
    let (b, c2) := Conn.readMany ns c1
    (a ++ b, c2)

theorem Conn.readMany_stream : ∀ (ns : List Nat) (c : Conn), (∀ n ∈ ns, 0 < n) →
    (Conn.readMany ns c).1 ++ (Conn.readMany ns c).2.stream = c.stream
  | [], c, _ => by simp [Conn.readMany]
  | n :: ns, c, h => by
    have h1 := Conn.read_stream (h n (by simp)) c
    have h2 := Conn.readMany_stream ns (c.read n).2 (fun m hm => h m (by simp [hm]))
    simp only [Conn.readMany]
    rw [← h1, ← h2]
    simp

end Wl2k.Telnet
