import Wl2kVerif.Proofs.Huff2
/-
The root-to-leaf walk of `decodeChar` on a well-formed tree: total for every bit source.
-/
namespace Wl2k.Lzhuf

theorem Reader.readByte_h (d : Reader) : d.readByte.1.h = d.h := by
  unfold Reader.readByte; split
  · rfl
  · split <;> rfl

/-- the buffer-refill half of `readBits` -/
def Reader.refill (d : Reader) (bits : Nat) : Reader × Bool :=
  if bits > d.bbits then
    match d.readByte with
    | (d, some b) => ({ d with bn := (d.bn <<< 8) ||| b.toUInt64, bbits := d.bbits + 8 }, true)
    | (d, none) => ({ d with berr := true }, false)
  else (d, true)

theorem Reader.readBits_eq (d : Reader) (bits : Nat) :
    d.readBits bits =
      if !(d.refill bits).2 then ((d.refill bits).1, 0)
      else
        ({ (d.refill bits).1 with bbits := (d.refill bits).1.bbits - bits },
         (((d.refill bits).1.bn >>> (UInt64.ofNat ((d.refill bits).1.bbits - bits))) &&&
            ((1 <<< (UInt64.ofNat bits)) - 1)).toNat) := rfl

theorem Reader.refill_h (d : Reader) (n : Nat) : (d.refill n).1.h = d.h := by
  unfold Reader.refill
  split
  · have := Reader.readByte_h d
    split <;> (rename_i heq; rw [heq] at this; exact this)
  · rfl

theorem Reader.readBits_h (d : Reader) (n : Nat) : (d.readBits n).1.h = d.h := by
  rw [Reader.readBits_eq]
  split <;> exact Reader.refill_h d n

theorem Reader.readBits_one_le (d : Reader) : (d.readBits 1).2 ≤ 1 := by
  rw [Reader.readBits_eq]
  split
  · exact Nat.zero_le _
  · show (_ &&& ((1 <<< (UInt64.ofNat 1)) - 1)).toNat ≤ 1
    rw [UInt64.toNat_and]
    exact Nat.and_le_right

/-- `n` successive `ReadBits(1)` calls: the reader afterwards and the bits obtained (0 after EOF). -/
def Reader.takeBits (d : Reader) : Nat → Reader × List Nat
  | 0 => (d, [])
  | n + 1 => ((Reader.takeBits (d.readBits 1).1 n).1, (d.readBits 1).2 :: (Reader.takeBits (d.readBits 1).1 n).2)

theorem Reader.takeBits_h (d : Reader) (n : Nat) : (d.takeBits n).1.h = d.h := by
  induction n generalizing d with
  | zero => rfl
  | succ n ih => simp only [Reader.takeBits]; rw [ih, Reader.readBits_h]

theorem Reader.takeBits_length (d : Reader) (n : Nat) : (d.takeBits n).2.length = n := by
  induction n generalizing d with
  | zero => rfl
  | succ n ih => simp only [Reader.takeBits, List.length_cons, ih]

theorem Reader.takeBits_le (d : Reader) (n : Nat) : ∀ b ∈ (d.takeBits n).2, b ≤ 1 := by
  induction n generalizing d with
  | zero => intro b hb; simp [Reader.takeBits] at hb
  | succ n ih =>
    intro b hb
    simp only [Reader.takeBits, List.mem_cons] at hb
    rcases hb with e | e
    · rw [e]; exact Reader.readBits_one_le d
    · exact ih _ b e

theorem Reader.walk_succ (d : Reader) (c fuel : Nat) (hc : c < T)
    (hin : c + (d.readBits 1).2 < d.h.son.size) :
    d.walk c (fuel + 1) = (d.readBits 1).1.walk (rd d.h.son (c + (d.readBits 1).2)) fuel := by
  rw [Reader.walk]
  simp only [hc, if_true]
  have e : (d.readBits 1).1.h = d.h := Reader.readBits_h d 1
  generalize d.readBits 1 = p at *
  obtain ⟨dd, b⟩ := p
  simp only at *
  have hin' : decide (c + b < dd.h.son.size) = true := by rw [e]; simpa using hin
  rw [Huff.chk_of _ _ hin']
  show dd.walk (rd dd.h.son (c + b)) fuel = _
  rw [e]

/-- **The root-to-leaf walk is total on a well-formed tree, for any bit source**: it performs `n < T`
single-bit reads (and nothing else), leaves the Huffman state untouched — no index out of range, no fuel
exhaustion — and ends at a leaf pointer `T ≤ c < T + NCHAR`. -/
theorem Reader.walk_total_aux : ∀ (fuel : Nat) (d : Reader) (c : Nat), HuffS d.h →
    (c < T → c + 1 < T ∧ c + 2 ≤ fuel) → (T ≤ c → c < T + NCHAR ∧ 1 ≤ fuel) →
    ∃ n, n ≤ c + 1 ∧ (c < T ∨ n = 0) ∧ (d.walk c fuel).1 = (d.takeBits n).1 ∧
      T ≤ (d.walk c fuel).2 ∧ (d.walk c fuel).2 < T + NCHAR := by
  intro fuel
  induction fuel with
  | zero =>
    intro d c s h1 h2
    by_cases hc : c < T
    · have := h1 hc; omega
    · have := h2 (by omega); omega
  | succ fuel ih =>
    intro d c s h1 h2
    by_cases hc : c < T
    · have ⟨a1, a2⟩ := h1 hc
      have hb := Reader.readBits_one_le d
      have e : (d.readBits 1).1.h = d.h := Reader.readBits_h d 1
      rw [Reader.walk_succ d c fuel hc (by rw [s.sz_son]; omega)]
      generalize hc' : rd d.h.son (c + (d.readBits 1).2) = c'
      have hlt : c + (d.readBits 1).2 < T := by omega
      have ⟨n, b1, b2, b3, b4, b5⟩ := ih (d.readBits 1).1 c' (by rw [e]; exact s)
        (by intro h'; have := s.son_int _ hlt (by rw [hc']; exact h'); rw [hc'] at this; omega)
        (by intro h'; have := s.son_leaf _ hlt (by rw [hc']; exact h'); rw [hc'] at this; omega)
      refine ⟨n + 1, ?_, Or.inl hc, ?_, b4, b5⟩
      · rcases b2 with b2 | b2
        · have := s.son_int _ hlt (by rw [hc']; exact b2); rw [hc'] at this; omega
        · omega
      · rw [b3]; rfl
    · refine ⟨0, by omega, Or.inr rfl, ?_, ?_, ?_⟩ <;> rw [Reader.walk] <;> simp only [hc, if_false]
      · rfl
      · omega
      · exact (h2 (by omega)).1

theorem Reader.walk_total (d : Reader) (s : HuffS d.h) :
    ∃ n, n < T ∧ (d.walk (rd d.h.son R) (T + 1)).1 = (d.takeBits n).1 ∧
      T ≤ (d.walk (rd d.h.son R) (T + 1)).2 ∧ (d.walk (rd d.h.son R) (T + 1)).2 < T + NCHAR := by
  have r := s.son_root
  have q := s.son_int R (by simp [R_eq, T_eq]) r
  have ⟨n, a1, _, a3, a4, a5⟩ := Reader.walk_total_aux (T + 1) d (rd d.h.son R) s
    (by intro _; simp only [R_eq, T_eq] at *; omega) (by intro h; omega)
  exact ⟨n, by simp only [R_eq, T_eq] at *; omega, a3, a4, a5⟩

end Wl2k.Lzhuf
