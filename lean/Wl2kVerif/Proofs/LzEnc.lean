import Wl2kVerif.Proofs.LzTree
/-
C06 — encoder side, Huffman/bit part.  `tokensOf crc16 x` is the token list the compressor emits for the
input `x`: a ghost that runs the same `Writer` and records (literal byte | matchLength, matchPosition) at
every call of `encode`.  Main result `compress_bits`: the body of `compress crc16 x` spells exactly
`encTokens Huff.init (tokensOf crc16 x)` padded with fewer than 8 zero bits, every token is well-formed, and
the header is CRC/size.
-/
namespace Wl2k.Lzhuf
open Wl2k.Bits

/-! ### the ghost: tokens emitted -/

/-- the token `encode()` emits in state `w` (none when the look-ahead is empty) -/
def Writer.encodeTok (w : Writer) : Option Token :=
  if w.len = 0 then none
  else
    let ml := if w.z.matchLength > w.len then w.len else w.z.matchLength
    if ml ≤ THRESHOLD then some (.lit (w.z.tb w.r)) else some (.mat ml w.z.matchPosition)

/-- the state of `advance(c)` just before `if lastMatchLength == 0 { encode() }` -/
def Writer.preEncode (w : Writer) (c : Option UInt8) : Writer :=
  let w := match c with
    | some b =>
      let tbuf := w.z.textBuf.setIfInBounds w.s b
      let tbuf := if w.s < F - 1 then tbuf.setIfInBounds (w.s + N) b else tbuf
      { w with z := { w.z with textBuf := tbuf }, len := w.len + 1 }
    | none => w
  let w := { w with z := insertNode w.z w.r }
  { w with lastMatchLength := w.lastMatchLength - 1 }

/-- the rest of `advance` after the optional `encode()` -/
def Writer.postEncode (w : Writer) : Writer :=
  let w := { w with z := deleteNode w.z w.s }
  { w with s := (w.s + 1) % N, r := (w.r + 1) % N, len := w.len - 1 }

/-- the middle of `advance` -/
def Writer.midEncode (w : Writer) : Writer := if w.lastMatchLength = 0 then w.encode else w

theorem Writer.advance_eq (w : Writer) (c : Option UInt8) :
    w.advance c = ((w.preEncode c).midEncode).postEncode := by
  cases c <;> rfl

/-- tokens emitted by one `advance` -/
def Writer.advanceTok (w : Writer) (c : Option UInt8) : List Token :=
  if (w.preEncode c).lastMatchLength = 0 then (w.preEncode c).encodeTok.toList else []

def Writer.writeByteTok (w : Writer) (b : UInt8) : List Token :=
  if !w.preFilled then [] else w.advanceTok (some b)

def Writer.writeTok (w : Writer) : Bytes → List Token
  | [] => []
  | b :: bs => w.writeByteTok b ++ (w.writeByte b).writeTok bs

def Writer.drainTok (w : Writer) : Nat → List Token
  | 0 => []
  | fuel + 1 => if w.len > 0 then w.advanceTok none ++ (w.advance none).drainTok fuel else []

/-- **the tokens the compressor emits for `x`** -/
def tokensOf (crc16 : Bool) (x : Bytes) : List Token :=
  (Writer.new crc16).writeTok x ++ ((Writer.new crc16).write x).drainTok (F + 1) ++
    (((Writer.new crc16).write x).drain (F + 1)).encodeTok.toList

/-! ### frames -/

theorem encodeChar_frame (w : Writer) (c : Nat) :
    (w.encodeChar c).z = w.z ∧ (w.encodeChar c).len = w.len ∧ (w.encodeChar c).r = w.r ∧
    (w.encodeChar c).s = w.s ∧ (w.encodeChar c).lastMatchLength = w.lastMatchLength ∧
    (w.encodeChar c).preFilled = w.preFilled ∧ (w.encodeChar c).fileSize = w.fileSize ∧
    (w.encodeChar c).crc16 = w.crc16 := by
  rw [Writer.encodeChar_eq]
  generalize codeWalk64 w.h.prnt (rd w.h.prnt (c + T)) 0 0 (T + 1) = p
  obtain ⟨a1, a2, a3, a4, a5, a6, a7, a8, a9⟩ := putPieces_frame (p.2 + 1) w p.1 p.2
  exact ⟨a1, a3, a4, a5, a6, a7, a8, a9⟩

theorem encodePosition_frame (w : Writer) (c : Nat) : sameRest w (w.encodePosition c) := by
  unfold Writer.encodePosition
  exact sameRest_trans (putCode_frame _ _ _) (putCode_frame _ _ _)

/-- the symbol-level effect of `encodeChar` on a well-formed Huffman state -/
theorem encodeChar_code (w : Writer) (c : Nat) (hc : c < NCHAR) (wf : HuffWF w.h) (inv : BitsInv w) :
    bitsOf (w.encodeChar c) = bitsOf w ++ codeBits w.h c ∧ BitsInv (w.encodeChar c) ∧
    (w.encodeChar c).h = update w.h c := by
  have cw := codeWalk64_code wf c hc
  have enc := encodeChar_bits w c inv (by omega)
  rw [cw.2.2] at enc
  exact ⟨enc.1, enc.2, Writer.encodeChar_h w c⟩

end Wl2k.Lzhuf

namespace Wl2k.Lzhuf
open Wl2k.Bits

/-! ### `encode` in a compact form -/

def Writer.setML (w : Writer) (ml : Nat) : Writer := { w with z := { w.z with matchLength := ml } }
def Writer.setLast (w : Writer) (l : Int) : Writer := { w with lastMatchLength := l }
/-- the match length `encode` uses: clamped to the look-ahead -/
def Writer.ml (w : Writer) : Nat := if w.z.matchLength > w.len then w.len else w.z.matchLength

theorem Writer.encode_eq (w : Writer) :
    w.encode = if w.len = 0 then w
      else if w.ml ≤ THRESHOLD then ((w.setML 1).encodeChar (w.z.tb w.r).toNat).setLast 1
      else ((((w.setML w.ml).encodeChar (255 - THRESHOLD + w.ml)).encodePosition
              ((w.setML w.ml).encodeChar (255 - THRESHOLD + w.ml)).z.matchPosition).setLast w.ml) := by
  unfold Writer.encode Writer.ml
  split
  · rfl
  · dsimp only
    split <;> rfl

theorem Writer.encodeTok_eq (w : Writer) :
    w.encodeTok = if w.len = 0 then none
      else if w.ml ≤ THRESHOLD then some (.lit (w.z.tb w.r)) else some (.mat w.ml w.z.matchPosition) := rfl

theorem Writer.ml_le (w : Writer) : w.ml ≤ w.z.matchLength ∧ w.ml ≤ w.len := by
  unfold Writer.ml; split <;> omega
/-! ### what `encode` does to the bookkeeping fields -/

theorem encode_shape (w : Writer) :
    SameArr w.z w.encode.z ∧ w.encode.z.matchPosition = w.z.matchPosition ∧ w.encode.len = w.len ∧
    w.encode.r = w.r ∧ w.encode.s = w.s ∧ w.encode.preFilled = w.preFilled ∧
    w.encode.fileSize = w.fileSize ∧ w.encode.crc16 = w.crc16 ∧
    w.encode.lastMatchLength = (match w.encodeTok with | none => w.lastMatchLength | some t => (t.len : Int)) := by
  rw [Writer.encode_eq, Writer.encodeTok_eq]
  by_cases h0 : w.len = 0
  · rw [if_pos h0, if_pos h0]
    exact ⟨SameArr.refl _, rfl, rfl, rfl, rfl, rfl, rfl, rfl, rfl⟩
  · rw [if_neg h0, if_neg h0]
    by_cases hml : w.ml ≤ THRESHOLD
    · rw [if_pos hml, if_pos hml]
      obtain ⟨a1, a2, a3, a4, a5, a6, a7, a8⟩ := encodeChar_frame (w.setML 1) (w.z.tb w.r).toNat
      generalize (w.setML 1).encodeChar (w.z.tb w.r).toNat = w2 at *
      show SameArr w.z w2.z ∧ w2.z.matchPosition = _ ∧ w2.len = _ ∧ w2.r = _ ∧ w2.s = _ ∧ w2.preFilled = _ ∧
        w2.fileSize = _ ∧ w2.crc16 = _ ∧ (1 : Int) = _
      rw [a1]
      exact ⟨⟨rfl, rfl, rfl, rfl⟩, rfl, a2, a3, a4, a6, a7, a8, rfl⟩
    · rw [if_neg hml, if_neg hml]
      obtain ⟨a1, a2, a3, a4, a5, a6, a7, a8⟩ := encodeChar_frame (w.setML w.ml) (255 - THRESHOLD + w.ml)
      generalize (w.setML w.ml).encodeChar (255 - THRESHOLD + w.ml) = w2 at *
      obtain ⟨b1, b2, b3, b4, b5, b6, b7, b8, b9⟩ := encodePosition_frame w2 w2.z.matchPosition
      generalize w2.encodePosition w2.z.matchPosition = w3 at *
      show SameArr w.z w3.z ∧ w3.z.matchPosition = _ ∧ w3.len = _ ∧ w3.r = _ ∧ w3.s = _ ∧ w3.preFilled = _ ∧
        w3.fileSize = _ ∧ w3.crc16 = _ ∧ (w.ml : Int) = _
      rw [b1, a1]
      exact ⟨⟨rfl, rfl, rfl, rfl⟩, rfl, b3.trans a2, b4.trans a3, b5.trans a4, b7.trans a6, b8.trans a7,
        b9.trans a8, rfl⟩

/-! ### the invariant of the bit/Huffman part -/

structure EncInv (w : Writer) (ts : List Token) : Prop where
  bits : bitsOf w = encTokens Huff.init ts
  h : w.h = (ts.map Token.sym).foldl update Huff.init
  wf : HuffWF w.h
  binv : BitsInv w
  ml : w.z.matchLength ≤ F
  mp : w.z.matchPosition < N
  ok : ∀ t ∈ ts, t.ok

theorem EncInv.frame {w w' : Writer} {ts : List Token} (i : EncInv w ts)
    (h1 : w'.out = w.out) (h2 : w'.putbuf = w.putbuf) (h3 : w'.putlen = w.putlen) (h4 : w'.h = w.h)
    (h5 : w'.z.matchLength ≤ F) (h6 : w'.z.matchPosition < N) : EncInv w' ts :=
  ⟨by rw [← i.bits]; unfold bitsOf; rw [h1, h2, h3], by rw [h4]; exact i.h, by rw [h4]; exact i.wf,
   ⟨by rw [h3]; exact i.binv.len_lt, by rw [h2, h3]; exact i.binv.low_zero⟩, h5, h6, i.ok⟩

theorem EncInv.snoc {w w' : Writer} {ts : List Token} (i : EncInv w ts) (t : Token) (ok : t.ok)
    (h1 : bitsOf w' = bitsOf w ++ tokBits w.h t) (h2 : BitsInv w') (h3 : w'.h = update w.h t.sym)
    (h5 : w'.z.matchLength ≤ F) (h6 : w'.z.matchPosition < N) : EncInv w' (ts ++ [t]) := by
  refine ⟨?_, ?_, ?_, h2, h5, h6, ?_⟩
  · rw [h1, encTokens_append, ← i.h, i.bits, encTokens, encTokens, List.append_nil]
  · rw [h3, List.map_append, List.foldl_append, ← i.h, List.map_cons, List.map_nil, List.foldl_cons, List.foldl_nil]
  · rw [h3]; exact update_preserves i.wf _ (t.sym_lt ok)
  · intro t' ht'
    rcases List.mem_append.mp ht' with h | h
    · exact i.ok t' h
    · rw [List.mem_singleton.mp h]; exact ok

theorem encode_inv (w : Writer) (ts : List Token) (i : EncInv w ts) :
    EncInv w.encode (ts ++ w.encodeTok.toList) := by
  have hml := i.ml
  have hmp := i.mp
  have hle := w.ml_le
  simp only [N_eq, F_eq] at hml hmp
  rw [Writer.encode_eq, Writer.encodeTok_eq]
  by_cases h0 : w.len = 0
  · rw [if_pos h0, if_pos h0]; simpa using i
  · rw [if_neg h0, if_neg h0]
    by_cases hc : w.ml ≤ THRESHOLD
    · rw [if_pos hc, if_pos hc]
      have hb := (w.z.tb w.r).toNat_lt
      obtain ⟨a1, a2, a3, a4, a5, a6, a7, a8⟩ := encodeChar_frame (w.setML 1) (w.z.tb w.r).toNat
      obtain ⟨c1, c2, c3⟩ := encodeChar_code (w.setML 1) (w.z.tb w.r).toNat
        (by simp only [NCHAR_eq]; omega) i.wf ⟨i.binv.len_lt, i.binv.low_zero⟩
      generalize (w.setML 1).encodeChar (w.z.tb w.r).toNat = w2 at *
      refine i.snoc (.lit (w.z.tb w.r)) trivial c1 ⟨c2.len_lt, c2.low_zero⟩ c3 ?_ ?_
      · show w2.z.matchLength ≤ F
        rw [a1]; show 1 ≤ F; decide
      · show w2.z.matchPosition < N
        rw [a1]; exact i.mp
    · rw [if_neg hc, if_neg hc]
      simp only [THRESHOLD_eq] at hc
      obtain ⟨a1, a2, a3, a4, a5, a6, a7, a8⟩ := encodeChar_frame (w.setML w.ml) (255 - THRESHOLD + w.ml)
      obtain ⟨c1, c2, c3⟩ := encodeChar_code (w.setML w.ml) (255 - THRESHOLD + w.ml)
        (by simp only [NCHAR_eq, THRESHOLD_eq]; omega) i.wf ⟨i.binv.len_lt, i.binv.low_zero⟩
      generalize (w.setML w.ml).encodeChar (255 - THRESHOLD + w.ml) = w2 at *
      have hpos : w2.z.matchPosition = w.z.matchPosition := by rw [a1]; rfl
      obtain ⟨p1, p2⟩ := encodePosition_posBits w2 w2.z.matchPosition c2 (by rw [hpos]; omega)
      obtain ⟨b1, b2, b3, b4, b5, b6, b7, b8, b9⟩ := encodePosition_frame w2 w2.z.matchPosition
      generalize w2.encodePosition w2.z.matchPosition = w3 at *
      refine i.snoc (.mat w.ml w.z.matchPosition)
        ⟨by simp only [THRESHOLD_eq]; omega, by simp only [F_eq]; omega, by omega⟩
        ?_ ⟨p2.len_lt, p2.low_zero⟩ ?_ ?_ ?_
      · show bitsOf w3 = _
        rw [p1, c1, tokBits, hpos, List.append_assoc]; rfl
      · show w3.h = _
        rw [b2, c3]; rfl
      · show w3.z.matchLength ≤ F
        rw [b1, a1]; show w.ml ≤ F; simp only [F_eq]; omega
      · show w3.z.matchPosition < N
        rw [b1, a1]; exact i.mp

end Wl2k.Lzhuf

namespace Wl2k.Lzhuf
open Wl2k.Bits

/-! ### the driver loops -/

theorem preEncode_fields (w : Writer) (c : Option UInt8) :
    (w.preEncode c).out = w.out ∧ (w.preEncode c).putbuf = w.putbuf ∧ (w.preEncode c).putlen = w.putlen ∧
    (w.preEncode c).h = w.h ∧ (w.preEncode c).fileSize = w.fileSize ∧ (w.preEncode c).crc16 = w.crc16 ∧
    (w.preEncode c).r = w.r ∧ (w.preEncode c).s = w.s ∧ (w.preEncode c).preFilled = w.preFilled ∧
    (w.preEncode c).lastMatchLength = w.lastMatchLength - 1 ∧
    (w.preEncode c).len = w.len + (if c.isSome then 1 else 0) := by
  cases c <;> exact ⟨rfl, rfl, rfl, rfl, rfl, rfl, rfl, rfl, rfl, rfl, rfl⟩

theorem preEncode_match (w : Writer) (c : Option UInt8) (hq : w.z.matchPosition < N) :
    (w.preEncode c).z.matchLength ≤ F ∧ (w.preEncode c).z.matchPosition < N := by
  cases c with
  | none => exact (insertNode_basic w.z w.r hq).2
  | some b =>
    exact (insertNode_basic { w.z with textBuf := (if w.s < F - 1 then
      (w.z.textBuf.setIfInBounds w.s b).setIfInBounds (w.s + N) b else w.z.textBuf.setIfInBounds w.s b) } w.r hq).2

theorem postEncode_fields (w : Writer) :
    w.postEncode.out = w.out ∧ w.postEncode.putbuf = w.putbuf ∧ w.postEncode.putlen = w.putlen ∧
    w.postEncode.h = w.h ∧ w.postEncode.fileSize = w.fileSize ∧ w.postEncode.crc16 = w.crc16 ∧
    w.postEncode.preFilled = w.preFilled ∧ w.postEncode.lastMatchLength = w.lastMatchLength ∧
    w.postEncode.len = w.len - 1 ∧ w.postEncode.r = (w.r + 1) % N ∧ w.postEncode.s = (w.s + 1) % N ∧
    w.postEncode.z = deleteNode w.z w.s :=
  ⟨rfl, rfl, rfl, rfl, rfl, rfl, rfl, rfl, rfl, rfl, rfl, rfl⟩

theorem midEncode_inv (w : Writer) (ts : List Token) (i : EncInv w ts) :
    EncInv w.midEncode (ts ++ (if w.lastMatchLength = 0 then w.encodeTok.toList else [])) := by
  unfold Writer.midEncode
  split
  · exact encode_inv w ts i
  · simpa using i

theorem advance_inv (w : Writer) (c : Option UInt8) (ts : List Token) (i : EncInv w ts) :
    EncInv (w.advance c) (ts ++ w.advanceTok c) := by
  obtain ⟨a1, a2, a3, a4, -⟩ := preEncode_fields w c
  obtain ⟨m1, m2⟩ := preEncode_match w c i.mp
  have i1 : EncInv (w.preEncode c) ts := i.frame a1 a2 a3 a4 m1 m2
  have i2 := midEncode_inv _ ts i1
  rw [Writer.advance_eq, Writer.advanceTok]
  obtain ⟨b1, b2, b3, b4, -, -, -, -, -, -, -, b5⟩ := postEncode_fields (w.preEncode c).midEncode
  obtain ⟨d1, d2, d3⟩ := deleteNode_frame (w.preEncode c).midEncode.z (w.preEncode c).midEncode.s
  exact i2.frame b1 b2 b3 b4 (by rw [b5, d2]; exact i2.ml) (by rw [b5, d3]; exact i2.mp)

theorem writeByte_inv (w : Writer) (b : UInt8) (ts : List Token) (i : EncInv w ts) :
    EncInv (w.writeByte b) (ts ++ w.writeByteTok b) := by
  unfold Writer.writeByte Writer.writeByteTok
  by_cases hp : (!w.preFilled) = true
  · rw [if_pos hp, if_pos hp, List.append_nil]
    obtain ⟨e1, e2, e3⟩ := insertNode_basic { w.z with textBuf := w.z.textBuf.setIfInBounds (w.r + w.len) b }
      (w.r - (w.len + 1)) i.mp
    exact i.frame rfl rfl rfl rfl e2 e3
  · rw [if_neg hp, if_neg hp]
    have := advance_inv w (some b) ts i
    exact this.frame rfl rfl rfl rfl this.ml this.mp

theorem write_inv (bs : Bytes) : ∀ (w : Writer) (ts : List Token), EncInv w ts →
    EncInv (w.write bs) (ts ++ w.writeTok bs) := by
  induction bs with
  | nil => intro w ts i; simpa [Writer.write, Writer.writeTok] using i
  | cons b bs ih =>
    intro w ts i
    have := ih (w.writeByte b) _ (writeByte_inv w b ts i)
    rw [List.append_assoc] at this
    exact this

theorem drain_inv (fuel : Nat) : ∀ (w : Writer) (ts : List Token), EncInv w ts →
    EncInv (w.drain fuel) (ts ++ w.drainTok fuel) := by
  induction fuel with
  | zero => intro w ts i; simpa [Writer.drain, Writer.drainTok] using i
  | succ fuel ih =>
    intro w ts i
    unfold Writer.drain Writer.drainTok
    split
    · have := ih (w.advance none) _ (advance_inv w none ts i)
      rw [List.append_assoc] at this
      exact this
    · simpa using i

theorem new_encInv (crc16 : Bool) : EncInv (Writer.new crc16) [] :=
  ⟨new_bits crc16, rfl, huffWF_init, Wl2k.Bits.new_inv crc16, Nat.zero_le _, show 0 < N by decide, fun _ h => nomatch h⟩

/-- the state at `Close` before the flush satisfies the invariant with the whole token list -/
theorem closed_inv (crc16 : Bool) (x : Bytes) :
    EncInv ((((Writer.new crc16).write x).drain (F + 1)).encode) (tokensOf crc16 x) := by
  have i1 := write_inv x (Writer.new crc16) [] (new_encInv crc16)
  have i2 := drain_inv (F + 1) _ _ i1
  have i3 := encode_inv _ _ i2
  rw [List.nil_append] at i3
  exact i3

/-! ### size and CRC flag -/

theorem midEncode_shape (w : Writer) :
    w.midEncode.fileSize = w.fileSize ∧ w.midEncode.crc16 = w.crc16 ∧ w.midEncode.len = w.len ∧
    w.midEncode.r = w.r ∧ w.midEncode.s = w.s ∧ w.midEncode.preFilled = w.preFilled ∧
    SameArr w.z w.midEncode.z := by
  unfold Writer.midEncode
  split
  · obtain ⟨a1, a2, a3, a4, a5, a6, a7, a8, a9⟩ := encode_shape w
    exact ⟨a7, a8, a3, a4, a5, a6, a1⟩
  · exact ⟨rfl, rfl, rfl, rfl, rfl, rfl, SameArr.refl _⟩

theorem advance_size (w : Writer) (c : Option UInt8) :
    (w.advance c).fileSize = w.fileSize ∧ (w.advance c).crc16 = w.crc16 ∧
    (w.advance c).len = w.len + (if c.isSome then 1 else 0) - 1 ∧ (w.advance c).preFilled = w.preFilled := by
  obtain ⟨-, -, -, -, a5, a6, a7, a8, a9, a10, a11⟩ := preEncode_fields w c
  obtain ⟨b1, b2, b3, b4, b5, b6, b7⟩ := midEncode_shape (w.preEncode c)
  obtain ⟨-, -, -, -, c5, c6, c7, c8, c9, -⟩ := postEncode_fields (w.preEncode c).midEncode
  rw [Writer.advance_eq]
  exact ⟨c5.trans (b1.trans a5), c6.trans (b2.trans a6), by rw [c9, b3, a11], c7.trans (b6.trans a9)⟩

theorem writeByte_size (w : Writer) (b : UInt8) :
    (w.writeByte b).fileSize = w.fileSize + 1 ∧ (w.writeByte b).crc16 = w.crc16 := by
  unfold Writer.writeByte
  split
  · exact ⟨rfl, rfl⟩
  · obtain ⟨a1, a2, -⟩ := advance_size w (some b)
    exact ⟨by show (w.advance (some b)).fileSize + 1 = _; rw [a1], a2⟩

theorem write_size (bs : Bytes) : ∀ w : Writer,
    (w.write bs).fileSize = w.fileSize + bs.length ∧ (w.write bs).crc16 = w.crc16 := by
  induction bs with
  | nil => intro w; exact ⟨rfl, rfl⟩
  | cons b bs ih =>
    intro w
    obtain ⟨a1, a2⟩ := ih (w.writeByte b)
    obtain ⟨b1, b2⟩ := writeByte_size w b
    have e : w.write (b :: bs) = (w.writeByte b).write bs := rfl
    rw [e, a1, a2, b1, b2, List.length_cons]
    exact ⟨by omega, rfl⟩

theorem drain_size (fuel : Nat) : ∀ w : Writer,
    (w.drain fuel).fileSize = w.fileSize ∧ (w.drain fuel).crc16 = w.crc16 := by
  induction fuel with
  | zero => intro w; exact ⟨rfl, rfl⟩
  | succ fuel ih =>
    intro w
    unfold Writer.drain
    split
    · obtain ⟨a1, a2⟩ := ih (w.advance none)
      obtain ⟨b1, b2, -⟩ := advance_size w none
      exact ⟨a1.trans b1, a2.trans b2⟩
    · exact ⟨rfl, rfl⟩

theorem encodeEnd_size (w : Writer) : w.encodeEnd.fileSize = w.fileSize ∧ w.encodeEnd.crc16 = w.crc16 := by
  unfold Writer.encodeEnd
  split <;> exact ⟨rfl, rfl⟩

/-- the compressed body: the bytes of `out` after the final flush -/
def bodyOf (crc16 : Bool) (x : Bytes) : Bytes :=
  (((((Writer.new crc16).write x).drain (F + 1)).encode).encodeEnd).out.toList

/-- **Header** (cf. `Props.C07.header_canonical`): little-endian CRC-16 over size ++ body when enabled, then
the little-endian 32-bit length of the input, then the body. -/
theorem compress_eq (crc16 : Bool) (x : Bytes) :
    compress crc16 x =
      (if crc16 then le16 (crc (le32 (x.length % 4294967296) ++ bodyOf crc16 x)) else [])
        ++ le32 (x.length % 4294967296) ++ bodyOf crc16 x := by
  have e : compress crc16 x =
      (if (((((Writer.new crc16).write x).drain (F + 1)).encode).encodeEnd).crc16 then
          le16 (crc (le32 ((((((Writer.new crc16).write x).drain (F + 1)).encode).encodeEnd).fileSize % 4294967296)
            ++ bodyOf crc16 x)) else [])
        ++ le32 ((((((Writer.new crc16).write x).drain (F + 1)).encode).encodeEnd).fileSize % 4294967296)
        ++ bodyOf crc16 x := rfl
  obtain ⟨a1, a2⟩ := encodeEnd_size ((((Writer.new crc16).write x).drain (F + 1)).encode)
  obtain ⟨-, -, -, -, -, -, b1, b2, -⟩ := encode_shape (((Writer.new crc16).write x).drain (F + 1))
  obtain ⟨c1, c2⟩ := drain_size (F + 1) ((Writer.new crc16).write x)
  obtain ⟨d1, d2⟩ := write_size x (Writer.new crc16)
  have hs : (((((Writer.new crc16).write x).drain (F + 1)).encode).encodeEnd).fileSize = x.length := by
    rw [a1, b1, c1, d1]; show 0 + x.length = _; omega
  have hc : (((((Writer.new crc16).write x).drain (F + 1)).encode).encodeEnd).crc16 = crc16 := by
    rw [a2, b2, c2, d2]; rfl
  rw [e, hs, hc]

/-- **Body**: the body bits of `compress crc16 x` are exactly the concatenated encodings of the tokens
`tokensOf crc16 x` under the evolving Huffman state, padded with fewer than 8 zero bits; every token is
well-formed. -/
theorem compress_bits (crc16 : Bool) (x : Bytes) :
    ∃ pad : List Bool, pad.length < 8 ∧ (∀ b ∈ pad, b = false) ∧
      bytesBits (bodyOf crc16 x) = encTokens Huff.init (tokensOf crc16 x) ++ pad ∧
      ∀ t ∈ tokensOf crc16 x, t.ok := by
  have i := closed_inv crc16 x
  have e := encodeEnd_bits _ i.binv
  rw [i.bits] at e
  refine ⟨_, ?_, ?_, e, i.ok⟩
  · rw [List.length_replicate]; omega
  · intro b hb; exact (List.mem_replicate.mp hb).2

end Wl2k.Lzhuf
