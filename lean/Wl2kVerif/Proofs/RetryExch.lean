import Wl2kVerif.Proofs.RetryTurns
/-
The accounting for two WHOLE `exchange` programs: the handshake is peeled off both sides exactly as in
`Proofs/WholeExch.lean` (it calls neither `SetSent` nor `ProcessInbound`), after which both sides stand at
complementary turn boundaries (`turns_acct`); then the statement for every reachable state of the pair system.
-/
namespace Wl2k.B2F
open Wl2k

theorem handshake_quiet (c : Cfg) (fuel : Nat) : Shape QuietN (handshake c fuel) :=
  handshake_shape (E := QuietN) ⟨trivial, fun _ => trivial⟩ ⟨fun _ => trivial⟩ trivial (fun _ => trivial) c fuel

/-- the trace of a handshake run is quiet -/
theorem still_handshake (c : Cfg) (fuel : Nat) (J : Bytes) (h : HState) (res : Ended (Except SErr HsData)) (J' : Bytes)
    (h' : HState) (W : List Ev) (hr : Proc.run hstep (handshake c fuel) J h [] = (res, J', h', W)) : Still W := by
  have := run_shape hstep (handshake_quiet c fuel) J h [] (by intro e he; cases he)
  rw [hr] at this
  exact this

theorem still_prepare : Still [Ev.called .prepare] := still_cons trivial still_nil

/-- **The accounting of whole sessions, stream form.** -/
theorem exchange_acct (cM cS : Cfg) (fuel : Nat) (hM hS : HState) (HM HS : Bytes)
    (gM : Good cM fuel hM) (gS : Good cS fuel hS) (pM : hM.prepareFails = false) (pS : hS.prepareFails = false)
    (ndM : (hM.outbox.map (·.mid)).Nodup) (ndS : (hS.outbox.map (·.mid)).Nodup)
    (mh : MasterHs cM fuel HM HS) (sh : SlaveHs cS fuel HM HS) (eM eS : List Ev)
    (hcon : Con (exchange cM fuel) hM (exchange cS fuel) hS eM eS) :
    Acct hM hS eM eS ∧ Acct hS hM eS eM := by
  obtain ⟨JM, JS, h1, h2, h3, h4⟩ := hcon
  rw [trOf_exchange cM fuel gM.hh hM pM] at h1
  rw [trOf_exchange cS fuel gS.hh hS pS] at h2
  -- whatever it reads the master writes `HM` first
  have hMout : ∃ Rr, outBytes (trOf ((handshake cM fuel).bind (afterHs cM fuel)) JM hM ++ [Ev.called .prepare]) = HM ++ Rr := by
    obtain ⟨W, Rr, hW, hWo⟩ := mh.out JM hM
    obtain ⟨evB, hB⟩ := run_bind_trace hstep (handshake cM fuel) (afterHs cM fuel) JM hM []
    unfold trOf
    rw [hB, hW, outBytes_append, outBytes_prepare, List.nil_append, outBytes_append, hWo]
    exact ⟨Rr ++ outBytes evB, by simp⟩
  obtain ⟨Rr, hRr⟩ := hMout
  have hJS : JS <+: HM ++ Rr := by
    have := h4.trans (outBytes_suffix h1)
    rwa [hRr] at this
  -- the master's side when it got no more than the slave's handshake
  have hMshort : JM <+: HS → Still eM ∧ outBytes eM <+: HM := by
    intro hJM
    obtain ⟨W, hrun, hWo, _⟩ := mh.short JM hM hJM
    have hWc := still_handshake cM fuel JM hM _ _ _ W hrun
    rw [trace_bind_done _ _ JM hM _ _ _ _ hrun] at h1
    have hfin : trOf (afterHs cM fuel (.error .eof)) [] hM = [] := rfl
    rw [hfin, List.nil_append] at h1
    refine ⟨(still_append hWc still_prepare).of_suffix h1, ?_⟩
    have := outBytes_suffix h1
    rwa [outBytes_append, outBytes_prepare, List.nil_append, hWo] at this
  have hcases : (JS <+: HM ∧ JS ≠ HM) ∨ ∃ J', JS = HM ++ J' := by
    rcases prefix_append_split HM Rr JS hJS with hshort | ⟨J', rfl, _⟩
    · by_cases hne : JS = HM
      · exact Or.inr ⟨[], by simp [hne]⟩
      · exact Or.inl ⟨hshort, hne⟩
    · exact Or.inr ⟨J', rfl⟩
  rcases hcases with ⟨hshort, hne⟩ | ⟨J', rfl⟩
  · -- the slave has not got the master's handshake: it wrote nothing, so the master read nothing
    obtain ⟨W, hrun, hWo, _⟩ := sh.short JS hS hshort hne
    have hWc := still_handshake cS fuel JS hS _ _ _ W hrun
    rw [trace_bind_done _ _ JS hS _ _ _ _ hrun] at h2
    have hfin : trOf (afterHs cS fuel (.error .eof)) [] hS = [] := rfl
    rw [hfin, List.nil_append] at h2
    have hJM : JM = [] := by
      have := h3.trans (outBytes_suffix h2)
      rw [outBytes_append, outBytes_prepare, List.nil_append, hWo] at this
      exact prefix_nil this
    subst hJM
    obtain ⟨c1, _⟩ := hMshort List.nil_prefix
    exact acct_of_still c1 ((still_append hWc still_prepare).of_suffix h2)
  · obtain ⟨hs, W, hrun, hWo, _⟩ := sh.full J' hS
    have hWc := still_handshake cS fuel _ hS _ _ _ W hrun
    rw [trace_bind_done _ _ _ hS _ _ _ _ hrun] at h2
    simp only [afterHs, sh.slave, Bool.not_false] at h2
    rw [List.append_assoc] at h2
    have hJM : JM <+: HS ++ outBytes (trOf (restOfSession cS fuel fuel true { remoteSID := hs.sid, remoteFW := hs.fw }) J' hS) := by
      have := h3.trans (outBytes_suffix h2)
      rwa [outBytes_append, outBytes_append, outBytes_prepare, List.nil_append, hWo] at this
    -- if the master got no more than `HS`, the slave got no more than `HM`
    have hboth : JM <+: HS → Acct hM hS eM eS ∧ Acct hS hM eS eM := by
      intro hs1
      obtain ⟨c1, c2⟩ := hMshort hs1
      have hJ' : J' = [] := by
        have := (h4.trans c2).length_le
        simp only [List.length_append] at this
        exact List.eq_nil_of_length_eq_zero (by omega)
      subst hJ'
      refine acct_of_still c1 (Still.of_suffix ?_ h2)
      exact still_append (still_rest_nil cS fuel gS.hh gS.mb gS.f5 _ _ _ _) (still_append hWc still_prepare)
    rcases prefix_append_split HS _ JM hJM with hs1 | ⟨JM', rfl, hJM'⟩
    · exact hboth hs1
    · cases JM' with
      | nil => exact hboth (by simp)
      | cons x r =>
        have hx : x = 70 := by
          rcases send_out_head cS fuel fuel { remoteSID := hs.sid, remoteFW := hs.fw } hS gS.hh gS.mb J' with ho | ⟨t, ho⟩
          · rw [ho] at hJM'; simp at hJM'
          · rw [ho] at hJM'; exact (List.cons_prefix_cons.mp hJM').1
        subst hx
        obtain ⟨hsM, WM, hrunM, hWMo, _⟩ := mh.full r hM
        have hWMc := still_handshake cM fuel _ hM _ _ _ WM hrunM
        rw [trace_bind_done _ _ _ hM _ _ _ _ hrunM] at h1
        simp only [afterHs, mh.master, Bool.not_true] at h1
        rw [List.append_assoc] at h1
        -- the slave's trace contains its whole handshake: it has written the byte the master peeked
        have hSsplit : ∃ eS', eS = eS' ++ (W ++ [Ev.called .prepare]) ∧
            eS' <:+ trOf (restOfSession cS fuel fuel true { remoteSID := hs.sid, remoteFW := hs.fw }) J' hS := by
          rcases suffix_append_split h2 with hin | hx
          · exfalso
            have l1 := h3.length_le
            have l2 := (outBytes_suffix hin).length_le
            rw [outBytes_append, outBytes_prepare, List.nil_append, hWo] at l2
            simp only [List.length_append, List.length_cons] at l1
            omega
          · exact hx
        obtain ⟨eS', rfl, heS'⟩ := hSsplit
        have hJM'' : 70 :: r <+: outBytes eS' := by
          have := h3
          rw [outBytes_append, outBytes_append, outBytes_prepare, List.nil_append, hWo] at this
          exact (List.prefix_append_right_inj _).mp this
        have hSq : Still (W ++ [Ev.called .prepare]) := still_append hWc still_prepare
        have hMq : Still (WM ++ [Ev.called .prepare]) := still_append hWMc still_prepare
        have fin : ∀ eM' WMp, eM' <:+ trOf (restOfSession cM fuel fuel false { remoteSID := hsM.sid, remoteFW := hsM.fw }) (70 :: r) hM →
            J' <+: outBytes eM' → WMp <:+ WM ++ [Ev.called .prepare] → eM = eM' ++ WMp →
            Acct hM hS eM (eS' ++ (W ++ [Ev.called .prepare])) ∧ Acct hS hM (eS' ++ (W ++ [Ev.called .prepare])) eM := by
          intro eM' WMp ha hb hc hd
          obtain ⟨i1, i2⟩ := turns_acct fuel (fuel + fuel) fuel fuel (Nat.le_refl _) cS cM _ _
            hS hM eS' eM' gS gM ndS ndM ⟨J', 70 :: r, heS', ha, hb, hJM''⟩
          have hWMp : Still WMp := hMq.of_suffix hc
          have hp : procOf (eS' ++ (W ++ [Ev.called .prepare])) = procOf eS' := by
            rw [procOf_append, procOf_eq_nil hSq.toNoProc, List.nil_append]
          have hr : repOf (eS' ++ (W ++ [Ev.called .prepare])) = repOf eS' := by
            rw [repOf_append, repOf_eq_nil hSq.toNoSent, List.nil_append]
          have hpM : procOf eM = procOf eM' := by
            rw [hd, procOf_append, procOf_eq_nil hWMp.toNoProc, List.nil_append]
          have hrM : repOf eM = repOf eM' := by
            rw [hd, repOf_append, repOf_eq_nil hWMp.toNoSent, List.nil_append]
          refine ⟨⟨?_, ?_, ?_, ?_⟩, ⟨?_, ?_, ?_, ?_⟩⟩
          · intro m hm
            rw [hd] at hm
            rcases List.mem_append.mp hm with hm | hm
            · exact i2.1 m hm
            · exact (hWMp.noSent m true hm).elim
          · obtain ⟨L, p1, p2, p3⟩ := i2.2.1
            exact ⟨L, by rw [hp, p1], p2, p3⟩
          · rw [RepOK, hrM]; exact i2.2.2.1
          · intro m hm
            rw [hd] at hm
            rcases List.mem_append.mp hm with hm | hm
            · obtain ⟨msg, g1, g2, g3⟩ := i2.2.2.2 m hm
              refine ⟨msg, g1, g2, ?_⟩
              rw [replay_inbox_skip hS eS' (W ++ [Ev.called .prepare]) [] hSq.toNoProc still_nil.toNoProc, List.append_nil]
              exact g3
            · exact (hWMp.noSent m false hm).elim
          · intro m hm
            rcases List.mem_append.mp hm with hm | hm
            · exact i1.1 m hm
            · exact (hSq.noSent m true hm).elim
          · obtain ⟨L, p1, p2, p3⟩ := i1.2.1
            exact ⟨L, by rw [hpM, p1], p2, p3⟩
          · rw [RepOK, hr]; exact i1.2.2.1
          · intro m hm
            rcases List.mem_append.mp hm with hm | hm
            · obtain ⟨msg, g1, g2, g3⟩ := i1.2.2.2 m hm
              refine ⟨msg, g1, g2, ?_⟩
              rw [hd, replay_inbox_skip hM eM' WMp [] hWMp.toNoProc still_nil.toNoProc, List.append_nil]
              exact g3
            · exact (hSq.noSent m false hm).elim
        rcases suffix_append_split h1 with hin | ⟨eM', rfl, heM'⟩
        · have hJ' : J' = [] := by
            have l2 := (h4.trans (outBytes_suffix hin)).length_le
            rw [outBytes_append, outBytes_prepare, List.nil_append, hWMo] at l2
            simp only [List.length_append] at l2
            exact List.eq_nil_of_length_eq_zero (by omega)
          subst hJ'
          exact fin [] eM List.nil_suffix List.nil_prefix hin (List.nil_append _).symm
        · refine fin eM' _ heM' ?_ (List.suffix_refl _) rfl
          have := h4
          rw [outBytes_append, outBytes_append, outBytes_prepare, List.nil_append, hWMo] at this
          exact (List.prefix_append_right_inj _).mp this

/-- **The accounting in the pair model**: two whole `exchange` programs (master on the left), reference handlers, ANY
schedule, ANY `limit` on either side, every reachable state. -/
theorem pair_exchange_acct (cM cS : Cfg) (fuel : Nat) (hM hS : HState) (limM limS : Option Nat)
    (hmM : cM.hs.master = true) (hmS : cS.hs.master = false) (okM : SideOK cM fuel hM) (okS : SideOK cS fuel hS)
    (ndM : (hM.outbox.map (·.mid)).Nodup) (ndS : (hS.outbox.map (·.mid)).Nodup)
    (hfM : (hsBytesM cM).length < fuel) (hfS : (hsBytesS cS).length < fuel) {n : Nat} {t : Side × Side}
    (he : PairExec (initPair (exchange cM fuel) (exchange cS fuel) hM hS limM limS) n t) :
    Acct hM hS t.1.evs t.2.evs ∧ Acct hS hM t.2.evs t.1.evs :=
  exchange_acct cM cS fuel hM hS _ _ okM.good okS.good okM.prep okS.prep ndM ndS
    (masterHs_of_wf cM cS fuel hmM hmS okS.wf hfS) (slaveHs_of_wf cM cS fuel hmM hmS okM.wf okM.motd hfM) _ _
    (con_of_exec _ _ hM hS limM limS he)

end Wl2k.B2F
