import Wl2kVerif.Proofs.WholeStep
/-
Book-keeping for the fault-free delivery argument: what the reference handler's state is after the calls of
a turn, how a block's answers classify its proposals, and the LEDGER — the relation between the current
handler / session states of a sender `X` and a receiver `Y` and their initial handler states in terms of three
lists: what was accepted (MID and bytes), rejected, deferred so far.
-/
namespace Wl2k.B2F
open Wl2k

/-- the valid messages the handler offers -/
def vo (h : HState) : List OutMsg := (offered h).filter fun m => m.valid

/-- the handler reports no storage or parse error -/
structure Quiet (h : HState) : Prop where
  failAt : h.failAt = none
  parseErr : h.parseErr = []

/-! ### the reference handler after the calls of a turn -/

theorem hDefer_cons (h : HState) (m : Bytes) (ms : List Bytes) :
    hDefer h (m :: ms) = hDefer (hstep h (.setDeferred m)).1 ms := rfl

theorem hDefer_outbox (ms : List Bytes) : ∀ (h : HState), (hDefer h ms).outbox = h.outbox := by
  induction ms with
  | nil => intro h; rfl
  | cons m ms ih => intro h; rw [hDefer_cons, ih]; rfl

theorem hDefer_deferred (ms : List Bytes) : ∀ (h : HState), (hDefer h ms).deferred = ms.reverse ++ h.deferred := by
  induction ms with
  | nil => intro h; rfl
  | cons m ms ih => intro h; rw [hDefer_cons, ih]; simp [hstep]

theorem hDefer_policy (ms : List Bytes) : ∀ (h : HState), (hDefer h ms).policy = h.policy := by
  induction ms with
  | nil => intro h; rfl
  | cons m ms ih => intro h; rw [hDefer_cons, ih]; rfl

theorem hDefer_inbox (ms : List Bytes) : ∀ (h : HState), (hDefer h ms).inbox = h.inbox := by
  induction ms with
  | nil => intro h; rfl
  | cons m ms ih => intro h; rw [hDefer_cons, ih]; rfl

theorem hDefer_quiet (ms : List Bytes) : ∀ (h : HState), Quiet h → Quiet (hDefer h ms) := by
  induction ms with
  | nil => intro h q; exact q
  | cons m ms ih => intro h q; rw [hDefer_cons]; exact ih _ ⟨q.failAt, q.parseErr⟩

theorem filter_const_true {α : Type} (l : List α) : l.filter (fun _ => true) = l :=
  List.filter_eq_self.mpr (fun _ _ => rfl)

theorem hSent_cons (h : HState) (rej : Bool) (m : Bytes) (ms : List Bytes) :
    hSent h rej (m :: ms) = hSent (hstep h (.setSent m rej)).1 rej ms := rfl

theorem hSent_outbox (rej : Bool) (ms : List Bytes) : ∀ (h : HState),
    (hSent h rej ms).outbox = h.outbox.filter fun x => !ms.contains x.mid := by
  induction ms with
  | nil => intro h; simp [hSent, filter_const_true]
  | cons m ms ih =>
    intro h
    rw [hSent_cons, ih]
    simp only [hstep, List.filter_filter]
    apply List.filter_congr
    intro x _
    by_cases hx : x.mid = m
    · simp [hx]
    · have : (x.mid == m) = false := by simpa using hx
      simp [hx, this]

theorem hSent_deferred (rej : Bool) (ms : List Bytes) : ∀ (h : HState), (hSent h rej ms).deferred = h.deferred := by
  induction ms with
  | nil => intro h; rfl
  | cons m ms ih => intro h; rw [hSent_cons, ih]; rfl

theorem hSent_policy (rej : Bool) (ms : List Bytes) : ∀ (h : HState), (hSent h rej ms).policy = h.policy := by
  induction ms with
  | nil => intro h; rfl
  | cons m ms ih => intro h; rw [hSent_cons, ih]; rfl

theorem hSent_inbox (rej : Bool) (ms : List Bytes) : ∀ (h : HState), (hSent h rej ms).inbox = h.inbox := by
  induction ms with
  | nil => intro h; rfl
  | cons m ms ih => intro h; rw [hSent_cons, ih]; rfl

theorem hSent_quiet (rej : Bool) (ms : List Bytes) : ∀ (h : HState), Quiet h → Quiet (hSent h rej ms) := by
  induction ms with
  | nil => intro h q; exact q
  | cons m ms ih => intro h q; rw [hSent_cons]; exact ih _ ⟨q.failAt, q.parseErr⟩

theorem deliverStep_view (h : HState) (d : Bytes) (q : Quiet h) :
    (deliverStep hstep h d).inbox = h.inbox ++ [d] ∧ (deliverStep hstep h d).outbox = h.outbox ∧
    (deliverStep hstep h d).deferred = h.deferred ∧ (deliverStep hstep h d).policy = h.policy ∧
    Quiet (deliverStep hstep h d) ∧ deliverOK hstep h d := by
  have hf := q.failAt
  have hp := q.parseErr
  refine ⟨?_, rfl, rfl, rfl, ⟨hf, hp⟩, ?_⟩
  · simp [deliverStep, hstep, hf]
  · simp [deliverOK, hstep, hf, hp, Reply.parseErr, Reply.isErr]

theorem deliver_view (ds : List Bytes) : ∀ (h : HState), Quiet h →
    (ds.foldl (deliverStep hstep) h).inbox = h.inbox ++ ds ∧ (ds.foldl (deliverStep hstep) h).outbox = h.outbox ∧
    (ds.foldl (deliverStep hstep) h).deferred = h.deferred ∧ (ds.foldl (deliverStep hstep) h).policy = h.policy ∧
    Quiet (ds.foldl (deliverStep hstep) h) ∧ AllOK hstep h ds := by
  induction ds with
  | nil => intro h q; exact ⟨by simp, rfl, rfl, rfl, q, trivial⟩
  | cons d ds ih =>
    intro h q
    obtain ⟨a1, a2, a3, a4, a5, a6⟩ := deliverStep_view h d q
    obtain ⟨b1, b2, b3, b4, b5, b6⟩ := ih _ a5
    simp only [List.foldl_cons]
    exact ⟨by rw [b1, a1]; simp, by rw [b2, a2], by rw [b3, a3], by rw [b4, a4], b5, ⟨a6, b6⟩⟩

/-! ### a block and its answers -/

/-- accepted proposals as (MID, bytes the receiver decodes), rejected MIDs -/
def acceptedPairs (dataOf : Proposal → Bytes) : List Proposal → List UInt8 → List (Bytes × Bytes)
  | p :: ps, a :: as => (if a = ansAccept then [(p.mid, dataOf p)] else []) ++ acceptedPairs dataOf ps as
  | _, _ => []

def rejectedMids : List Proposal → List UInt8 → List Bytes
  | p :: ps, a :: as => (if a = ansReject then [p.mid] else []) ++ rejectedMids ps as
  | _, _ => []

theorem acceptedData_pairs (dataOf : Proposal → Bytes) : ∀ (ps : List Proposal) (as : List UInt8),
    acceptedData dataOf ps as = (acceptedPairs dataOf ps as).map (·.2)
  | [], _ => rfl
  | _ :: _, [] => rfl
  | p :: ps, a :: as => by
    simp only [acceptedData, acceptedPairs, List.map_append, acceptedData_pairs dataOf ps as]
    split <;> rfl

theorem acceptedMids_pairs (dataOf : Proposal → Bytes) : ∀ (ps : List Proposal) (as : List UInt8),
    acceptedMids ps as = (acceptedPairs dataOf ps as).map (·.1)
  | [], _ => rfl
  | _ :: _, [] => rfl
  | p :: ps, a :: as => by
    simp only [acceptedMids, acceptedPairs, List.map_append, acceptedMids_pairs dataOf ps as]
    split <;> rfl

/-- the answers in proposal order, as `transferAll` records them -/
def classify : List Proposal → List UInt8 → List (Bytes × Bool)
  | p :: ps, a :: as =>
    (if a = ansAccept then [(p.mid, false)] else if a = ansReject then [(p.mid, true)] else []) ++ classify ps as
  | _, _ => []

theorem transferRes_fresh : ∀ (ps : List Proposal) (as : List UInt8) (sent : List (Bytes × Bool)),
    (ps.map (·.mid)).Nodup → (∀ p ∈ ps, ∀ x ∈ sent, x.1 ≠ p.mid) → (∀ a ∈ as, PlainAnswer a) →
    transferRes ps as sent = sent ++ classify ps as := by
  intro ps
  induction ps with
  | nil => intro as sent _ _ _; simp [transferRes, classify]
  | cons p ps ih =>
    intro as sent hnd hfr hpl
    cases as with
    | nil => simp [transferRes, classify]
    | cons a as =>
      simp only [List.map_cons, List.nodup_cons] at hnd
      have hfilt : sent.filter (fun x => decide (x.1 ≠ p.mid)) = sent := by
        rw [List.filter_eq_self]
        intro x hx
        simpa using hfr p (by simp) x hx
      have hfr' : ∀ (b : Bool), ∀ q ∈ ps, ∀ x ∈ sent ++ [(p.mid, b)], x.1 ≠ q.mid := by
        intro b q hq x hx
        rcases List.mem_append.mp hx with hx | hx
        · exact hfr q (by simp [hq]) x hx
        · simp only [List.mem_singleton] at hx
          subst hx
          intro e
          have e' : p.mid = q.mid := e
          exact hnd.1 (by rw [e']; exact List.mem_map_of_mem hq)
      have hpl' : ∀ x ∈ as, PlainAnswer x := fun x hx => hpl x (by simp [hx])
      rcases hpl a (by simp) with rfl | rfl | rfl
      · have e1 : ¬ (ansAccept = ansDefer) := by decide
        have e2 : ¬ (ansAccept = ansReject) := by decide
        simp only [transferRes, classify, e1, e2, if_false, if_true, hfilt]
        rw [ih as _ hnd.2 (hfr' false) hpl']
        simp
      · have e1 : ¬ (ansReject = ansDefer) := by decide
        have e2 : ¬ (ansReject = ansAccept) := by decide
        simp only [transferRes, classify, e1, e2, if_false, if_true, hfilt]
        rw [ih as _ hnd.2 (hfr' true) hpl']
        simp
      · have e1 : ¬ (ansDefer = ansAccept) := by decide
        have e2 : ¬ (ansDefer = ansReject) := by decide
        simp only [transferRes, classify, e1, e2, if_false, if_true]
        rw [ih as sent hnd.2 (fun q hq => hfr q (by simp [hq])) hpl']
        simp

theorem classify_acc : ∀ (ps : List Proposal) (as : List UInt8),
    ((classify ps as).filter (!·.2)).map (·.1) = acceptedMids ps as
  | [], _ => rfl
  | _ :: _, [] => rfl
  | p :: ps, a :: as => by
    simp only [classify, acceptedMids, List.filter_append, List.map_append, classify_acc ps as]
    have e0 : ¬ (ansReject = ansAccept) := by decide
    by_cases h1 : a = ansAccept
    · simp [h1]
    · by_cases h2 : a = ansReject <;> simp [h1, h2, e0]

theorem classify_rej : ∀ (ps : List Proposal) (as : List UInt8),
    ((classify ps as).filter (·.2)).map (·.1) = rejectedMids ps as
  | [], _ => rfl
  | _ :: _, [] => rfl
  | p :: ps, a :: as => by
    simp only [classify, rejectedMids, List.filter_append, List.map_append, classify_rej ps as]
    have e0 : ¬ (ansReject = ansAccept) := by decide
    by_cases h1 : a = ansAccept
    · have : ¬ (ansAccept = ansReject) := by decide
      simp [h1, this]
    · by_cases h2 : a = ansReject <;> simp [h1, h2, e0]

/-- with distinct MIDs, what `transferAll` reports sent / rejected is what was accepted / rejected -/
theorem transferRes_acc (ps : List Proposal) (as : List UInt8) (hnd : (ps.map (·.mid)).Nodup) (hpl : ∀ a ∈ as, PlainAnswer a) :
    ((transferRes ps as []).filter (!·.2)).map (·.1) = acceptedMids ps as ∧
    ((transferRes ps as []).filter (·.2)).map (·.1) = rejectedMids ps as := by
  rw [transferRes_fresh ps as [] hnd (by intro p _ x hx; cases hx) hpl, List.nil_append]
  exact ⟨classify_acc ps as, classify_rej ps as⟩

theorem mem_acceptedPairs (dataOf : Proposal → Bytes) : ∀ (ps : List Proposal) (as : List UInt8) (x : Bytes × Bytes),
    x ∈ acceptedPairs dataOf ps as → ∃ p, (p, ansAccept) ∈ ps.zip as ∧ x = (p.mid, dataOf p)
  | [], _, x, h => by simp [acceptedPairs] at h
  | _ :: _, [], x, h => by simp [acceptedPairs] at h
  | p :: ps, a :: as, x, h => by
    simp only [acceptedPairs, List.mem_append] at h
    rcases h with h | h
    · split at h
      · rename_i ha
        simp only [List.mem_singleton] at h
        exact ⟨p, by simp [ha], h⟩
      · cases h
    · obtain ⟨q, hq, hx⟩ := mem_acceptedPairs dataOf ps as x h
      exact ⟨q, by simp [hq], hx⟩

theorem mem_rejectedMids : ∀ (ps : List Proposal) (as : List UInt8) (m : Bytes),
    m ∈ rejectedMids ps as → ∃ p, (p, ansReject) ∈ ps.zip as ∧ p.mid = m
  | [], _, m, h => by simp [rejectedMids] at h
  | _ :: _, [], m, h => by simp [rejectedMids] at h
  | p :: ps, a :: as, m, h => by
    simp only [rejectedMids, List.mem_append] at h
    rcases h with h | h
    · split at h
      · rename_i ha
        simp only [List.mem_singleton] at h
        exact ⟨p, by simp [ha], h.symm⟩
      · cases h
    · obtain ⟨q, hq, hx⟩ := mem_rejectedMids ps as m h
      exact ⟨q, by simp [hq], hx⟩

theorem mem_deferredMids : ∀ (ps : List Proposal) (as : List UInt8) (m : Bytes),
    m ∈ deferredMids ps as → ∃ p, (p, ansDefer) ∈ ps.zip as ∧ p.mid = m
  | [], _, m, h => by simp [deferredMids] at h
  | _ :: _, [], m, h => by simp [deferredMids] at h
  | p :: ps, a :: as, m, h => by
    simp only [deferredMids, List.mem_append] at h
    rcases h with h | h
    · split at h
      · rename_i ha
        simp only [List.mem_singleton] at h
        exact ⟨p, by simp [ha], h.symm⟩
      · cases h
    · obtain ⟨q, hq, hx⟩ := mem_deferredMids ps as m h
      exact ⟨q, by simp [hq], hx⟩

/-- every proposal of a block with plain answers is in one of the three classes -/
theorem mem_class_of_mem (dataOf : Proposal → Bytes) : ∀ (ps : List Proposal) (as : List UInt8), as.length = ps.length →
    (∀ a ∈ as, PlainAnswer a) → ∀ p ∈ ps,
    p.mid ∈ (acceptedPairs dataOf ps as).map (·.1) ∨ p.mid ∈ rejectedMids ps as ∨ p.mid ∈ deferredMids ps as
  | [], _, _, _, p, h => by cases h
  | q :: ps, [], hl, _, p, _ => by simp at hl
  | q :: ps, a :: as, hl, hpl, p, h => by
    simp only [acceptedPairs, rejectedMids, deferredMids, List.map_append, List.mem_append]
    rcases List.mem_cons.mp h with rfl | h
    · rcases hpl a (by simp) with rfl | rfl | rfl
      · exact Or.inl (Or.inl (by simp))
      · exact Or.inr (Or.inl (Or.inl (by simp)))
      · exact Or.inr (Or.inr (Or.inl (by simp)))
    · rcases mem_class_of_mem dataOf ps as (by simpa using hl) (fun x hx => hpl x (by simp [hx])) p h with h1 | h1 | h1
      · exact Or.inl (Or.inr h1)
      · exact Or.inr (Or.inl (Or.inr h1))
      · exact Or.inr (Or.inr (Or.inr h1))

theorem acceptedMids_sublist : ∀ (ps : List Proposal) (as : List UInt8), (acceptedMids ps as).Sublist (ps.map (·.mid))
  | [], _ => by simp [acceptedMids]
  | _ :: _, [] => by simp [acceptedMids]
  | p :: ps, a :: as => by
    simp only [acceptedMids, List.map_cons]
    split
    · exact (acceptedMids_sublist ps as).cons_cons _
    · exact (acceptedMids_sublist ps as).cons _

/-! ### the block the handler offers -/

theorem insertSorted_perm' (p : Proposal) : ∀ l : List Proposal, (insertSorted p l).Perm (p :: l)
  | [] => List.Perm.refl _
  | q :: qs => by
    simp only [insertSorted]
    split
    · exact List.Perm.refl _
    · exact ((insertSorted_perm' p qs).cons q).trans (List.Perm.swap p q qs)

theorem sortProposals_perm (ps : List Proposal) : (sortProposals ps).Perm ps := by
  unfold sortProposals
  induction ps with
  | nil => exact List.Perm.refl _
  | cons p t ih => exact (insertSorted_perm' p _).trans (ih.cons p)

theorem sortedOf_eq_nil (h : HState) : sortedOf h = [] ↔ vo h = [] := by
  constructor
  · intro e
    have := congrArg List.length e
    rw [sortedOf, sortProposals_length, List.length_map] at this
    exact List.eq_nil_of_length_eq_zero (by simpa [vo] using this)
  · intro e
    have : (sortedOf h).length = 0 := by
      rw [sortedOf, sortProposals_length, List.length_map]
      simpa [vo] using congrArg List.length e
    exact List.eq_nil_of_length_eq_zero this

theorem mem_block_vo (c : Cfg) (h : HState) (p : Proposal) (hp : p ∈ blockOf' c (offered h)) :
    ∃ msg ∈ vo h, p = mkProp msg := by
  have h1 := mem_sortProposals p _ (List.mem_of_mem_take hp)
  simp only [List.mem_map] at h1
  obtain ⟨msg, hm, rfl⟩ := h1
  exact ⟨msg, hm, rfl⟩

theorem vo_sublist (h : HState) : (vo h).Sublist h.outbox :=
  (List.filter_sublist).trans List.filter_sublist

theorem block_nodup (c : Cfg) (h : HState) (hnd : (h.outbox.map (·.mid)).Nodup) :
    ((blockOf' c (offered h)).map (·.mid)).Nodup := by
  have h1 : ((blockOf' c (offered h)).map (·.mid)).Sublist ((sortedOf h).map (·.mid)) :=
    (List.take_sublist _ _).map _
  refine h1.nodup ?_
  have h2 : ((sortedOf h).map (·.mid)).Perm (((vo h).map mkProp).map (·.mid)) := (sortProposals_perm _).map _
  rw [h2.nodup_iff, List.map_map]
  exact ((vo_sublist h).map _).nodup hnd

/-! ### the ledger -/

/-- **The ledger of the transfers from `X` to `Y`**: relative to the initial handler states `hX0`, `hY0`,
with `La` = what was accepted so far as (MID, bytes), `Lr` / `Ld` = the MIDs rejected / deferred so far. -/
structure Ledger (hX0 hY0 hX : HState) (stX : SState) (hY : HState) (stY : SState) (La : List (Bytes × Bytes))
    (Lr Ld : List Bytes) : Prop where
  inbox : hY.inbox = hY0.inbox ++ La.map (·.2)
  sent : stX.sent = La.map (·.1)
  recd : stY.received = La.map (·.1)
  outbox : hX.outbox = hX0.outbox.filter fun m => !(La.map (·.1)).contains m.mid && !Lr.contains m.mid
  deferred : hX.deferred = Ld.reverse ++ hX0.deferred
  acc : ∀ x ∈ La, ∃ msg ∈ vo hX0, msg.mid = x.1 ∧ msg.data = x.2 ∧ hY0.answerFor x.1 = ansAccept
  rej : ∀ m ∈ Lr, ∃ msg ∈ vo hX0, msg.mid = m ∧ hY0.answerFor m = ansReject
  dfr : ∀ m ∈ Ld, ∃ msg ∈ vo hX0, msg.mid = m ∧ hY0.answerFor m = ansDefer
  nodup : (La.map (·.1)).Nodup

theorem Ledger.init (hX0 hY0 : HState) (stX stY : SState) (hs : stX.sent = []) (hr : stY.received = []) :
    Ledger hX0 hY0 hX0 stX hY0 stY [] [] [] :=
  ⟨by simp, hs, hr, by simp [filter_const_true], by simp, (by intro x hx; cases hx), (by intro x hx; cases hx),
    (by intro x hx; cases hx), List.nodup_nil⟩

/-- the ledger looks at five things only -/
theorem Ledger.congr {hX0 hY0 hX hX' : HState} {stX stX' : SState} {hY hY' : HState} {stY stY' : SState}
    {La : List (Bytes × Bytes)} {Lr Ld : List Bytes} (L : Ledger hX0 hY0 hX stX hY stY La Lr Ld)
    (h1 : hX'.outbox = hX.outbox) (h2 : hX'.deferred = hX.deferred) (h3 : stX'.sent = stX.sent)
    (h4 : hY'.inbox = hY.inbox) (h5 : stY'.received = stY.received) : Ledger hX0 hY0 hX' stX' hY' stY' La Lr Ld :=
  ⟨by rw [h4]; exact L.inbox, by rw [h3]; exact L.sent, by rw [h5]; exact L.recd, by rw [h1]; exact L.outbox,
    by rw [h2]; exact L.deferred, L.acc, L.rej, L.dfr, L.nodup⟩

/-- what is still offered is part of what was offered at the start, and not in the ledger -/
theorem Ledger.vo_sub {hX0 hY0 hX : HState} {stX : SState} {hY : HState} {stY : SState} {La : List (Bytes × Bytes)}
    {Lr Ld : List Bytes} (L : Ledger hX0 hY0 hX stX hY stY La Lr Ld) (msg : OutMsg) (hm : msg ∈ vo hX) :
    msg ∈ vo hX0 ∧ msg.mid ∉ La.map (·.1) ∧ msg.mid ∉ Lr ∧ msg.mid ∉ Ld := by
  simp only [vo, offered, List.mem_filter, L.outbox, L.deferred, Bool.and_eq_true, Bool.not_eq_true',
    List.contains_eq_mem, decide_eq_false_iff_not, List.mem_append, List.mem_reverse, not_or] at hm ⊢
  obtain ⟨⟨⟨h1, h2, h3⟩, h4, h5⟩, h6⟩ := hm
  exact ⟨⟨⟨h1, h5⟩, h6⟩, h2, h3, h4⟩

/-! ### one block -/

theorem contains_append' (l1 l2 : List Bytes) (x : Bytes) : (l1 ++ l2).contains x = (l1.contains x || l2.contains x) := by
  simp

theorem contains_reverse' (l : List Bytes) (x : Bytes) : l.reverse.contains x = l.contains x := by simp

/-- the sender's handler after a block with answers `as` -/
def hAfterSend (hX : HState) (B : List Proposal) (as : List UInt8) : HState :=
  hSent (hSent (hDefer hX (deferredMids B as)) true (rejectedMids B as)) false (acceptedMids B as)

theorem hAfterSend_outbox (hX : HState) (B : List Proposal) (as : List UInt8) :
    (hAfterSend hX B as).outbox =
      hX.outbox.filter fun x => !(acceptedMids B as).contains x.mid && !(rejectedMids B as).contains x.mid := by
  simp only [hAfterSend, hSent_outbox, hDefer_outbox, List.filter_filter]

theorem hAfterSend_deferred (hX : HState) (B : List Proposal) (as : List UInt8) :
    (hAfterSend hX B as).deferred = (deferredMids B as).reverse ++ hX.deferred := by
  simp only [hAfterSend, hSent_deferred, hDefer_deferred]

theorem hAfterSend_policy (hX : HState) (B : List Proposal) (as : List UInt8) : (hAfterSend hX B as).policy = hX.policy := by
  simp only [hAfterSend, hSent_policy, hDefer_policy]

theorem hAfterSend_inbox (hX : HState) (B : List Proposal) (as : List UInt8) : (hAfterSend hX B as).inbox = hX.inbox := by
  simp only [hAfterSend, hSent_inbox, hDefer_inbox]

theorem hAfterSend_quiet (hX : HState) (B : List Proposal) (as : List UInt8) (q : Quiet hX) : Quiet (hAfterSend hX B as) :=
  hSent_quiet _ _ _ (hSent_quiet _ _ _ (hDefer_quiet _ _ q))

theorem hDefer_hle (ms : List Bytes) : ∀ (h : HState), HLe (hDefer h ms) h := by
  induction ms with
  | nil => intro h; exact HLe.refl h
  | cons m ms ih => intro h; rw [hDefer_cons]; exact (ih _).trans (hstep_hle h _)

theorem hSent_hle (rej : Bool) (ms : List Bytes) : ∀ (h : HState), HLe (hSent h rej ms) h := by
  induction ms with
  | nil => intro h; exact HLe.refl h
  | cons m ms ih => intro h; rw [hSent_cons]; exact (ih _).trans (hstep_hle h _)

theorem hAfterSend_hle (hX : HState) (B : List Proposal) (as : List UInt8) : HLe (hAfterSend hX B as) hX :=
  (hSent_hle _ _ _).trans ((hSent_hle _ _ _).trans (hDefer_hle _ _))

theorem deliver_hle (ds : List Bytes) : ∀ (h : HState), HLe (ds.foldl (deliverStep hstep) h) h := by
  induction ds with
  | nil => intro h; exact HLe.refl h
  | cons d ds ih =>
    intro h
    simp only [List.foldl_cons]
    exact (ih _).trans ((hstep_hle _ _).trans (hstep_hle h _))

theorem vo_congr {h h' : HState} (ho : h'.outbox = h.outbox) (hd : h'.deferred = h.deferred) : vo h' = vo h := by
  simp only [vo, offered, ho, hd]

theorem offered_congr {h h' : HState} (ho : h'.outbox = h.outbox) (hd : h'.deferred = h.deferred) : offered h' = offered h := by
  simp only [offered, ho, hd]

theorem answerFor_congr {h h' : HState} (hp : h'.policy = h.policy) (m : Bytes) : h'.answerFor m = h.answerFor m := by
  unfold HState.answerFor; rw [hp]

theorem mem_zip_map {α β : Type} (f : α → β) : ∀ (l : List α) (x : α) (y : β), (x, y) ∈ l.zip (l.map f) → y = f x
  | [], _, _, h => by simp at h
  | a :: l, x, y, h => by
    simp only [List.map_cons, List.zip_cons_cons, List.mem_cons, Prod.mk.injEq] at h
    rcases h with ⟨rfl, rfl⟩ | h
    · rfl
    · exact mem_zip_map f l x y h

theorem mem_of_sublist_map {l : List Bytes} {ps : List Proposal} (hs : l.Sublist (ps.map (·.mid))) (m : Bytes) (hm : m ∈ l) :
    ∃ p ∈ ps, p.mid = m := by
  have := hs.subset hm
  simp only [List.mem_map] at this
  exact this

/-- **The ledger after a block.** -/
theorem Ledger.block {hX0 hY0 hX : HState} {stX : SState} {hY : HState} {stY : SState} {La : List (Bytes × Bytes)}
    {Lr Ld : List Bytes} (L : Ledger hX0 hY0 hX stX hY stY La Lr Ld) (cX : Cfg) (dataOf : Proposal → Bytes)
    (hpolY : hY.policy = hY0.policy) (qY : Quiet hY) (hdata : ∀ msg ∈ vo hX, dataOf (mkProp msg) = msg.data)
    (hnd0 : (hX0.outbox.map (·.mid)).Nodup) (stX' stY' : SState)
    (hs : stX'.sent = stX.sent ++ acceptedMids (blockOf' cX (offered hX)) ((blockOf' cX (offered hX)).map fun p => hY.answerFor p.mid))
    (hr : stY'.received = stY.received ++
      acceptedMids (blockOf' cX (offered hX)) ((blockOf' cX (offered hX)).map fun p => hY.answerFor p.mid)) :
    Ledger hX0 hY0
      (hAfterSend hX (blockOf' cX (offered hX)) ((blockOf' cX (offered hX)).map fun p => hY.answerFor p.mid)) stX'
      ((acceptedData dataOf (blockOf' cX (offered hX)) ((blockOf' cX (offered hX)).map fun p => hY.answerFor p.mid)).foldl
        (deliverStep hstep) hY) stY'
      (La ++ acceptedPairs dataOf (blockOf' cX (offered hX)) ((blockOf' cX (offered hX)).map fun p => hY.answerFor p.mid))
      (Lr ++ rejectedMids (blockOf' cX (offered hX)) ((blockOf' cX (offered hX)).map fun p => hY.answerFor p.mid))
      (Ld ++ deferredMids (blockOf' cX (offered hX)) ((blockOf' cX (offered hX)).map fun p => hY.answerFor p.mid)) := by
  generalize hB : blockOf' cX (offered hX) = B at hs hr ⊢
  generalize has : (B.map fun p => hY.answerFor p.mid) = as at hs hr ⊢
  have hsrc : ∀ p ∈ B, ∃ msg ∈ vo hX, p = mkProp msg := by
    intro p hp; rw [← hB] at hp; exact mem_block_vo cX hX p hp
  have hans : ∀ p a, (p, a) ∈ B.zip as → a = hY0.answerFor p.mid := by
    intro p a hpa
    rw [← has] at hpa
    rw [mem_zip_map _ B p a hpa]
    exact answerFor_congr hpolY _
  have hndX : (hX.outbox.map (·.mid)).Nodup := by
    rw [L.outbox]
    exact ((List.filter_sublist).map _).nodup hnd0
  have hndB : (B.map (·.mid)).Nodup := by rw [← hB]; exact block_nodup cX hX hndX
  obtain ⟨d1, _, _, _, _, _⟩ := deliver_view (acceptedData dataOf B as) hY qY
  refine ⟨?_, ?_, ?_, ?_, ?_, ?_, ?_, ?_, ?_⟩
  · rw [d1, L.inbox, acceptedData_pairs]; simp
  · rw [hs, L.sent, acceptedMids_pairs dataOf]; simp
  · rw [hr, L.recd, acceptedMids_pairs dataOf]; simp
  · rw [hAfterSend_outbox, L.outbox, List.filter_filter, acceptedMids_pairs dataOf]
    apply List.filter_congr
    intro x _
    rw [List.map_append, contains_append', contains_append']
    cases (List.map (fun x => x.1) La).contains x.mid <;> cases Lr.contains x.mid <;>
      cases (List.map (fun x => x.1) (acceptedPairs dataOf B as)).contains x.mid <;>
      cases (rejectedMids B as).contains x.mid <;> rfl
  · rw [hAfterSend_deferred, L.deferred]; simp
  · intro x hx
    rcases List.mem_append.mp hx with hx | hx
    · exact L.acc x hx
    · obtain ⟨p, hpa, rfl⟩ := mem_acceptedPairs dataOf B as x hx
      obtain ⟨msg, hm, rfl⟩ := hsrc p (List.of_mem_zip hpa).1
      exact ⟨msg, (L.vo_sub msg hm).1, rfl, (hdata msg hm).symm, (hans _ _ hpa).symm⟩
  · intro m hm
    rcases List.mem_append.mp hm with hm | hm
    · exact L.rej m hm
    · obtain ⟨p, hpa, rfl⟩ := mem_rejectedMids B as m hm
      obtain ⟨msg, hm', rfl⟩ := hsrc p (List.of_mem_zip hpa).1
      exact ⟨msg, (L.vo_sub msg hm').1, rfl, (hans _ _ hpa).symm⟩
  · intro m hm
    rcases List.mem_append.mp hm with hm | hm
    · exact L.dfr m hm
    · obtain ⟨p, hpa, rfl⟩ := mem_deferredMids B as m hm
      obtain ⟨msg, hm', rfl⟩ := hsrc p (List.of_mem_zip hpa).1
      exact ⟨msg, (L.vo_sub msg hm').1, rfl, (hans _ _ hpa).symm⟩
  · rw [List.map_append, List.nodup_append]
    refine ⟨L.nodup, ?_, ?_⟩
    · rw [← acceptedMids_pairs dataOf]
      exact (acceptedMids_sublist B as).nodup hndB
    · intro a ha b hb e
      subst e
      rw [← acceptedMids_pairs dataOf] at hb
      obtain ⟨p, hp, rfl⟩ := mem_of_sublist_map (acceptedMids_sublist B as) _ hb
      obtain ⟨msg, hm', rfl⟩ := hsrc p hp
      exact (L.vo_sub msg hm').2.1 ha

/-- **A block makes the queue shorter**: every proposal of the block is out of what is offered next. -/
theorem vo_after_block_lt (hX : HState) (B : List Proposal) (as : List UInt8) (dataOf : Proposal → Bytes)
    (hsrc : ∀ p ∈ B, ∃ msg ∈ vo hX, p = mkProp msg) (hne : B ≠ []) (hlen : as.length = B.length)
    (hpl : ∀ a ∈ as, PlainAnswer a) :
    (vo (hAfterSend hX B as)).length < (vo hX).length := by
  have e : vo (hAfterSend hX B as) = (vo hX).filter fun x =>
      !(acceptedMids B as).contains x.mid && !(rejectedMids B as).contains x.mid && !(deferredMids B as).contains x.mid := by
    simp only [vo, offered, hAfterSend_outbox, hAfterSend_deferred, List.filter_filter]
    apply List.filter_congr
    intro x _
    rw [contains_append', contains_reverse']
    cases x.valid <;> cases (acceptedMids B as).contains x.mid <;> cases (rejectedMids B as).contains x.mid <;>
      cases (deferredMids B as).contains x.mid <;> cases hX.deferred.contains x.mid <;> rfl
  rw [e, List.length_filter_lt_length_iff_exists]
  cases B with
  | nil => exact absurd rfl hne
  | cons p ps =>
    obtain ⟨msg, hm, rfl⟩ := hsrc p (by simp)
    refine ⟨msg, hm, ?_⟩
    have := mem_class_of_mem dataOf (mkProp msg :: ps) as hlen hpl (mkProp msg) (by simp)
    rw [← acceptedMids_pairs dataOf] at this
    have hmid : (mkProp msg).mid = msg.mid := rfl
    rw [hmid] at this
    simp only [List.contains_eq_mem, Bool.and_eq_true, Bool.not_eq_true', decide_eq_false_iff_not, not_and, Decidable.not_not]
    intro h1
    rcases this with h | h | h
    · exact absurd h h1.1
    · exact absurd h h1.2
    · exact h

end Wl2k.B2F
