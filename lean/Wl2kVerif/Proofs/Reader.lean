import Wl2kVerif.Lzhuf.Reader
/-
Helper lemmas about the decompressor READ LOOP (`Lzhuf/Reader.lean`): frame lemmas for the bit/Huffman
layer (treated as a black box), byte accounting for `copyMatch` / `fill` / `read`, the stream invariant
`Inv`, progress, stickiness of errors, and the token-level stream semantics used for buffer-size
independence.  No Huffman-tree invariant is used anywhere in this file.
-/
namespace Wl2k.Lzhuf

/-! ### Frame: the bit/Huffman layer only touches `h bpos pulled bn bbits berr` -/

/-- `Frame d d'`: `d'` differs from `d` at most in the fields `h, bpos, pulled, bn, bbits, berr`. -/
structure Frame (d d' : Reader) : Prop where
  pos : d'.pos = d.pos
  pending : d'.pending = d.pending
  size : d'.size = d.size
  err : d'.err = d.err
  r : d'.r = d.r
  textBuf : d'.textBuf = d.textBuf
  crc16 : d'.crc16 = d.crc16
  hcrc : d'.hcrc = d.hcrc
  sizeBytes : d'.sizeBytes = d.sizeBytes
  src : d'.src = d.src

theorem Frame.refl (d : Reader) : Frame d d := ⟨rfl, rfl, rfl, rfl, rfl, rfl, rfl, rfl, rfl, rfl⟩

theorem Frame.trans {a b c : Reader} (h1 : Frame a b) (h2 : Frame b c) : Frame a c :=
  ⟨h2.pos.trans h1.pos, h2.pending.trans h1.pending, h2.size.trans h1.size, h2.err.trans h1.err,
   h2.r.trans h1.r, h2.textBuf.trans h1.textBuf, h2.crc16.trans h1.crc16, h2.hcrc.trans h1.hcrc,
   h2.sizeBytes.trans h1.sizeBytes, h2.src.trans h1.src⟩

theorem readByte_frame (d : Reader) : Frame d d.readByte.1 := by
  unfold Reader.readByte
  split
  · exact ⟨rfl, rfl, rfl, rfl, rfl, rfl, rfl, rfl, rfl, rfl⟩
  · split
    · exact ⟨rfl, rfl, rfl, rfl, rfl, rfl, rfl, rfl, rfl, rfl⟩
    · exact Frame.refl d

theorem readBits_frame (d : Reader) (bits : Nat) : Frame d (d.readBits bits).1 := by
  have hb := readByte_frame d
  unfold Reader.readBits
  by_cases h : bits > d.bbits
  · simp only [h, if_true]
    rcases hrb : d.readByte with ⟨d1, ob⟩
    rw [hrb] at hb
    cases ob with
    | none => exact ⟨hb.pos, hb.pending, hb.size, hb.err, hb.r, hb.textBuf, hb.crc16, hb.hcrc, hb.sizeBytes, hb.src⟩
    | some b => exact ⟨hb.pos, hb.pending, hb.size, hb.err, hb.r, hb.textBuf, hb.crc16, hb.hcrc, hb.sizeBytes, hb.src⟩
  · simp only [h, if_false]
    exact ⟨rfl, rfl, rfl, rfl, rfl, rfl, rfl, rfl, rfl, rfl⟩

theorem walk_frame (d : Reader) (c fuel : Nat) : Frame d (d.walk c fuel).1 := by
  induction fuel generalizing d c with
  | zero => exact ⟨rfl, rfl, rfl, rfl, rfl, rfl, rfl, rfl, rfl, rfl⟩
  | succ n ih =>
    unfold Reader.walk
    split
    · have h1 := readBits_frame d 1
      rcases hrb : d.readBits 1 with ⟨d1, b⟩
      rw [hrb] at h1
      simp only
      refine Frame.trans (Frame.trans h1 ?_) (ih _ _)
      exact ⟨rfl, rfl, rfl, rfl, rfl, rfl, rfl, rfl, rfl, rfl⟩
    · exact Frame.refl d

theorem decodeChar_frame (d : Reader) : Frame d d.decodeChar.1 := by
  unfold Reader.decodeChar
  have h1 := walk_frame d (rd d.h.son R) (T + 1)
  rcases hw : d.walk (rd d.h.son R) (T + 1) with ⟨d1, c⟩
  rw [hw] at h1
  exact ⟨h1.pos, h1.pending, h1.size, h1.err, h1.r, h1.textBuf, h1.crc16, h1.hcrc, h1.sizeBytes, h1.src⟩

theorem lowBits_frame (d : Reader) (i j : Nat) : Frame d (d.lowBits i j).1 := by
  induction j generalizing d i with
  | zero => exact Frame.refl d
  | succ n ih =>
    unfold Reader.lowBits
    have h1 := readBits_frame d 1
    rcases hrb : d.readBits 1 with ⟨d1, b⟩
    rw [hrb] at h1
    exact Frame.trans h1 (ih _ _)

theorem decodePosition_frame (d : Reader) : Frame d d.decodePosition.1 := by
  unfold Reader.decodePosition
  have h1 := readBits_frame d 8
  rcases hrb : d.readBits 8 with ⟨d1, i⟩
  rw [hrb] at h1
  simp only
  have h2 := lowBits_frame d1 i (tbl Gen.dLen i - 2)
  rcases hl : d1.lowBits i (tbl Gen.dLen i - 2) with ⟨d2, i2⟩
  rw [hl] at h2
  exact Frame.trans h1 h2

/-! ### Accounting for `copyMatch` -/

/-- What one run of the match-copy loop guarantees (`d out room` before, `d' out' room' stop` after). -/
structure CopyAcc (d : Reader) (out : Bytes) (room : Nat) (d' : Reader) (out' : Bytes) (room' : Nat)
    (stop : Bool) : Prop where
  size : d'.size = d.size
  berr : d'.berr = d.berr
  /-- every byte decoded goes to the caller's buffer or to `pending` -/
  acct : out'.length + d'.pending.length + d.pos = out.length + d.pending.length + d'.pos
  roomAcct : out'.length + room' = out.length + room
  out_le : out.length ≤ out'.length
  pos_le : d.pos ≤ d'.pos
  bound : (d.pos : Int) ≤ max 0 d.size → (d'.pos : Int) ≤ max 0 d.size
  err_nostop : stop = false → d'.err = d.err
  err_stop : stop = true → d'.err = some .checksum ∧ (d'.pos : Int) ≥ d.size
  pend : 0 < room' → d'.pending = d.pending

theorem CopyAcc.step {d : Reader} (d1 : Reader) {d' : Reader} {out out1 out' : Bytes} {room room1 room' : Nat} {stop : Bool}
    (hlt : ¬ (d.pos : Int) ≥ d.size)
    (e1 : d1.pos = d.pos + 1) (e2 : d1.size = d.size) (e4 : d1.err = d.err) (e5 : d1.berr = d.berr)
    (hlen : out1.length + d1.pending.length = out.length + d.pending.length + 1)
    (hroom : out1.length + room1 = out.length + room)
    (hout : out.length ≤ out1.length)
    (hpend : 0 < room1 → d1.pending = d.pending)
    (a : CopyAcc d1 out1 room1 d' out' room' stop) : CopyAcc d out room d' out' room' stop := by
  have aacct := a.acct; have aroom := a.roomAcct; have apos := a.pos_le; have abound := a.bound
  have aout := a.out_le
  rw [e1] at aacct apos; rw [e1, e2] at abound
  refine ⟨a.size.trans e2, a.berr.trans e5, by omega, by omega, by omega, by omega, ?_,
    fun h => (a.err_nostop h).trans e4, fun h => by have := a.err_stop h; rw [e2] at this; exact this,
    fun h => (a.pend h).trans (hpend (by omega))⟩
  intro _; apply abound; omega

theorem copyMatch_acc (d : Reader) (i : Nat) (out : Bytes) (room k j : Nat) :
    CopyAcc d out room (d.copyMatch i out room k j).1 (d.copyMatch i out room k j).2.1
      (d.copyMatch i out room k j).2.2.1 (d.copyMatch i out room k j).2.2.2 := by
  induction j generalizing d out room k with
  | zero =>
    unfold Reader.copyMatch
    exact ⟨rfl, rfl, rfl, rfl, Nat.le_refl _, Nat.le_refl _, fun h => h, fun _ => rfl, fun h => by simp at h,
      fun _ => rfl⟩
  | succ n ih =>
    unfold Reader.copyMatch
    by_cases hp : (d.pos : Int) ≥ d.size
    · simp only [hp, if_true]
      exact ⟨rfl, rfl, rfl, rfl, Nat.le_refl _, Nat.le_refl _, fun h => h, fun h => by simp at h,
        fun _ => ⟨rfl, hp⟩, fun _ => rfl⟩
    · simp only [hp, if_false]
      by_cases hr : room > 0
      · simp only [hr, if_true]
        refine CopyAcc.step (d.putOne (d.textBuf.getD ((i + k) % N) 0)) (a := ih _ _ _ _) hp rfl rfl rfl rfl ?_ ?_ ?_
          (fun _ => rfl)
        · simp [Reader.putOne]; omega
        · simp only [List.length_cons]; omega
        · simp
      · simp only [hr, if_false]
        refine CopyAcc.step (({ d with pending := d.pending ++ [d.textBuf.getD ((i + k) % N) 0] } : Reader).putOne
          (d.textBuf.getD ((i + k) % N) 0)) (a := ih _ _ _ _) hp rfl rfl rfl rfl ?_ rfl (Nat.le_refl _)
          (fun h => absurd h hr)
        simp [Reader.putOne]; omega

theorem copyMatch_progress (d : Reader) (i : Nat) (out : Bytes) (room k j : Nat)
    (hj : 0 < j) (hr : 0 < room) (hp : (d.pos : Int) < d.size) :
    out.length < (d.copyMatch i out room k j).2.1.length := by
  cases j with
  | zero => omega
  | succ n =>
    unfold Reader.copyMatch
    have hp' : ¬ (d.pos : Int) ≥ d.size := by omega
    simp only [hp', if_false, hr, if_true]
    have a := (copyMatch_acc (d.putOne (d.textBuf.getD ((i + k) % N) 0)) i
      (d.textBuf.getD ((i + k) % N) 0 :: out) (room - 1) (k + 1) n).out_le
    simp only [List.length_cons] at a
    omega

/-! ### Accounting for `fill` -/

/-- Transitive accounting relation between a state `(d, out)` with `room` bytes left in the caller's
buffer and a later state `(d', out')` of the same `Read` call. -/
structure LoopAcc (d : Reader) (out : Bytes) (room : Nat) (d' : Reader) (out' : Bytes) : Prop where
  size : d'.size = d.size
  /-- every byte decoded goes to the caller's buffer or to `pending` -/
  acct : out'.length + d'.pending.length + d.pos = out.length + d.pending.length + d'.pos
  room_le : out'.length ≤ out.length + room
  out_le : out.length ≤ out'.length
  pos_le : d.pos ≤ d'.pos
  bound : (d.pos : Int) ≤ max 0 d.size → (d'.pos : Int) ≤ max 0 d.size
  err : d'.err = d.err ∨ d'.err = some .checksum
  pend : out'.length < out.length + room → d'.pending = d.pending

theorem LoopAcc.refl (d : Reader) (out : Bytes) (room : Nat) : LoopAcc d out room d out :=
  ⟨rfl, rfl, Nat.le_add_right _ _, Nat.le_refl _, Nat.le_refl _, fun h => h, Or.inl rfl, fun _ => rfl⟩

theorem LoopAcc.trans {d d1 d2 : Reader} {out out1 out2 : Bytes} {room room1 : Nat}
    (a : LoopAcc d out room d1 out1) (hroom : out1.length + room1 = out.length + room)
    (b : LoopAcc d1 out1 room1 d2 out2) : LoopAcc d out room d2 out2 := by
  have a1 := a.acct; have a2 := a.room_le; have a3 := a.out_le; have a4 := a.pos_le
  have b1 := b.acct; have b2 := b.room_le; have b3 := b.out_le; have b4 := b.pos_le
  have bb := b.bound; rw [a.size] at bb
  refine ⟨b.size.trans a.size, by omega, by omega, by omega, by omega, fun h => bb (a.bound h), ?_, ?_⟩
  · rcases b.err with h | h
    · rw [h]; exact a.err
    · exact Or.inr h
  · intro h
    exact (b.pend (by omega)).trans (a.pend (by omega))

theorem LoopAcc.ofFrame {d d' : Reader} (f : Frame d d') (out : Bytes) (room : Nat) : LoopAcc d out room d' out := by
  refine ⟨f.size, ?_, Nat.le_add_right _ _, Nat.le_refl _, Nat.le_of_eq f.pos.symm, ?_, Or.inl f.err, fun _ => f.pending⟩
  · rw [f.pending, f.pos]
  · rw [f.pos]; exact fun h => h

theorem LoopAcc.ofCopy {d d' : Reader} {out out' : Bytes} {room room' : Nat} {stop : Bool}
    (a : CopyAcc d out room d' out' room' stop) : LoopAcc d out room d' out' := by
  have h1 := a.roomAcct
  refine ⟨a.size, a.acct, by omega, a.out_le, a.pos_le, a.bound, ?_, fun h => a.pend (by omega)⟩
  cases stop with
  | false => exact Or.inl (a.err_nostop rfl)
  | true => exact Or.inr (a.err_stop rfl).1

theorem LoopAcc.putOne (d : Reader) (c : UInt8) (out : Bytes) (room : Nat) (hr : 0 < room)
    (hp : (d.pos : Int) < d.size) : LoopAcc d out room (d.putOne c) (c :: out) := by
  refine ⟨rfl, ?_, ?_, ?_, ?_, ?_, Or.inl rfl, fun _ => rfl⟩
  · simp [Reader.putOne]; omega
  · simp only [List.length_cons]; omega
  · simp
  · simp [Reader.putOne]
  · intro _; simp only [Reader.putOne]; omega

theorem fill_acc (d : Reader) (out : Bytes) (room fuel : Nat) :
    LoopAcc d out room (d.fill out room fuel).1 (d.fill out room fuel).2 := by
  induction fuel generalizing d out room with
  | zero => exact LoopAcc.refl _ _ _
  | succ n ih =>
    unfold Reader.fill
    split
    · rename_i hc
      have f1 := decodeChar_frame d
      rcases hdc : d.decodeChar with ⟨d1, c⟩
      rw [hdc] at f1
      simp only
      have hp1 : (d1.pos : Int) < d1.size := by rw [f1.pos, f1.size]; exact hc.2.2
      split
      · exact LoopAcc.trans (LoopAcc.trans (LoopAcc.ofFrame f1 out room) rfl (LoopAcc.putOne d1 _ out room hc.1 hp1))
          (by simp only [List.length_cons]; omega) (ih _ _ _)
      · have f2 := decodePosition_frame d1
        rcases hdp : d1.decodePosition with ⟨d2, p⟩
        rw [hdp] at f2
        simp only
        have a := copyMatch_acc d2 ((d2.r + 2 * N - p - 1) % N) out room 0 (c - 255 + THRESHOLD)
        rcases hcm : d2.copyMatch ((d2.r + 2 * N - p - 1) % N) out room 0 (c - 255 + THRESHOLD) with ⟨d3, out3, room3, stop⟩
        rw [hcm] at a
        simp only at a ⊢
        have a3 := LoopAcc.trans (LoopAcc.ofFrame (Frame.trans f1 f2) out room) rfl (LoopAcc.ofCopy a)
        split
        · exact a3
        · exact LoopAcc.trans a3 a.roomAcct (ih _ _ _)
    · exact LoopAcc.refl _ _ _

theorem fill_progress (d : Reader) (out : Bytes) (room fuel : Nat) (hf : 0 < fuel) (hr : 0 < room)
    (hb : d.berr = false) (hp : (d.pos : Int) < d.size) :
    out.length < (d.fill out room fuel).2.length := by
  cases fuel with
  | zero => omega
  | succ n =>
    unfold Reader.fill
    have hc : room > 0 ∧ (!d.berr) = true ∧ (d.pos : Int) < d.size := ⟨hr, by simp [hb], hp⟩
    rw [if_pos hc]
    have f1 := decodeChar_frame d
    rcases hdc : d.decodeChar with ⟨d1, c⟩
    rw [hdc] at f1
    simp only
    split
    · have a := (fill_acc (d1.putOne (UInt8.ofNat c)) (UInt8.ofNat c :: out) (room - 1) n).out_le
      simp only [List.length_cons] at a
      omega
    · have f2 := decodePosition_frame d1
      rcases hdp : d1.decodePosition with ⟨d2, p⟩
      rw [hdp] at f2
      simp only
      have hp2 : (d2.pos : Int) < d2.size := by rw [f2.pos, f2.size, f1.pos, f1.size]; exact hp
      have pr := copyMatch_progress d2 ((d2.r + 2 * N - p - 1) % N) out room 0 (c - 255 + THRESHOLD)
        (by simp [THRESHOLD]) hr hp2
      rcases hcm : d2.copyMatch ((d2.r + 2 * N - p - 1) % N) out room 0 (c - 255 + THRESHOLD) with ⟨d3, out3, room3, stop⟩
      rw [hcm] at pr
      simp only at pr ⊢
      split
      · exact pr
      · have a := (fill_acc d3 out3 room3 n).out_le
        omega

/-! ### `read` -/

/-- The stream invariant: never past the declared size, and `pending` is part of what was decoded. -/
def Inv (d : Reader) : Prop := (d.pos : Int) ≤ max 0 d.size ∧ d.pending.length ≤ d.pos

/-- the state `Read` works on after its first `switch` -/
def Reader.norm (d : Reader) : Reader := if d.berr then { d with err := some .unexpectedEOF } else d

theorem norm_pos (d : Reader) : d.norm.pos = d.pos := by unfold Reader.norm; split <;> rfl
theorem norm_size (d : Reader) : d.norm.size = d.size := by unfold Reader.norm; split <;> rfl
theorem norm_pending (d : Reader) : d.norm.pending = d.pending := by unfold Reader.norm; split <;> rfl
theorem norm_berr (d : Reader) : d.norm.berr = d.berr := by unfold Reader.norm; split <;> rfl
theorem norm_err_of_berr (d : Reader) (h : d.berr = true) : d.norm.err = some .unexpectedEOF := by
  unfold Reader.norm; rw [if_pos h]
theorem norm_of_not_berr (d : Reader) (h : d.berr = false) : d.norm = d := by
  unfold Reader.norm; simp [h]
theorem norm_norm (d : Reader) : d.norm.norm = d.norm := by
  unfold Reader.norm; split <;> simp_all

/-- the data path of `Read`: serve from `pending`, then decode -/
def Reader.readFill (d : Reader) (m : Nat) : Reader × Bytes :=
  ({ d with pending := d.pending.drop m } : Reader).fill (d.pending.take m).reverse
    (m - (d.pending.take m).length) (m + 1)

theorem read_eq' (d0 d : Reader) (m : Nat) (h : d = (if d0.berr then { d0 with err := some .unexpectedEOF } else d0)) :
    d0.read m =
      if !d.berr ∧ (d.pos : Int) ≥ d.size ∧ d.pending.isEmpty then (d, [], some .eof)
      else if d.err.isSome then (d, [], d.err)
      else ((d.readFill m).1, (d.readFill m).2.reverse, none) := by
  unfold Reader.read Reader.readFill
  rw [← h]

/-- the three outcomes of `read`, in terms of `norm` -/
theorem read_eq (d : Reader) (m : Nat) :
    d.read m =
      if !d.norm.berr ∧ (d.norm.pos : Int) ≥ d.norm.size ∧ d.norm.pending.isEmpty then (d.norm, [], some .eof)
      else if d.norm.err.isSome then (d.norm, [], d.norm.err)
      else ((d.norm.readFill m).1, (d.norm.readFill m).2.reverse, none) := read_eq' d d.norm m rfl

/-- What the data path of one `Read` guarantees. -/
structure FillAcc (d : Reader) (m : Nat) (d' : Reader) (out : Bytes) : Prop where
  size : d'.size = d.size
  len_le : out.length ≤ m
  len_ge : min m d.pending.length ≤ out.length
  acct : out.length + d'.pending.length + d.pos = d.pending.length + d'.pos
  pos_le : d.pos ≤ d'.pos
  bound : (d.pos : Int) ≤ max 0 d.size → (d'.pos : Int) ≤ max 0 d.size
  err : d'.err = d.err ∨ d'.err = some .checksum
  pend : out.length < m → d'.pending = []

theorem readFill_acc (d : Reader) (m : Nat) : FillAcc d m (d.readFill m).1 (d.readFill m).2 := by
  have a : LoopAcc { d with pending := d.pending.drop m } (d.pending.take m).reverse (m - (d.pending.take m).length)
      (d.readFill m).1 (d.readFill m).2 := fill_acc _ _ _ _
  have a1 := a.acct; have a2 := a.room_le; have a3 := a.pos_le; have a4 := a.bound; have a5 := a.out_le
  have a6 := a.pend
  have hs : ({ d with pending := d.pending.drop m } : Reader).size = d.size := rfl
  have hq : ({ d with pending := d.pending.drop m } : Reader).pos = d.pos := rfl
  have hpd : ({ d with pending := d.pending.drop m } : Reader).pending = d.pending.drop m := rfl
  have he : ({ d with pending := d.pending.drop m } : Reader).err = d.err := rfl
  rw [hs, hq] at a4; rw [hq] at a3; rw [hq, hpd] at a1; rw [hpd] at a6
  simp only [List.length_reverse, List.length_take, List.length_drop] at a1 a2 a5 a6
  refine ⟨a.size.trans hs, by omega, by omega, by omega, a3, a4, he ▸ a.err, ?_⟩
  intro h
  rw [a6 (by omega)]
  exact List.drop_eq_nil_of_le (by omega)

/-- What one `Read` guarantees. -/
structure ReadAcc (d : Reader) (m : Nat) (d' : Reader) (bs : Bytes) (e : Option RErr) : Prop where
  size : d'.size = d.size
  len_le : bs.length ≤ m
  /-- every byte decoded is returned or kept in `pending` -/
  acct : bs.length + d'.pending.length + d.pos = d.pending.length + d'.pos
  pos_le : d.pos ≤ d'.pos
  bound : (d.pos : Int) ≤ max 0 d.size → (d'.pos : Int) ≤ max 0 d.size
  nodata : e ≠ none → bs = [] ∧ d' = d.norm

theorem read_acc (d : Reader) (m : Nat) : ReadAcc d m (d.read m).1 (d.read m).2.1 (d.read m).2.2 := by
  rw [read_eq]
  split
  · refine ⟨norm_size d, Nat.zero_le _, ?_, Nat.le_of_eq (norm_pos d).symm, ?_, fun _ => ⟨rfl, rfl⟩⟩
    · simp [norm_pending, norm_pos]
    · rw [norm_pos]; exact fun h => h
  · split
    · refine ⟨norm_size d, Nat.zero_le _, ?_, Nat.le_of_eq (norm_pos d).symm, ?_, fun _ => ⟨rfl, rfl⟩⟩
      · simp [norm_pending, norm_pos]
      · rw [norm_pos]; exact fun h => h
    · have a := readFill_acc d.norm m
      have a1 := a.acct; have a2 := a.len_le; have a3 := a.pos_le; have a4 := a.bound
      rw [norm_pos, norm_size] at a4; rw [norm_pos] at a3 a1; rw [norm_pending] at a1
      refine ⟨a.size.trans (norm_size d), ?_, ?_, a3, a4, fun h => absurd rfl h⟩
      · simpa using a2
      · simpa using a1

theorem read_inv (d : Reader) (m : Nat) (h : Inv d) : Inv (d.read m).1 := by
  have a := read_acc d m
  have a1 := a.acct
  exact ⟨a.size ▸ a.bound h.1, by have := h.2; omega⟩

theorem new_fields (crc16 : Bool) (s : Bytes) (d : Reader) (h : Reader.new crc16 s = .ok d) :
    d.pos = 0 ∧ d.pending = [] ∧ d.err = none ∧ d.berr = false := by
  unfold Reader.new at h
  simp only at h
  by_cases h1 : crc16 = true ∧ s.length < 2
  · rw [if_pos h1] at h; cases h
  · rw [if_neg h1] at h
    by_cases h2 : (s.drop (if crc16 = true then 2 else 0)).length < 4
    · rw [if_pos h2] at h; cases h
    · rw [if_neg h2] at h
      have h3 := Except.ok.inj h
      rw [← h3]
      exact ⟨rfl, rfl, rfl, rfl⟩

theorem new_inv (crc16 : Bool) (s : Bytes) (d : Reader) (h : Reader.new crc16 s = .ok d) : Inv d := by
  obtain ⟨h1, h2, -, -⟩ := new_fields crc16 s d h
  unfold Inv
  rw [h1, h2]
  exact ⟨by omega, Nat.le_refl _⟩
/-! ### Sequences of reads -/

/-- Successive `Read`s with buffer sizes `ns` (continuing after errors exactly as a caller's loop that
ignores them would): final state and the concatenation of all bytes returned. -/
def readsWith : Reader → List Nat → Reader × Bytes
  | d, [] => (d, [])
  | d, m :: ns => ((readsWith (d.read m).1 ns).1, (d.read m).2.1 ++ (readsWith (d.read m).1 ns).2)

/-- the error results of the same sequence of reads -/
def errsWith : Reader → List Nat → List (Option RErr)
  | _, [] => []
  | d, m :: ns => (d.read m).2.2 :: errsWith (d.read m).1 ns

/-- the number of reads in the sequence that returned `err == nil` -/
def okCount : Reader → List Nat → Nat
  | _, [] => 0
  | d, m :: ns => (if (d.read m).2.2 = none then 1 else 0) + okCount (d.read m).1 ns

theorem readsWith_acc (d : Reader) (ns : List Nat) :
    (readsWith d ns).1.size = d.size ∧
    (readsWith d ns).2.length + (readsWith d ns).1.pending.length + d.pos = d.pending.length + (readsWith d ns).1.pos ∧
    (Inv d → Inv (readsWith d ns).1) := by
  induction ns generalizing d with
  | nil => exact ⟨rfl, by simp [readsWith], fun h => h⟩
  | cons m ns ih =>
    have a := read_acc d m
    obtain ⟨i1, i2, i3⟩ := ih (d.read m).1
    have a1 := a.acct
    refine ⟨i1.trans a.size, ?_, fun h => i3 (read_inv d m h)⟩
    simp only [readsWith, List.length_append]
    omega

theorem readFill_progress (d : Reader) (m : Nat) (hm : 0 < m) (hb : d.berr = false)
    (hp : d.pending = [] → (d.pos : Int) < d.size) : 1 ≤ (d.readFill m).2.length := by
  cases hq : d.pending with
  | cons b t =>
    have := (readFill_acc d m).len_ge
    rw [hq] at this
    simp only [List.length_cons] at this
    omega
  | nil =>
    have := fill_progress ({ d with pending := d.pending.drop m } : Reader) (d.pending.take m).reverse
      (m - (d.pending.take m).length) (m + 1) (Nat.succ_pos _) (by simp [hq]; exact hm) hb (hp hq)
    unfold Reader.readFill
    omega

/-- no zero-progress spin: a `Read` into a non-empty buffer that reports no error returned data -/
theorem read_progress' (d : Reader) (m : Nat) (hm : 0 < m) (h : (d.read m).2.2 = none) :
    1 ≤ (d.read m).2.1.length := by
  rw [read_eq] at h ⊢
  split at h
  · cases h
  · rename_i h1
    split at h
    · rename_i h2
      have h : d.norm.err = none := h
      rw [h] at h2; cases h2
    · rename_i h2
      rw [if_neg h1, if_neg h2]
      simp only [List.length_reverse]
      have hb : d.berr = false := by
        cases hb : d.berr with
        | false => rfl
        | true => rw [norm_err_of_berr d hb] at h2; exact absurd rfl h2
      apply readFill_progress _ _ hm (by rw [norm_berr]; exact hb)
      intro hq
      rw [norm_berr, hb] at h1
      simp only [hq, List.isEmpty_nil, and_true, Bool.not_false, true_and] at h1
      omega

theorem okCount_le (d : Reader) (ns : List Nat) (hpos : ∀ n ∈ ns, 0 < n) :
    okCount d ns ≤ (readsWith d ns).2.length := by
  induction ns generalizing d with
  | nil => exact Nat.le_refl _
  | cons m ns ih =>
    have i := ih (d.read m).1 (fun n hn => hpos n (List.mem_cons_of_mem _ hn))
    simp only [okCount, readsWith, List.length_append]
    split
    · rename_i h
      have := read_progress' d m (hpos m List.mem_cons_self) h
      omega
    · omega

theorem errsWith_length (d : Reader) (ns : List Nat) : (errsWith d ns).length = ns.length := by
  induction ns generalizing d with
  | nil => rfl
  | cons m ns ih => simp [errsWith, ih]

theorem errsWith_take (d : Reader) (ns : List Nat) (n : Nat) : errsWith d (ns.take n) = (errsWith d ns).take n := by
  induction ns generalizing d n with
  | nil => simp [errsWith]
  | cons m ns ih =>
    cases n with
    | zero => simp [errsWith]
    | succ n => simp [errsWith, ih]

theorem okCount_or_err (d : Reader) (ns : List Nat) : okCount d ns = ns.length ∨ ∃ e, some e ∈ errsWith d ns := by
  induction ns generalizing d with
  | nil => exact Or.inl rfl
  | cons m ns ih =>
    cases he : (d.read m).2.2 with
    | some e => exact Or.inr ⟨e, by simp [errsWith, he]⟩
    | none =>
      rcases ih (d.read m).1 with h | ⟨e, h⟩
      · left; simp [okCount, he, h]; omega
      · exact Or.inr ⟨e, by simp [errsWith, h]⟩

/-! ### Errors are absorbing -/

/-- A `Read` that returns an error returns no data, and from then on the state is frozen: every later
`Read` (any buffer size) returns an error, no data, and the same state. -/
theorem read_err_fix (d : Reader) (m : Nat) (e : RErr) (h : (d.read m).2.2 = some e) :
    (d.read m).2.1 = [] ∧ (d.read m).1 = d.norm ∧
    ∀ m', ∃ e', (d.read m).1.read m' = ((d.read m).1, [], some e') := by
  have a := (read_acc d m).nodata (by rw [h]; simp)
  refine ⟨a.1, a.2, ?_⟩
  intro m'
  rw [a.2]
  rw [read_eq] at h
  rw [read_eq d.norm m', norm_norm]
  split at h
  · rename_i h1
    exact ⟨.eof, by rw [if_pos h1]⟩
  · rename_i h1
    split at h
    · rename_i h2
      rw [if_neg h1, if_pos h2]
      have h : d.norm.err = some e := h
      exact ⟨e, by rw [h]⟩
    · cases h

theorem readsWith_frozen (d : Reader) (hfix : ∀ m, ∃ e, d.read m = (d, [], some e)) (ns : List Nat) :
    readsWith d ns = (d, []) ∧ ∀ x ∈ errsWith d ns, x ≠ none := by
  induction ns with
  | nil => exact ⟨rfl, by simp [errsWith]⟩
  | cons m ns ih =>
    obtain ⟨e, he⟩ := hfix m
    simp only [readsWith, errsWith, he, ih.1, List.append_nil, List.mem_cons]
    refine ⟨trivial, ?_⟩
    rintro x (rfl | hx)
    · simp
    · exact ih.2 x hx

theorem close_ne_none_of_err (d : Reader) (h : d.err.isSome) : d.close ≠ none := by
  unfold Reader.close
  rw [if_pos h]
  cases hx : d.err with
  | none => rw [hx] at h; cases h
  | some e => simp

/-! ### Token-level stream semantics (buffer-size independence) -/

/-- the match copy with unlimited room: all bytes of the match in order, and the `stop` flag -/
def Reader.copyFull (d : Reader) (i : Nat) : Nat → Nat → Reader × Bytes × Bool
  | _, 0 => (d, [], false)
  | k, j + 1 =>
    if (d.pos : Int) ≥ d.size then ({ d with err := some .checksum }, [], true)
    else
      let c := d.textBuf.getD ((i + k) % N) 0
      let r := Reader.copyFull (d.putOne c) i (k + 1) j
      (r.1, c :: r.2.1, r.2.2)

theorem setPending_self (d : Reader) (q : Bytes) (h : d.pending = q) : { d with pending := q } = d := by
  cases d; cases h; rfl

/-- `copyFull` does not look at `pending` -/
theorem copyFull_pending_comm (d : Reader) (q : Bytes) (i k j : Nat) :
    Reader.copyFull { d with pending := q } i k j =
      ({ (d.copyFull i k j).1 with pending := q }, (d.copyFull i k j).2) := by
  induction j generalizing d k with
  | zero => rfl
  | succ n ih =>
    unfold Reader.copyFull
    by_cases hp : (d.pos : Int) ≥ d.size
    · have hp' : (({ d with pending := q } : Reader).pos : Int) ≥ ({ d with pending := q } : Reader).size := hp
      rw [if_pos hp, if_pos hp']
    · have hp' : ¬ (({ d with pending := q } : Reader).pos : Int) ≥ ({ d with pending := q } : Reader).size := hp
      rw [if_neg hp, if_neg hp']
      have e : ({ d with pending := q } : Reader).putOne (d.textBuf.getD ((i + k) % N) 0) =
          { d.putOne (d.textBuf.getD ((i + k) % N) 0) with pending := q } := rfl
      dsimp only
      rw [e, ih]

structure CopyFullAcc (d d' : Reader) (bs : Bytes) (j : Nat) : Prop where
  pending : d'.pending = d.pending
  size : d'.size = d.size
  err : d'.err = d.err ∨ (d'.err = some .checksum ∧ (d'.pos : Int) ≥ d'.size)
  progress : 0 < j → (d.pos : Int) < d.size → 1 ≤ bs.length

theorem copyFull_acc (d : Reader) (i k j : Nat) : CopyFullAcc d (d.copyFull i k j).1 (d.copyFull i k j).2.1 j := by
  induction j generalizing d k with
  | zero => exact ⟨rfl, rfl, Or.inl rfl, fun h => absurd h (Nat.lt_irrefl 0)⟩
  | succ n ih =>
    unfold Reader.copyFull
    by_cases hp : (d.pos : Int) ≥ d.size
    · rw [if_pos hp]
      exact ⟨rfl, rfl, Or.inr ⟨rfl, hp⟩, fun _ h => by omega⟩
    · rw [if_neg hp]
      have a := ih (d.putOne (d.textBuf.getD ((i + k) % N) 0)) (k + 1)
      exact ⟨a.pending, a.size, a.err, fun _ _ => by simp⟩

/-- the real loop = the unlimited copy, with the bytes split between the caller's buffer and `pending` -/
theorem copyMatch_eq (d : Reader) (i : Nat) (out : Bytes) (room k j : Nat) :
    d.copyMatch i out room k j =
      ({ (d.copyFull i k j).1 with pending := d.pending ++ (d.copyFull i k j).2.1.drop room },
       ((d.copyFull i k j).2.1.take room).reverse ++ out, room - (d.copyFull i k j).2.1.length,
       (d.copyFull i k j).2.2) := by
  induction j generalizing d out room k with
  | zero =>
    unfold Reader.copyMatch Reader.copyFull
    simp [setPending_self]
  | succ n ih =>
    unfold Reader.copyMatch Reader.copyFull
    by_cases hp : (d.pos : Int) ≥ d.size
    · rw [if_pos hp, if_pos hp]
      simp
    · rw [if_neg hp, if_neg hp]
      dsimp only
      cases room with
      | succ room' =>
        rw [if_pos (Nat.succ_pos _), ih]
        simp [Reader.putOne]
      | zero =>
        rw [if_neg (Nat.lt_irrefl 0), ih]
        have e : ({ d with pending := d.pending ++ [d.textBuf.getD ((i + k) % N) 0] } : Reader).putOne
            (d.textBuf.getD ((i + k) % N) 0) =
          { d.putOne (d.textBuf.getD ((i + k) % N) 0) with pending := d.pending ++ [d.textBuf.getD ((i + k) % N) 0] } := rfl
        rw [e, copyFull_pending_comm]
        simp


/-- one token with unlimited room: a literal or a whole match; new state and the token's bytes -/
def Reader.tok (d : Reader) : Reader × Bytes :=
  let (d, c) := d.decodeChar
  if c < 256 then (d.putOne (UInt8.ofNat c), [UInt8.ofNat c])
  else
    let (d, p) := d.decodePosition
    let r := d.copyFull ((d.r + 2 * N - p - 1) % N) 0 (c - 255 + THRESHOLD)
    (r.1, r.2.1)

structure TokAcc (d d' : Reader) (bs : Bytes) : Prop where
  pending : d'.pending = d.pending
  size : d'.size = d.size
  err : d'.err = d.err ∨ (d'.err = some .checksum ∧ (d'.pos : Int) ≥ d'.size)
  progress : (d.pos : Int) < d.size → 1 ≤ bs.length

theorem tok_acc (d : Reader) : TokAcc d d.tok.1 d.tok.2 := by
  unfold Reader.tok
  have f1 := decodeChar_frame d
  rcases hdc : d.decodeChar with ⟨d1, c⟩
  rw [hdc] at f1
  dsimp only
  split
  · exact ⟨f1.pending, f1.size, Or.inl f1.err, fun _ => by simp⟩
  · have f2 := decodePosition_frame d1
    rcases hdp : d1.decodePosition with ⟨d2, p⟩
    rw [hdp] at f2
    dsimp only
    have a := copyFull_acc d2 ((d2.r + 2 * N - p - 1) % N) 0 (c - 255 + THRESHOLD)
    refine ⟨a.pending.trans (f2.pending.trans f1.pending), a.size.trans (f2.size.trans f1.size), ?_, ?_⟩
    · rcases a.err with h | h
      · exact Or.inl (h.trans (f2.err.trans f1.err))
      · exact Or.inr h
    · intro h
      exact a.progress (by simp [THRESHOLD]) (by rw [f2.pos, f2.size, f1.pos, f1.size]; exact h)

theorem fill_dead (d : Reader) (out : Bytes) (room fuel : Nat)
    (h : ¬ (room > 0 ∧ (!d.berr) = true ∧ (d.pos : Int) < d.size)) : d.fill out room fuel = (d, out) := by
  cases fuel with
  | zero => rfl
  | succ n => unfold Reader.fill; rw [if_neg h]

/-- one iteration of the decode loop = one token, split between the caller's buffer and `pending` -/
theorem fill_step (d : Reader) (out : Bytes) (room fuel : Nat)
    (hr : 0 < room) (hb : d.berr = false) (hp : (d.pos : Int) < d.size) :
    d.fill out room (fuel + 1) =
      Reader.fill { d.tok.1 with pending := d.pending ++ d.tok.2.drop room } ((d.tok.2.take room).reverse ++ out)
        (room - d.tok.2.length) fuel := by
  have hc : room > 0 ∧ (!d.berr) = true ∧ (d.pos : Int) < d.size := ⟨hr, by simp [hb], hp⟩
  unfold Reader.tok
  rw [Reader.fill, if_pos hc]
  have f1 := decodeChar_frame d
  rcases hdc : d.decodeChar with ⟨d1, c⟩
  rw [hdc] at f1
  dsimp only
  split
  · obtain ⟨room', rfl⟩ : ∃ r', room = r' + 1 := ⟨room - 1, by omega⟩
    simp
    rw [setPending_self _ _ (show (d1.putOne (UInt8.ofNat c)).pending = d.pending from f1.pending)]
  · have f2 := decodePosition_frame d1
    rcases hdp : d1.decodePosition with ⟨d2, p⟩
    rw [hdp] at f2
    dsimp only
    have a := copyMatch_acc d2 ((d2.r + 2 * N - p - 1) % N) out room 0 (c - 255 + THRESHOLD)
    have e := copyMatch_eq d2 ((d2.r + 2 * N - p - 1) % N) out room 0 (c - 255 + THRESHOLD)
    rcases hcm : d2.copyMatch ((d2.r + 2 * N - p - 1) % N) out room 0 (c - 255 + THRESHOLD) with ⟨d3, out3, room3, stop⟩
    rw [hcm] at a e
    dsimp only at a ⊢
    have hfin : (if stop = true then (d3, out3) else d3.fill out3 room3 fuel) = d3.fill out3 room3 fuel := by
      cases stop with
      | false => rfl
      | true =>
        have := (a.err_stop rfl).2
        rw [if_pos rfl, fill_dead]
        rw [a.size]; omega
    rw [hfin]
    have hpd : d2.pending = d.pending := f2.pending.trans f1.pending
    rw [hpd] at e
    have e1 := congrArg (fun x => x.1) e
    have e2 := congrArg (fun x => x.2.1) e
    have e3 := congrArg (fun x => x.2.2.1) e
    dsimp only at e1 e2 e3
    rw [e1, e2, e3]

/-- the decode loop would decode another token (apart from room in the caller's buffer) -/
def Reader.live (d : Reader) : Prop := d.err = none ∧ d.berr = false ∧ (d.pos : Int) < d.size

/-- `Run d c bs`: decoding token after token from `d` until the reader is no longer live ends in state
`c` having produced the bytes `bs`. (A relation, so no fuel; it is functional — `Run.det`.) -/
inductive Run : Reader → Reader → Bytes → Prop
  | done (d : Reader) : ¬ d.live → Run d d []
  | step (d c : Reader) (bs : Bytes) : d.live → Run d.tok.1 c bs → Run d c (d.tok.2 ++ bs)

theorem Run.det {d c1 c2 : Reader} {b1 b2 : Bytes} (h1 : Run d c1 b1) (h2 : Run d c2 b2) : c1 = c2 ∧ b1 = b2 := by
  induction h1 generalizing c2 b2 with
  | done d hl =>
    cases h2 with
    | done _ _ => exact ⟨rfl, rfl⟩
    | step _ _ _ hl' _ => exact absurd hl' hl
  | step d c bs hl _ ih =>
    cases h2 with
    | done _ hl' => exact absurd hl hl'
    | step _ _ bs' _ hr =>
      obtain ⟨e1, e2⟩ := ih hr
      exact ⟨e1, by rw [e2]⟩

/-- **The decode loop follows the token stream**: if the token stream from the state after `fill`
(ignoring `pending`) ends in `c` with bytes `bs`, then the token stream from the state before ends in
the same `c`, with the bytes `fill` delivered, then those it left in `pending`, then `bs`. -/
theorem fill_run (fuel : Nat) : ∀ (d : Reader) (out : Bytes) (room : Nat),
    d.pending = [] → d.err = none → room ≤ fuel →
    ∀ c bs, Run { (d.fill out room fuel).1 with pending := [] } c bs →
      ∃ pre, (d.fill out room fuel).2 = pre.reverse ++ out ∧
        Run d c (pre ++ ((d.fill out room fuel).1.pending ++ bs)) := by
  induction fuel with
  | zero =>
    intro d out room hq he hr c bs hrun
    refine ⟨[], rfl, ?_⟩
    have : d.fill out room 0 = (d, out) := rfl
    rw [this] at hrun ⊢
    rw [setPending_self _ _ hq] at hrun
    simpa [hq] using hrun
  | succ n ih =>
    intro d out room hq he hr c bs hrun
    by_cases hc : room > 0 ∧ (!d.berr) = true ∧ (d.pos : Int) < d.size
    · have hb : d.berr = false := by simpa using hc.2.1
      have hlive : d.live := ⟨he, hb, hc.2.2⟩
      have t := tok_acc d
      have hlen := t.progress hc.2.2
      have htq : d.tok.1.pending = [] := t.pending.trans hq
      rw [fill_step d out room n hc.1 hb hc.2.2, hq, List.nil_append] at hrun ⊢
      by_cases hov : room < d.tok.2.length
      · -- the token overflows the caller's buffer: the rest goes to `pending`, the loop ends
        have h0 : room - d.tok.2.length = 0 := by omega
        rw [h0, fill_dead _ _ 0 n (by omega)] at hrun ⊢
        dsimp only at hrun ⊢
        rw [setPending_self _ _ htq] at hrun
        refine ⟨d.tok.2.take room, rfl, ?_⟩
        rw [← List.append_assoc, List.take_append_drop]
        exact Run.step d c bs hlive hrun
      · have hdrop : d.tok.2.drop room = [] := List.drop_eq_nil_of_le (by omega)
        have htake : d.tok.2.take room = d.tok.2 := List.take_of_length_le (by omega)
        rw [hdrop, htake, setPending_self _ _ htq] at hrun ⊢
        rcases t.err with herr | ⟨herr, hpos⟩
        · obtain ⟨pre, h1, h2⟩ := ih d.tok.1 (d.tok.2.reverse ++ out) (room - d.tok.2.length) htq (herr.trans he)
            (by omega) c bs hrun
          refine ⟨d.tok.2 ++ pre, ?_, ?_⟩
          · rw [h1]; simp
          · rw [List.append_assoc]
            exact Run.step d c _ hlive h2
        · -- the match ran past the declared size: the loop ends
          rw [fill_dead _ _ _ n (by omega)] at hrun ⊢
          dsimp only at hrun ⊢
          rw [setPending_self _ _ htq] at hrun
          refine ⟨d.tok.2, rfl, ?_⟩
          rw [htq, List.nil_append]
          exact Run.step d c bs hlive hrun
    · rw [fill_dead d out room (n + 1) hc] at hrun ⊢
      dsimp only at hrun ⊢
      rw [setPending_self _ _ hq] at hrun
      exact ⟨[], rfl, by simpa [hq] using hrun⟩

/-- a successful `Read` follows the token stream -/
theorem read_run (d : Reader) (m : Nat) (h : (d.read m).2.2 = none) (c : Reader) (bs : Bytes)
    (hrun : Run { (d.read m).1 with pending := [] } c bs) :
    ∃ bs', Run { d with pending := [] } c bs' ∧
      d.pending ++ bs' = (d.read m).2.1 ++ ((d.read m).1.pending ++ bs) := by
  rw [read_eq] at h hrun ⊢
  split at h
  · cases h
  · rename_i h1
    split at h
    · rename_i h2
      have h : d.norm.err = none := h
      rw [h] at h2; cases h2
    · rename_i h2
      rw [if_neg h1, if_neg h2] at hrun
      rw [if_neg h1, if_neg h2]
      dsimp only at hrun ⊢
      have hb : d.berr = false := by
        cases hb : d.berr with
        | false => rfl
        | true => rw [norm_err_of_berr d hb] at h2; exact absurd rfl h2
      rw [norm_of_not_berr d hb] at h2 hrun ⊢
      have he : d.err = none := by
        cases hx : d.err with
        | none => rfl
        | some e => rw [hx] at h2; exact absurd rfl h2
      unfold Reader.readFill at hrun ⊢
      by_cases hm : m ≤ d.pending.length
      · -- served from `pending` alone
        have h0 : m - (d.pending.take m).length = 0 := by rw [List.length_take]; omega
        rw [h0, fill_dead _ _ 0 _ (by omega)] at hrun ⊢
        dsimp only at hrun ⊢
        refine ⟨bs, hrun, ?_⟩
        rw [List.reverse_reverse, ← List.append_assoc, List.take_append_drop]
      · have hdrop : d.pending.drop m = [] := List.drop_eq_nil_of_le (by omega)
        have htake : d.pending.take m = d.pending := List.take_of_length_le (by omega)
        rw [hdrop, htake] at hrun ⊢
        obtain ⟨pre, h1, h2⟩ := fill_run (m + 1) { d with pending := [] } d.pending.reverse (m - d.pending.length)
          rfl he (by omega) c bs hrun
        refine ⟨_, h2, ?_⟩
        rw [h1]
        simp

/-- a `Read` that returns an error is at the end of the token stream -/
theorem read_err_end (d : Reader) (m : Nat) (e : RErr) (h : (d.read m).2.2 = some e) :
    ¬ ({ d with pending := [] } : Reader).live ∧ (d.norm.err.isSome ∨ d.norm.pending = []) := by
  rw [read_eq] at h
  split at h
  · rename_i h1
    rw [norm_pos, norm_size, norm_pending] at h1
    refine ⟨fun hl => ?_, Or.inr (by rw [norm_pending]; exact List.isEmpty_iff.mp h1.2.2)⟩
    have : (d.pos : Int) < d.size := hl.2.2
    omega
  · split at h
    · rename_i h2
      refine ⟨fun hl => ?_, Or.inl h2⟩
      have hb : d.berr = false := hl.2.1
      have he : d.err = none := hl.1
      rw [norm_of_not_berr d hb, he] at h2
      cases h2
    · cases h

theorem norm_setPending (d : Reader) (q : Bytes) :
    ({ d with pending := q } : Reader).norm = { d.norm with pending := q } := by
  unfold Reader.norm
  split <;> rfl

/-- **A sequence of reads that reaches an error has consumed the whole token stream**: the final state
(ignoring `pending`) is the normalised end state `c` of the token stream of the initial state, and
`pending ++ stream = bytes returned ++ bytes left in pending` (the latter are discarded by the error). -/
theorem readsWith_run (d : Reader) (ns : List Nat) (hend : ∃ e, some e ∈ errsWith d ns) :
    ∃ c bs, Run { d with pending := [] } c bs ∧
      ({ (readsWith d ns).1 with pending := [] } : Reader) = c.norm ∧
      d.pending ++ bs = (readsWith d ns).2 ++ (readsWith d ns).1.pending ∧
      ((readsWith d ns).1.err.isSome ∨ (readsWith d ns).1.pending = []) := by
  induction ns generalizing d with
  | nil => obtain ⟨e, he⟩ := hend; simp [errsWith] at he
  | cons m ns ih =>
    cases hr : (d.read m).2.2 with
    | some e =>
      obtain ⟨f1, f2, f3⟩ := read_err_fix d m e hr
      obtain ⟨g1, g2⟩ := read_err_end d m e hr
      have fz := (readsWith_frozen (d.read m).1 f3 ns).1
      rw [f2] at fz
      refine ⟨_, [], Run.done _ g1, ?_, ?_, ?_⟩
      · simp only [readsWith, fz, f2, norm_setPending]
      · simp only [readsWith, fz, f1, f2, norm_pending, List.append_nil, List.nil_append]
      · simp only [readsWith, fz, f2]; exact g2
    | none =>
      have hend' : ∃ e, some e ∈ errsWith (d.read m).1 ns := by
        obtain ⟨e, he⟩ := hend
        simp only [errsWith, List.mem_cons, hr] at he
        rcases he with he | he
        · cases he
        · exact ⟨e, he⟩
      obtain ⟨c, bs, i1, i2, i3, i4⟩ := ih (d.read m).1 hend'
      obtain ⟨bs', r1, r2⟩ := read_run d m hr c bs i1
      refine ⟨c, bs', r1, i2, ?_, i4⟩
      simp only [readsWith]
      rw [r2, i3, List.append_assoc]

theorem close_eq_of_core_eq (a b : Reader)
    (h : ({ a with pending := [] } : Reader) = { b with pending := [] })
    (ha : a.err.isSome ∨ a.pending = []) (hb : b.err.isSome ∨ b.pending = []) : a.close = b.close := by
  have e1 : a.err = b.err := by
    have := congrArg Reader.err h
    exact this
  by_cases hs : a.err.isSome
  · unfold Reader.close
    rw [if_pos hs, if_pos (e1 ▸ hs), e1]
  · have pa : a.pending = [] := ha.resolve_left hs
    have pb : b.pending = [] := hb.resolve_left (e1 ▸ hs)
    rw [setPending_self a _ pa, setPending_self b _ pb] at h
    rw [h]

theorem close_none_size (d : Reader) (h : d.close = none) : d.size = (d.pos : Int) - d.pending.length := by
  unfold Reader.close at h
  split at h
  · rename_i he; exact absurd h (by cases hx : d.err <;> simp_all)
  · split at h
    · cases h
    · split at h
      · cases h
      · split at h
        · cases h
        · rename_i hs; exact Decidable.of_not_not hs

/-! ### Definitions for the non-vacuity examples of `Props/C08_reader.lean`, `Props/C06_reader.lean` -/

/-- `compress true "hello"` -/
def helloStream : Bytes := [0x86, 0x80, 0x05, 0x00, 0x00, 0x00, 0xfa, 0x7c, 0x7f, 0x18, 0x7f, 0xb0]

/-- run a sequence of reads on a byte string: data, `Close`, the error of every read -/
def runNew (crc : Bool) (s : Bytes) (ns : List Nat) : Option (Bytes × Option RErr × List (Option RErr)) :=
  match Reader.new crc s with
  | .ok d => some ((readsWith d ns).2, (readsWith d ns).1.close, errsWith d ns)
  | .error _ => none

/-- A reader state whose code table has the single leaf `sym` (every `decodeChar` consumes one bit and
returns `sym`); the window is filled with `7`. Cheap to evaluate in the kernel, unlike `Huff.init`. -/
def toy (src : List UInt8) (size : Int) (sym : Nat) : Reader :=
  { h := { freq := #[], prnt := #[], son := #[T + sym] }, textBuf := Array.replicate N 7, src := src.toArray,
    crc16 := false, size := size, sizeBytes := [], r := 0 }

/-- data, `Close`, the error of every read, final `pending` -/
def runToy (d : Reader) (ns : List Nat) : Bytes × Option RErr × List (Option RErr) × Bytes :=
  ((readsWith d ns).2, (readsWith d ns).1.close, errsWith d ns, (readsWith d ns).1.pending)

end Wl2k.Lzhuf
