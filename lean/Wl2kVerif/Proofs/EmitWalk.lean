import Wl2kVerif.Proofs.EmitLex
/-
The walk: every function of B2F/Session.lean against the output-grammar monitor (B2F/Grammar.lean),
for every remote byte string and every reply of a LOCAL handler that satisfies `HandlerOK`.
-/
namespace Wl2k.B2F
open Wl2k Wl2k.Fmt Wl2k.Str Wl2k.Strconv Wl2k.B2F.Grammar Wl2k.Utf8

/-! ### hypotheses -/

/-- what the grammar needs of the replies of the LOCAL mailbox handler: the messages it offers have a
MID of 1..12 letters/digits and a usable Q-encoded title (`TitleOK`); its proposal answers are `+ - =`. -/
def HandlerOK : Call → Reply → Prop
  | .getOutbound _, .msgs out => ∀ m ∈ out, m.valid = true → isMid m.mid = true ∧ TitleOK m.qtitle
  | .getInboundAnswer _, r => ∃ a, r = .answer a ∧ PlainAnswer a
  | .getInboundAnswers _, .answers as => ∀ a ∈ as, PlainAnswer a
  | _, _ => True

/-- the text of an error that `Exchange` echoes as `*** <text>` contains no CR -/
def ErrOK : SErr → Prop
  | .eof => True
  | .remote m => (13 : UInt8) ∉ m
  | .proto w => (13 : UInt8) ∉ strBytes w

abbrev Acc {α : Type} (Q : α → GState → Prop) (s : GState) (p : Proc α) : Prop :=
  AcceptsR outGrammarδ HandlerOK Q s p

/-- postcondition of a part that writes nothing: the monitor has not moved, an error is echoable -/
def EQ {α : Type} (s : GState) (r : Except SErr α) (s' : GState) : Prop :=
  s' = s ∧ ∀ e, r = .error e → ErrOK e

theorem acc_peek {α : Type} {Q : α → GState → Prop} {s : GState} {k : Option UInt8 → Proc α}
    (h : ∀ o, Acc Q s (k o)) : Acc Q s (.peek k) :=
  AcceptsR.peek _ _ (fun _ => s) (h none) (fun _ => rfl) (fun b => h (some b))

theorem acc_call {α : Type} {Q : α → GState → Prop} {s : GState} {c : Call} {k : Reply → Proc α}
    (h : ∀ r, HandlerOK c r → Acc Q s (k r)) : Acc Q s (.call c k) :=
  AcceptsR.call _ _ _ s rfl h

theorem acc_write {α : Type} {Q : α → GState → Prop} {s s' : GState} {bs : Bytes} {k : Proc α}
    (hs : step s bs = some s') (h : Acc Q s' k) : Acc Q s (.write bs k) :=
  AcceptsR.write _ _ _ s' hs h

/-- close an error return whose text is a literal -/
macro "err_lit" : tactic => `(tactic|
  (refine AcceptsR.ret _ _ ⟨rfl, ?_⟩; intro e h; cases h; first | trivial | (show (13 : UInt8) ∉ strBytes _; decide +kernel)))

/-- close an `.ok` return of a silent part -/
macro "ok_ret" : tactic => `(tactic| exact AcceptsR.ret _ _ ⟨rfl, fun e h => by cases h⟩)

/-! ### the remote's error text cannot contain a CR -/

theorem trimLeftU_suffix' : ∀ (f : Nat) (s : Bytes), ∃ j, trimLeftU f s = s.drop j := by
  intro f
  induction f with
  | zero => intro s; exact ⟨0, by simp [trimLeftU]⟩
  | succ f ih =>
    intro s
    cases s with
    | nil => exact ⟨0, by simp [trimLeftU]⟩
    | cons a t =>
      unfold trimLeftU
      simp only
      split
      · obtain ⟨j, hj⟩ := ih ((a :: t).drop (max (decodeRune (a :: t)).2 1))
        exact ⟨max (decodeRune (a :: t)).2 1 + j, by rw [hj, List.drop_drop]⟩
      · exact ⟨0, by simp⟩

theorem trimRightU_nil (f : Nat) : trimRightU f [] = [] := by cases f <;> simp [trimRightU]

theorem trimRightU_prefix : ∀ (f : Nat) (s : Bytes), ∃ k, trimRightU f s = s.take k := by
  intro f
  induction f with
  | zero => intro s; exact ⟨s.length, by simp [trimRightU]⟩
  | succ f ih =>
    intro s
    unfold trimRightU
    split
    · exact ⟨s.length, by simp⟩
    · simp only
      split
      · obtain ⟨k, hk⟩ := ih (s.take (s.length - max (decodeLastRune s).2 1))
        exact ⟨min k (s.length - max (decodeLastRune s).2 1), by rw [hk, List.take_take]⟩
      · exact ⟨s.length, by simp⟩

theorem trimSpaceU_sublist (s : Bytes) : (trimSpaceU s).Sublist s := by
  unfold trimSpaceU
  obtain ⟨j, hj⟩ := trimLeftU_suffix' s.length s
  obtain ⟨k, hk⟩ := trimRightU_prefix s.length (trimLeftU s.length s)
  rw [hk, hj]
  exact (List.take_sublist _ _).trans (List.drop_sublist _ _)

theorem trimRightU_snoc_cr (f : Nat) (x : Bytes) : trimRightU (f + 1) (x ++ [13]) = trimRightU f x := by
  have he : (x ++ [13]).isEmpty = false := by simp
  rw [trimRightU]
  simp only [he, decodeLastRune_ascii x 13 (by decide)]
  have : isSpaceRune 13 = true := by decide
  simp [this]

theorem trimSpaceU_cr_sublist (pre : Bytes) : (trimSpaceU (pre ++ [13])).Sublist pre := by
  unfold trimSpaceU
  obtain ⟨j, hj⟩ := trimLeftU_suffix' (pre ++ [13]).length (pre ++ [13])
  rw [hj]
  by_cases hjl : j ≤ pre.length
  · rw [List.drop_append_of_le_length hjl]
    have : (pre ++ [13]).length = pre.length + 1 := by simp
    rw [this, trimRightU_snoc_cr]
    obtain ⟨k, hk⟩ := trimRightU_prefix pre.length (pre.drop j)
    rw [hk]
    exact (List.take_sublist _ _).trans (List.drop_sublist _ _)
  · have : (pre ++ [13]).drop j = [] := List.drop_eq_nil_of_le (by simp; omega)
    rw [this, trimRightU_nil]
    exact List.nil_sublist _

theorem cleanString_cr_sublist (pre : Bytes) : (cleanString (pre ++ [13])).Sublist pre := by
  have h := trimSpaceU_cr_sublist pre
  unfold cleanString
  simp only
  generalize trimSpaceU (pre ++ [13]) = t at h ⊢
  split
  · exact h
  · have h1 : (if t.head? = some 0 then t.drop 1 else t).Sublist t := by
      split
      · exact List.drop_sublist _ _
      · exact List.Sublist.refl _
    generalize (if t.head? = some 0 then t.drop 1 else t) = u at h1 ⊢
    split
    · exact (List.dropLast_sublist _).trans (h1.trans h)
    · exact h1.trans h

theorem errLine_sublist (str m : Bytes) (h : errLine str = some m) : m.Sublist str := by
  unfold errLine at h
  split at h
  · cases h
  · split at h
    · cases h
    · split at h
      · cases h
      · simp only [Option.some.injEq] at h
        subst h
        exact (trimSpaceU_sublist _).trans (List.drop_sublist _ _)

theorem errLine_no_cr (pre m : Bytes) (hp : (13 : UInt8) ∉ pre) (h : errLine (cleanString (pre ++ [13])) = some m) :
    (13 : UInt8) ∉ m :=
  fun hm => hp (((errLine_sublist _ _ h).trans (cleanString_cr_sublist pre)).subset hm)

/-! ### reading -/

theorem readString_acc (delim : UInt8) (s : GState) : ∀ (fuel : Nat) (acc : Bytes),
    Acc (fun (r : Bytes × Bool) s' => s' = s ∧ (r.2 = false → ∃ pre, r.1 = acc.reverse ++ pre ++ [delim] ∧ delim ∉ pre))
      s (readString delim fuel acc) := by
  intro fuel
  induction fuel with
  | zero => intro acc; exact AcceptsR.panic _ _
  | succ fuel ih =>
    intro acc
    unfold readString
    apply AcceptsR.readByte
    intro o
    cases o with
    | none => exact AcceptsR.ret _ _ ⟨rfl, by simp⟩
    | some b =>
      simp only
      split
      · rename_i hb
        subst hb
        exact AcceptsR.ret _ _ ⟨rfl, fun _ => ⟨[], by simp, by simp⟩⟩
      · rename_i hb
        refine (ih (b :: acc)).mono ?_
        intro r s' ⟨h1, h2⟩
        refine ⟨h1, fun he => ?_⟩
        obtain ⟨pre, hp1, hp2⟩ := h2 he
        refine ⟨b :: pre, by simp [hp1], ?_⟩
        simp only [List.mem_cons, not_or]
        exact ⟨fun e => hb e.symm, hp2⟩

theorem nextLineRemoteErr_acc (pe : Bool) (fuel : Nat) (s : GState) :
    Acc (EQ s) s (nextLineRemoteErr pe fuel) := by
  unfold nextLineRemoteErr
  simp only [bind_eq, pure_eq]
  apply AcceptsR.bind (readString_acc 13 s fuel [])
  intro a s' ⟨hs', ha⟩
  subst hs'
  obtain ⟨line, eof⟩ := a
  simp only [cleanStringC_eq, errLineC_eq]
  split
  · err_lit
  · rename_i heof
    obtain ⟨pre, hp1, hp2⟩ := ha (by simpa using heof)
    simp only [List.reverse_nil, List.nil_append] at hp1
    subst hp1
    split
    · cases hm : errLine (cleanString (pre ++ [13])) with
      | none => ok_ret
      | some m =>
        refine AcceptsR.ret _ _ ⟨rfl, ?_⟩
        intro e h; cases h
        exact errLine_no_cr pre m hp2 hm
    · ok_ret

theorem nextLine_acc (fuel : Nat) (s : GState) : Acc (EQ s) s (nextLine fuel) := nextLineRemoteErr_acc true fuel s


/-! ### configuration sanity (the part the turns need) -/

structure CfgOK (c : Cfg) : Prop where
  blk1 : 1 ≤ c.maxBlock
  blk5 : c.maxBlock ≤ 5
  len1 : 1 ≤ c.maxMsgLen
  len255 : c.maxMsgLen ≤ 255
  offLim : c.offsetLimit ≤ 999999

/-! ### outbound -/

/-- a proposal as `outbound` builds it (`mkProp`) from a handler message that satisfies `HandlerOK` -/
structure PropOK (p : Proposal) : Prop where
  code : p.code = 67
  ty : p.msgType = sb "EM"
  mid : isMid p.mid = true
  size : ∃ n : Nat, p.size = (n : Int)
  csize : p.csize = (p.cdata.length : Int)
  title : TitleOK p.qtitle

/-- the compressed size of a proposal, as the monitor reads it from the proposal line -/
def csz (p : Proposal) : Nat := p.cdata.length

/-- the proposal line of a proposal -/
def plOf (p : Proposal) : Bytes := proposalLine p.code p.msgType p.mid p.size p.csize

theorem mkProp_ok (m : OutMsg) (h1 : isMid m.mid = true) (h2 : TitleOK m.qtitle) : PropOK (mkProp m) :=
  ⟨rfl, rfl, h1, ⟨m.data.length, rfl⟩, rfl, h2⟩

theorem emit_mem_insertSorted (p q : Proposal) : ∀ l : List Proposal, q ∈ insertSorted p l → q = p ∨ q ∈ l := by
  intro l
  induction l with
  | nil => intro h; simpa [insertSorted] using h
  | cons a t ih =>
    intro h
    simp only [insertSorted] at h
    split at h
    · simpa using h
    · simp only [List.mem_cons] at h ⊢
      rcases h with h | h
      · exact Or.inr (Or.inl h)
      · rcases ih h with h | h
        · exact Or.inl h
        · exact Or.inr (Or.inr h)

theorem emit_mem_sortProposals (q : Proposal) : ∀ l : List Proposal, q ∈ sortProposals l → q ∈ l := by
  intro l
  induction l with
  | nil => intro h; simpa [sortProposals] using h
  | cons a t ih =>
    intro h
    have : q ∈ insertSorted a (sortProposals t) := h
    rcases emit_mem_insertSorted a q _ this with h | h
    · simp [h]
    · simp [ih h]

theorem outbound_acc (c : Cfg) (st : SState) (s : GState) :
    Acc (fun out s' => s' = s ∧ ∀ p ∈ out, PropOK p) s (outbound c st) := by
  unfold outbound
  split
  · exact AcceptsR.ret _ _ ⟨rfl, by simp⟩
  · apply acc_call
    intro r hr
    cases r with
    | msgs out =>
      refine AcceptsR.ret _ _ ⟨rfl, ?_⟩
      intro p hp
      have hp' := emit_mem_sortProposals p _ hp
      simp only [List.mem_map, List.mem_filter] at hp'
      obtain ⟨m, ⟨hm, hv⟩, rfl⟩ := hp'
      have := hr m hm hv
      exact mkProp_ok m this.1 this.2
    | _ => exact AcceptsR.ret _ _ ⟨rfl, by simp⟩

theorem plOf_ok {p : Proposal} (h : PropOK p) :
    ∃ n : Nat, plOf p = proposalLine 67 (sb "EM") p.mid (n : Int) (csz p : Int) := by
  obtain ⟨n, hn⟩ := h.size
  exact ⟨n, by unfold plOf csz; rw [h.code, h.ty, hn, h.csize]⟩

theorem writeLines_block : ∀ (ps : List Proposal) (k sum : Nat) (cs : List Nat), (∀ p ∈ ps, PropOK p) →
    k + ps.length ≤ 5 →
    Acc (fun _ s' => s' = .block (k + ps.length) ((ps.map fun p => lineSum (plOf p)).foldl (· + ·) sum) (cs ++ ps.map csz))
      (.block k sum cs) (writeLines (ps.map plOf)) := by
  intro ps
  induction ps with
  | nil => intro k sum cs _ _; exact AcceptsR.ret _ _ (by simp)
  | cons p t ih =>
    intro k sum cs hp hk
    obtain ⟨n, hn⟩ := plOf_ok (hp p (by simp))
    simp only [List.length_cons] at hk
    simp only [List.map_cons, writeLines]
    refine acc_write (s' := .block (k + 1) (sum + lineSum (plOf p)) (cs ++ [csz p])) ?_ ?_
    · rw [hn]
      exact step_block_prop k sum cs (by omega) p.mid n (csz p) (hp p (by simp)).mid
    · refine (ih (k + 1) _ _ (fun q hq => hp q (by simp [hq])) (by omega)).mono ?_
      intro _ s' hs'
      rw [hs']
      simp only [List.length_cons, List.foldl_cons, List.append_assoc, List.cons_append, List.nil_append]
      congr 1
      omega

/-- postcondition of a part of our turn: an error is echoable where the monitor stands; success leaves
the monitor between units -/
def TQ {α : Type} (r : Except SErr α) (s' : GState) : Prop :=
  match r with
  | .error e => ErrOK e ∧ errAllowed s' = true
  | .ok _ => ∃ pend, s' = .idle pend

/-- what a transfer needs of a proposal -/
structure XferOK (p : Proposal) : Prop where
  title : TitleOK p.qtitle
  csize : p.csize = (p.cdata.length : Int)
  off0 : 0 ≤ p.offset
  offLim : p.offset ≤ 999999

theorem writeBlocks_acc (off : Nat) (pend : List Nat) : ∀ (chunks : List Bytes) (len sum : Nat),
    (∀ c ∈ chunks, 1 ≤ c.length ∧ c.length ≤ 255) →
    Acc (fun _ s' => s' = .xfer off (len + chunks.flatten.length) (sum + dataSum chunks.flatten) pend)
      (.xfer off len sum pend) (writeBlocks (chunks.map fun c => [2, UInt8.ofNat (c.length % 256)] ++ c)) := by
  intro chunks
  induction chunks with
  | nil => intro len sum _; exact AcceptsR.ret _ _ (by simp [dataSum])
  | cons c t ih =>
    intro len sum hc
    simp only [List.map_cons, writeBlocks]
    have h1 := hc c (by simp)
    refine acc_write (step_xfer_block off len sum pend c h1.1 h1.2) ?_
    refine (ih _ _ (fun x hx => hc x (by simp [hx]))).mono ?_
    intro _ s' hs'
    rw [hs']
    simp only [List.flatten_cons, List.length_append, dataSum_append]
    congr 1 <;> omega

theorem writeCompressed_acc (c : Cfg) (hc : CfgOK c) (p : Proposal) (hp : XferOK p) (rest pend : List Nat)
    (hsub : (csz p :: rest).Sublist pend) :
    Acc (fun (r : Except SErr Unit) s' => match r with
        | .error e => ErrOK e ∧ errAllowed s' = true
        | .ok _ => ∃ pend', s' = .idle pend' ∧ rest.Sublist pend')
      (.idle pend) (writeCompressed c p) := by
  have hne : pend ≠ [] := by intro h; subst h; cases hsub
  obtain ⟨n, hn⟩ : ∃ n : Nat, p.offset = (n : Int) := ⟨p.offset.toNat, by have := hp.off0; omega⟩
  have hn9 : n ≤ 999999 := by have := hp.offLim; omega
  unfold writeCompressed
  rw [hn]
  refine acc_write (step_idle_header pend hne p.qtitle n hp.title hn9) ?_
  split
  · exact AcceptsR.ret _ _ ⟨by show (13 : UInt8) ∉ strBytes _; decide +kernel, rfl⟩
  · rw [payloadFromC_eq]
    by_cases h : (n : Int) < 0 ∨ (n : Int) > (p.cdata.length : Int)
    · simp only [h, if_true]
      exact AcceptsR.ret _ _ ⟨by show (13 : UInt8) ∉ strBytes _; decide +kernel, rfl⟩
    · simp only [h, if_false]
      have hle : n ≤ p.cdata.length := by omega
      have hch := chunksOf_spec c.maxMsgLen hc.len1 ((p.cdata.drop (n : Int).toNat).length + 1) (p.cdata.drop (n : Int).toNat) (by omega)
      simp only [Int.toNat_natCast] at hch ⊢
      generalize hd : p.cdata.drop n = d at hch ⊢
      have hdl : d.length + n = csz p := by subst hd; simp [csz]; omega
      unfold frameBlocks
      apply AcceptsR.bind (writeBlocks_acc n pend _ 0 0 (fun x hx => ⟨(hch.2.1 x hx).1, by have := (hch.2.1 x hx).2; have := hc.len255; omega⟩))
      intro _ s' hs'
      subst hs'
      rw [hch.1]
      obtain ⟨pend', hd1, hd2⟩ := dropThrough_sublist (csz p) rest pend hsub
      refine acc_write (step_xfer_eot n (0 + d.length) (0 + dataSum d) pend pend' _ ?_ ?_) ?_
      · simp only [negMod256, UInt8.toNat_ofNat']; omega
      · rw [Nat.zero_add, hdl]; exact hd1
      · exact AcceptsR.ret _ _ ⟨pend', rfl, hd2⟩

theorem awaitAnswer_acc (fuel : Nat) (s : GState) : ∀ (n : Nat), Acc (EQ s) s (awaitAnswer fuel n) := by
  intro n
  induction n with
  | zero => exact AcceptsR.panic _ _
  | succ n ih =>
    unfold awaitAnswer
    simp only [bind_eq, pure_eq]
    apply AcceptsR.bind (nextLine_acc fuel s)
    intro r s' ⟨hs', hr⟩
    subst hs'
    cases r with
    | error e => exact AcceptsR.ret _ _ ⟨rfl, fun e' h => by cases h; exact hr e rfl⟩
    | ok line =>
      simp only
      split
      · ok_ret
      · split
        · exact ih
        · split
          · exact ih
          · err_lit

theorem transferAll_acc (c : Cfg) (hc : CfgOK c) : ∀ (ps : List Proposal) (sent : List (Bytes × Bool)) (pend : List Nat),
    (ps.map csz).Sublist pend → (∀ p ∈ ps, XferOK p) → Acc TQ (.idle pend) (transferAll c ps sent) := by
  intro ps
  induction ps with
  | nil => intro sent pend _ _; exact AcceptsR.ret _ _ ⟨pend, rfl⟩
  | cons p ps ih =>
    intro sent pend hsub hx
    have hsub' : (ps.map csz).Sublist pend := (List.sublist_cons_self _ _).trans hsub
    have hx' : ∀ q ∈ ps, XferOK q := fun q hq => hx q (by simp [hq])
    unfold transferAll
    split
    · exact acc_call (fun _ _ => ih _ _ hsub' hx')
    · split
      · exact ih _ _ hsub' hx'
      · split
        · simp only [bind_eq, pure_eq]
          apply AcceptsR.bind (writeCompressed_acc c hc p (hx p (by simp)) (ps.map csz) pend hsub)
          intro r s' hr
          cases r with
          | error e => exact AcceptsR.ret _ _ hr
          | ok u =>
            obtain ⟨pend', rfl, hs2⟩ := hr
            exact ih _ _ hs2 hx'
        · exact ih _ _ hsub' hx'


/-! ### the offsets a remote can ask for -/

theorem atoi_digits_nonneg (ds : Bytes) (hne : ds ≠ []) (hall : ds.all isDigit = true) : 0 ≤ (atoi ds).1 := by
  cases ds with
  | nil => exact absurd rfl hne
  | cons c t =>
    have hc : isDigit c = true := by simp only [List.all_cons, Bool.and_eq_true] at hall; exact hall.1
    obtain ⟨n45, n43, _, _⟩ := isDigit_ne hc
    rw [atoi_cons c t n45 n43, hall, if_pos rfl]
    unfold clamp
    simp only [Bool.false_eq_true, if_false]
    split
    · simp [maxInt64]
    · simp

theorem takeWhile_all (p : UInt8 → Bool) (l : Bytes) : (l.takeWhile p).all p = true := by
  induction l with
  | nil => rfl
  | cons a t ih =>
    simp only [List.takeWhile]
    split
    · rename_i h; simp [h, ih]
    · rfl

theorem parseAnswersAux_bounds (limit n : Nat) : ∀ (fuel : Nat) (str : Bytes) (i : Nat) (acc res : List (UInt8 × Int)),
    (∀ a ∈ acc, 0 ≤ a.2 ∧ a.2 ≤ (limit : Int)) → parseAnswersAux limit n fuel str i acc = some res →
    ∀ a ∈ res, 0 ≤ a.2 ∧ a.2 ≤ (limit : Int) := by
  intro fuel
  induction fuel with
  | zero => intro str i acc res hacc h; simp only [parseAnswersAux, Option.some.injEq] at h; subst h; exact hacc
  | succ f ih =>
    intro str i acc res hacc h
    cases str with
    | nil => simp only [parseAnswersAux, Option.some.injEq] at h; subst h; exact hacc
    | cons c rest =>
      have hset : ∀ (x : UInt8) (off : Int), 0 ≤ off → off ≤ (limit : Int) →
          ∀ a ∈ acc.set i (x, off), 0 ≤ a.2 ∧ a.2 ≤ (limit : Int) := by
        intro x off h0 h1 a ha
        rcases List.mem_or_eq_of_mem_set ha with ha | ha
        · exact hacc a ha
        · subst ha; exact ⟨h0, h1⟩
      have hlim : (0 : Int) ≤ (limit : Int) := Int.natCast_nonneg _
      simp only [parseAnswersAux] at h
      split at h
      · cases h
      · split at h
        · exact ih _ _ _ _ (hset _ 0 (Int.le_refl _) hlim) h
        · split at h
          · exact ih _ _ _ _ (hset _ 0 (Int.le_refl _) hlim) h
          · split at h
            · exact ih _ _ _ _ (hset _ 0 (Int.le_refl _) hlim) h
            · split at h
              · split at h
                · cases h
                · rename_i hemp
                  refine ih _ _ _ _ (hset _ _ ?_ ?_) h
                  · split
                    · exact Int.le_refl _
                    · exact atoi_digits_nonneg _ (by simpa using hemp) (takeWhile_all _ _)
                  · split
                    · exact hlim
                    · omega
              · cases h

theorem parseProposalAnswer_bounds (limit : Nat) (reply : Bytes) (n : Nat) (ans : List (UInt8 × Int))
    (h : parseProposalAnswer limit reply n = some ans) : ∀ a ∈ ans, 0 ≤ a.2 ∧ a.2 ≤ (limit : Int) := by
  unfold parseProposalAnswer at h
  refine parseAnswersAux_bounds limit n _ _ _ _ _ ?_ h
  intro a ha
  have := List.eq_of_mem_replicate ha
  subst this
  exact ⟨Int.le_refl _, Int.natCast_nonneg _⟩

/-- the proposals after the answers have been filled in -/
def withAnswers (blk : List Proposal) (ans : List (UInt8 × Int)) : List Proposal :=
  (blk.zip ans).map fun (p, a) => { p with answer := a.1, offset := a.2 }

theorem withAnswers_sublist : ∀ (blk : List Proposal) (ans : List (UInt8 × Int)),
    ((withAnswers blk ans).map csz).Sublist (blk.map csz) := by
  intro blk
  induction blk with
  | nil => intro ans; simp [withAnswers]
  | cons p t ih =>
    intro ans
    cases ans with
    | nil => simp [withAnswers]
    | cons a as =>
      simp only [withAnswers, List.zip_cons_cons, List.map_cons]
      exact List.Sublist.cons_cons _ (ih as)

theorem withAnswers_ok (lim : Nat) (hlim : lim ≤ 999999) (blk : List Proposal) (ans : List (UInt8 × Int))
    (hb : ∀ p ∈ blk, PropOK p) (ha : ∀ a ∈ ans, 0 ≤ a.2 ∧ a.2 ≤ (lim : Int)) : ∀ q ∈ withAnswers blk ans, XferOK q := by
  intro q hq
  simp only [withAnswers, List.mem_map] at hq
  obtain ⟨⟨p, a⟩, hpa, rfl⟩ := hq
  have := List.of_mem_zip hpa
  have hp := hb p this.1
  have h2 := ha a this.2
  exact ⟨hp.title, hp.csize, h2.1, by have := h2.2; simp only; omega⟩

theorem sendOutbound_acc (c : Cfg) (hc : CfgOK c) (fuel : Nat) (out : List Proposal) (hne : out ≠ [])
    (hp : ∀ p ∈ out, PropOK p) (s : GState) (hs : TurnStart s) : Acc TQ s (sendOutbound c fuel out) := by
  unfold sendOutbound
  simp only [bind_eq, pure_eq]
  generalize hblk : out.take c.maxBlock = blk
  have hbp : ∀ p ∈ blk, PropOK p := fun p h => hp p (by rw [← hblk] at h; exact List.mem_of_mem_take h)
  have hlen : blk.length ≤ 5 := by rw [← hblk, List.length_take]; have := hc.blk5; omega
  have hbne : blk ≠ [] := by
    rw [← hblk]
    cases out with
    | nil => exact absurd rfl hne
    | cons a t =>
      have := hc.blk1
      cases hm : c.maxBlock with
      | zero => omega
      | succ k => simp
  have hlines : (blk.map fun p => proposalLine p.code p.msgType p.mid p.size p.csize) = blk.map plOf := rfl
  rw [hlines]
  -- the proposal lines
  have hfirst : Acc (fun (_ : Unit) s' => s' = .block blk.length (((blk.map plOf).map lineSum).foldl (· + ·) 0) (blk.map csz))
      s (writeLines (blk.map plOf)) := by
    cases blk with
    | nil => exact absurd rfl hbne
    | cons p t =>
      obtain ⟨n, hn⟩ := plOf_ok (hbp p (by simp))
      simp only [List.map_cons, writeLines]
      refine acc_write (s' := .block 1 (lineSum (plOf p)) [csz p]) ?_ ?_
      · rw [hn]; exact step_open_prop hs p.mid n (csz p) (hbp p (by simp)).mid
      · refine (writeLines_block t 1 _ _ (fun q hq => hbp q (by simp [hq])) (by simp at hlen; omega)).mono ?_
        intro _ s' hs'
        rw [hs']
        simp only [List.length_cons, List.foldl_cons, List.map_map, List.cons_append, List.nil_append, Nat.zero_add]
        congr 1
        · omega
  apply AcceptsR.bind hfirst
  intro _ s1 hs1
  subst hs1
  apply AcceptsR.bind (Q := fun _ s' => s' = .idle (blk.map csz))
  · exact acc_write (step_block_prompt _ _ _) (AcceptsR.ret _ _ rfl)
  intro _ s2 hs2
  subst hs2
  apply AcceptsR.bind (awaitAnswer_acc fuel _ fuel)
  intro r s3 ⟨hs3, hr⟩
  subst hs3
  cases r with
  | error e => exact AcceptsR.ret _ _ ⟨hr e rfl, rfl⟩
  | ok reply =>
    simp only [parseProposalAnswerC_eq]
    cases hans : parseProposalAnswer c.offsetLimit reply blk.length with
    | none => exact AcceptsR.ret _ _ ⟨by show (13 : UInt8) ∉ strBytes _; decide +kernel, rfl⟩
    | some ans =>
      have hb := parseProposalAnswer_bounds _ _ _ _ hans
      exact transferAll_acc c hc (withAnswers blk ans) [] _ (withAnswers_sublist blk ans)
        (withAnswers_ok c.offsetLimit hc.offLim blk ans hbp hb)

theorem callAll_acc (s : GState) : ∀ (cs : List Call), Acc (fun _ s' => s' = s) s (callAll cs) := by
  intro cs
  induction cs with
  | nil => exact AcceptsR.ret _ _ rfl
  | cons x xs ih => exact acc_call (fun _ _ => ih)

/-- postcondition of `handleOutbound`: `FQ` written ⇔ it reports quit; otherwise between units -/
def OutQ (r : Except SErr (Bool × SState)) (s' : GState) : Prop :=
  match r with
  | .error e => ErrOK e ∧ errAllowed s' = true
  | .ok (q, _) => if q then s' = .ended else ∃ pend, s' = .idle pend

theorem handleOutbound_acc (c : Cfg) (hc : CfgOK c) (fuel : Nat) (st : SState) (s : GState) (hs : TurnStart s) :
    Acc OutQ s (handleOutbound c fuel st) := by
  unfold handleOutbound
  simp only [bind_eq, pure_eq]
  apply AcceptsR.bind (outbound_acc c st s)
  intro out s1 ⟨hs1, hout⟩
  subst hs1
  split
  · apply AcceptsR.bind (Q := fun _ s' => if st.remoteNoMsgs then s' = .ended else s' = .idle [])
    · split
      · rename_i h
        exact acc_write (step_open_FQ hs) (AcceptsR.ret _ _ (by simp [h]))
      · rename_i h
        exact acc_write (step_open_FF hs) (AcceptsR.ret _ _ (by simp [h]))
    · intro _ s2 hs2
      refine AcceptsR.ret _ _ ?_
      show if st.remoteNoMsgs then _ else _
      split
      · rename_i h; simpa [h] using hs2
      · rename_i h; exact ⟨[], by simpa [h] using hs2⟩
  · rename_i hne
    apply AcceptsR.bind (sendOutbound_acc c hc fuel out (by intro h; subst h; simp at hne) hout s1 hs)
    intro r s2 hr
    cases r with
    | error e => exact AcceptsR.ret _ _ hr
    | ok sent =>
      obtain ⟨pend, rfl⟩ := hr
      simp only
      apply AcceptsR.bind (callAll_acc _ _)
      intro _ s3 hs3
      subst hs3
      apply acc_peek
      intro o
      cases o with
      | none => exact AcceptsR.ret _ _ ⟨trivial, rfl⟩
      | some b =>
        simp only
        split
        · apply AcceptsR.bind (nextLine_acc fuel _)
          intro r s4 ⟨hs4, hr4⟩
          subst hs4
          cases r with
          | error e => exact AcceptsR.ret _ _ ⟨hr4 e rfl, rfl⟩
          | ok _ => exact AcceptsR.ret _ _ ⟨by show (13 : UInt8) ∉ strBytes _; decide +kernel, rfl⟩
        · apply AcceptsR.bind (callAll_acc _ _)
          intro _ s4 hs4
          subst hs4
          exact AcceptsR.ret _ _ ⟨pend, rfl⟩


/-! ### inbound -/

/-- an answer that is still open (0) or one of `+ - =` -/
def OpenOrPlain (p : Proposal) : Prop := p.answer = 0 ∨ PlainAnswer p.answer

theorem preAnswer_spec (hh : Bool) : ∀ (ps : List Proposal) (seen : List Bytes),
    (∀ p ∈ preAnswer hh ps seen, OpenOrPlain p) ∧ (preAnswer hh ps seen).length = ps.length := by
  intro ps
  induction ps with
  | nil => intro seen; simp [preAnswer]
  | cons p t ih =>
    intro seen
    simp only [preAnswer, List.mem_cons, List.length_cons, (ih _).2, and_true]
    intro q hq
    rcases hq with rfl | hq
    · unfold OpenOrPlain
      simp only
      split
      · exact Or.inr (Or.inr (Or.inr rfl))
      · split
        · exact Or.inr (Or.inr (Or.inr rfl))
        · split
          · exact Or.inr (Or.inr (Or.inr rfl))
          · exact Or.inl rfl
    · exact (ih _).1 q hq

theorem plain_ne_zero {a : UInt8} (h : PlainAnswer a) : a ≠ 0 := by
  rcases h with h | h | h <;> subst h <;> decide

theorem askEach_acc (s : GState) : ∀ (ps acc : List Proposal), (∀ p ∈ ps, OpenOrPlain p) →
    (∀ p ∈ acc, PlainAnswer p.answer) →
    Acc (fun res s' => s' = s ∧ (∀ p ∈ res, PlainAnswer p.answer) ∧ res.length = acc.length + ps.length) s (askEach ps acc) := by
  intro ps
  induction ps with
  | nil =>
    intro acc _ hacc
    exact AcceptsR.ret _ _ ⟨rfl, by simpa using hacc, by simp⟩
  | cons p t ih =>
    intro acc hps hacc
    have ht : ∀ q ∈ t, OpenOrPlain q := fun q hq => hps q (by simp [hq])
    have hfin : ∀ (x : Proposal), PlainAnswer x.answer →
        Acc (fun res s' => s' = s ∧ (∀ p ∈ res, PlainAnswer p.answer) ∧ res.length = acc.length + (p :: t).length) s
          (askEach t (x :: acc)) := by
      intro x hx
      refine (ih (x :: acc) ht ?_).mono ?_
      · intro q hq
        simp only [List.mem_cons] at hq
        rcases hq with rfl | hq
        · exact hx
        · exact hacc q hq
      · intro res s' ⟨h1, h2, h3⟩
        exact ⟨h1, h2, by simp only [List.length_cons] at h3 ⊢; omega⟩
    unfold askEach
    split
    · rename_i hne
      rcases hps p (by simp) with h0 | hpl
      · exact absurd h0 hne
      · exact hfin p hpl
    · apply acc_call
      intro r hr
      obtain ⟨a, rfl, ha⟩ := hr
      exact hfin { p with answer := a } ha

theorem assignAnswers_spec : ∀ (ps : List Proposal) (as : List UInt8) (res : List Proposal),
    (∀ p ∈ ps, OpenOrPlain p) → (∀ a ∈ as, PlainAnswer a) → assignAnswers ps as = some res →
    (∀ p ∈ res, PlainAnswer p.answer) ∧ res.length = ps.length := by
  intro ps
  induction ps with
  | nil => intro as res _ _ h; simp only [assignAnswers, Option.some.injEq] at h; subst h; simp
  | cons p t ih =>
    intro as res hps has h
    have ht : ∀ q ∈ t, OpenOrPlain q := fun q hq => hps q (by simp [hq])
    simp only [assignAnswers] at h
    split at h
    · rename_i hne
      cases hr : assignAnswers t as with
      | none => rw [hr] at h; simp at h
      | some r =>
        rw [hr] at h
        simp only [Option.map_some, Option.some.injEq] at h
        subst h
        obtain ⟨h1, h2⟩ := ih as r ht has hr
        refine ⟨?_, by simp [h2]⟩
        intro q hq
        simp only [List.mem_cons] at hq
        rcases hq with rfl | hq
        · rcases hps q (by simp) with h0 | hpl
          · exact absurd h0 hne
          · exact hpl
        · exact h1 q hq
    · cases as with
      | nil => simp at h
      | cons a as' =>
        simp only at h
        cases hr : assignAnswers t as' with
        | none => rw [hr] at h; simp at h
        | some r =>
          rw [hr] at h
          simp only [Option.map_some, Option.some.injEq] at h
          subst h
          obtain ⟨h1, h2⟩ := ih as' r ht (fun x hx => has x (by simp [hx])) hr
          refine ⟨?_, by simp [h2]⟩
          intro q hq
          simp only [List.mem_cons] at hq
          rcases hq with rfl | hq
          · exact has a (by simp)
          · exact h1 q hq

/-- `writeProposalsAnswer`: ONE write, the `FS` line, with exactly one answer of `+ - =` per proposal -/
theorem writeProposalsAnswer_acc (c : Cfg) (props : List Proposal) (hne : props ≠ []) (pend : List Nat) :
    Acc (fun ps s' => s' = .myTurn ∧ ps.length = props.length) (.idle pend) (writeProposalsAnswer c props) := by
  unfold writeProposalsAnswer
  simp only [bind_eq, pure_eq]
  obtain ⟨hpre1, hpre2⟩ := preAnswer_spec c.hasHandler props []
  have hw : ∀ ps : List Proposal, (∀ p ∈ ps, PlainAnswer p.answer) → ps.length = props.length →
      Acc (fun ps s' => s' = GState.myTurn ∧ ps.length = props.length) (.idle pend)
        (Proc.write (sb "FS " ++ ps.map (·.answer) ++ [13]) (Proc.ret ps)) := by
    intro ps hpl hlen
    refine acc_write (step_idle_fs pend _ ?_ ?_) (AcceptsR.ret _ _ ⟨rfl, hlen⟩)
    · intro h
      have : ps = [] := by simpa using h
      subst this
      have : props.length = 0 := by simpa using hlen.symm
      exact hne (List.length_eq_zero_iff.mp this)
    · intro a ha
      simp only [List.mem_map] at ha
      obtain ⟨q, hq, rfl⟩ := ha
      exact hpl q hq
  split
  · apply AcceptsR.bind (Q := fun ps s' => s' = .idle pend ∧ (∀ p ∈ ps, PlainAnswer p.answer) ∧ ps.length = props.length)
    · apply acc_call
      intro r hr
      cases r with
      | answers as =>
        simp only
        cases ha : assignAnswers (preAnswer c.hasHandler props []) as with
        | none => exact AcceptsR.panic _ _
        | some ps' =>
          obtain ⟨h1, h2⟩ := assignAnswers_spec _ _ _ hpre1 hr ha
          exact AcceptsR.ret _ _ ⟨rfl, h1, by rw [h2, hpre2]⟩
      | _ => exact AcceptsR.panic _ _
    · intro ps' s' ⟨hs', h1, h2⟩
      subst hs'
      exact hw ps' h1 h2
  · apply AcceptsR.bind (askEach_acc (.idle pend) _ [] hpre1 (by simp))
    intro ps' s' ⟨hs', h1, h2⟩
    subst hs'
    exact hw ps' h1 (by simpa [hpre2] using h2)

theorem readN_acc (s : GState) : ∀ (n : Nat) (acc : Bytes), Acc (fun _ s' => s' = s) s (readN n acc) := by
  intro n
  induction n with
  | zero => intro acc; exact AcceptsR.ret _ _ rfl
  | succ n ih =>
    intro acc
    unfold readN
    apply AcceptsR.readByte
    intro o
    cases o with
    | none => exact AcceptsR.ret _ _ rfl
    | some b => exact ih _

theorem readBlocks_acc (csize : Int) (s : GState) : ∀ (fuel : Nat) (buf : Bytes) (sum : Nat),
    Acc (EQ s) s (readBlocks csize fuel buf sum) := by
  intro fuel
  induction fuel with
  | zero => intro buf sum; exact AcceptsR.panic _ _
  | succ fuel ih =>
    intro buf sum
    unfold readBlocks
    apply AcceptsR.readByte
    intro o
    cases o with
    | none => err_lit
    | some c =>
      simp only
      split
      · apply AcceptsR.readByte
        intro o
        apply AcceptsR.bind (readN_acc s _ _)
        intro r s' hs'
        subst hs'
        cases r with
        | none => err_lit
        | some blk => exact ih _ _
      · split
        · apply AcceptsR.readByte
          intro o
          cases o with
          | none => err_lit
          | some x => simp only; split <;> (first | err_lit | (split <;> (first | err_lit | ok_ret)))
        · err_lit

theorem readCompressed_acc (fuel : Nat) (p : Proposal) (s : GState) : Acc (EQ s) s (readCompressed fuel p) := by
  unfold readCompressed
  apply AcceptsR.readByte
  intro o
  cases o with
  | none => err_lit
  | some c =>
    simp only
    split
    · apply AcceptsR.bind (nextLine_acc fuel s)
      intro _ s' ⟨hs', _⟩
      subst hs'
      err_lit
    · split
      · err_lit
      · apply AcceptsR.readByte
        intro o
        cases o with
        | none => err_lit
        | some hl =>
          simp only [bind_eq, pure_eq]
          apply AcceptsR.bind (readString_acc 0 s fuel [])
          intro r1 s' ⟨hs', _⟩
          subst hs'
          obtain ⟨title, eof1⟩ := r1
          split
          · err_lit
          · apply AcceptsR.bind (readString_acc 0 s' fuel [])
            intro r2 s'' ⟨hs'', _⟩
            subst hs''
            obtain ⟨off, eof2⟩ := r2
            split
            · err_lit
            · cases stripDelimC title with
              | none => exact AcceptsR.panic _ _
              | some t =>
                cases stripDelimC off with
                | none => exact AcceptsR.panic _ _
                | some o2 =>
                  simp only
                  split
                  · err_lit
                  · split
                    · err_lit
                    · split
                      · err_lit
                      · exact readBlocks_acc _ _ _ _ _

theorem fetchAll_acc (fuel : Nat) (s : GState) : ∀ (ps : List Proposal) (st : SState),
    Acc (fun (r : SState × Option SErr) s' => s' = s ∧ ∀ e, r.2 = some e → ErrOK e) s (fetchAll fuel ps st) := by
  intro ps
  induction ps with
  | nil => intro st; exact AcceptsR.ret _ _ ⟨rfl, fun e h => by cases h⟩
  | cons p ps ih =>
    intro st
    have lit : ∀ (st : SState) (w : String), (13 : UInt8) ∉ strBytes w →
        Acc (fun (r : SState × Option SErr) s' => s' = s ∧ ∀ e, r.2 = some e → ErrOK e) s (Proc.ret (st, some (SErr.proto w))) :=
      fun st w hw => AcceptsR.ret _ _ ⟨rfl, fun e h => by cases h; exact hw⟩
    have eof : ∀ (st : SState),
        Acc (fun (r : SState × Option SErr) s' => s' = s ∧ ∀ e, r.2 = some e → ErrOK e) s (Proc.ret (st, some SErr.eof)) :=
      fun st => AcceptsR.ret _ _ ⟨rfl, fun e h => by cases h; trivial⟩
    unfold fetchAll
    split
    · exact ih _
    · simp only [bind_eq, pure_eq]
      apply AcceptsR.bind (readCompressed_acc fuel p s)
      intro r s' ⟨hs', hr⟩
      subst hs'
      cases r with
      | error e => exact AcceptsR.ret _ _ ⟨rfl, fun e' h => by cases h; exact hr e rfl⟩
      | ok cdata =>
        simp only
        apply AcceptsR.bind (Q := fun _ s'' => s'' = s')
        · split
          · exact acc_call (fun _ _ => AcceptsR.ret _ _ rfl)
          · exact AcceptsR.ret _ _ rfl
        · intro d s'' hs''
          subst hs''
          cases d with
          | none =>
            refine AcceptsR.ret _ _ ⟨rfl, ?_⟩
            intro e h
            simp only [Option.some.injEq] at h
            subst h
            have hb : ∀ b : Bool, ErrOK (if b = true then SErr.eof else SErr.proto "unable-to-decompress") := by
              intro b
              cases b
              · show (13 : UInt8) ∉ strBytes _
                decide +kernel
              · trivial
            exact hb _
          | some data =>
            simp only
            apply acc_call
            intro r _
            split
            · split
              · exact eof _
              · exact lit _ _ (by decide +kernel)
            · apply acc_call
              intro r _
              split
              · exact lit _ _ (by decide +kernel)
              · exact ih _

/-- postcondition of the line loop: nothing written (monitor unmoved) or the `FS` line (→ `myTurn`) -/
def InQ (pend : List Nat) (r : Except SErr (Bool × List Proposal × SState)) (s' : GState) : Prop :=
  match r with
  | .error e => ErrOK e ∧ s' = .idle pend
  | .ok _ => s' = .idle pend ∨ s' = .myTurn

theorem inboundLoop_acc (c : Cfg) (fuel : Nat) (pend : List Nat) : ∀ (n : Nat) (props : List Proposal) (sum : Nat) (st : SState),
    Acc (InQ pend) (.idle pend) (inboundLoop c fuel n props sum st) := by
  intro n
  induction n with
  | zero => intro props sum st; exact AcceptsR.panic _ _
  | succ n ih =>
    intro props sum st
    have lit : ∀ (w : String), (13 : UInt8) ∉ strBytes w →
        Acc (InQ pend) (.idle pend) (Proc.ret (Except.error (SErr.proto w))) :=
      fun w hw => AcceptsR.ret _ _ ⟨hw, rfl⟩
    have okr : ∀ (v : Bool × List Proposal × SState), Acc (InQ pend) (.idle pend) (Proc.ret (Except.ok v)) :=
      fun v => AcceptsR.ret _ _ (Or.inl rfl)
    unfold inboundLoop
    simp only [bind_eq, pure_eq]
    apply AcceptsR.bind (nextLine_acc fuel _)
    intro r s ⟨hs, hr⟩
    subst hs
    cases r with
    | error e => exact AcceptsR.ret _ _ ⟨hr e rfl, rfl⟩
    | ok line =>
      simp only
      split
      · exact ih _ _ _
      · split
        · exact ih _ _ _
        · split
          · exact lit _ (by decide +kernel)
          · rename_i hlen
            have h2 : 2 ≤ line.length := by
              by_cases h : line.length < 2
              · exact absurd (Or.inl h) hlen
              · omega
            rw [cmdByteC_eq line h2, parseProposalC_eq line h2, promptFieldC_eq line h2]
            simp only
            split
            · cases parseProposal line with
              | none => exact lit _ (by decide +kernel)
              | some f => exact ih _ _ _
            · split
              · exact okr _
              · split
                · exact okr _
                · split
                  · split
                    · exact lit _ (by decide +kernel)
                    · split
                      · exact okr _
                      · rename_i hemp
                        apply AcceptsR.bind (writeProposalsAnswer_acc c props (by intro h; subst h; simp at hemp) pend)
                        intro _ s' ⟨hs', _⟩
                        exact AcceptsR.ret _ _ (Or.inr hs')
                  · exact lit _ (by decide +kernel)

/-- postcondition of `handleInbound` and of `turns`: an error is echoable where the monitor stands -/
def EchoQ (e : Option SErr) (s' : GState) : Prop := ∀ err, e = some err → ErrOK err ∧ errAllowed s' = true

theorem handleInbound_acc (c : Cfg) (fuel : Nat) (st : SState) (pend : List Nat) :
    Acc (fun (r : Bool × SState × Option SErr) s' => EchoQ r.2.2 s' ∧ (r.2.2 = none → TurnStart s'))
      (.idle pend) (handleInbound c fuel st) := by
  unfold handleInbound
  simp only [bind_eq, pure_eq]
  apply AcceptsR.bind (inboundLoop_acc c fuel pend fuel [] 0 st)
  intro r s hr
  cases r with
  | error e =>
    obtain ⟨h1, rfl⟩ := hr
    exact AcceptsR.ret _ _ ⟨fun err h => by cases h; exact ⟨h1, rfl⟩, fun h => by cases h⟩
  | ok v =>
    obtain ⟨quit, props, st'⟩ := v
    simp only
    have hts : TurnStart s ∧ errAllowed s = true := by
      rcases hr with rfl | rfl <;> exact ⟨trivial, rfl⟩
    apply AcceptsR.bind (fetchAll_acc fuel s props st')
    intro r s' ⟨hs', hr'⟩
    subst hs'
    obtain ⟨st2, e⟩ := r
    exact AcceptsR.ret _ _ ⟨fun err h => ⟨hr' err h, hts.2⟩, fun _ => hts.1⟩

/-! ### the turn loop, `finish` -/

theorem turns_acc (c : Cfg) (hc : CfgOK c) (fuel : Nat) : ∀ (n : Nat) (myTurn : Bool) (st : SState) (s : GState),
    (st.quitReceived = true ∨ st.quitSent = true ∨ (if myTurn then TurnStart s else ∃ pend, s = .idle pend)) →
    Acc (fun (r : SState × Option SErr) s' => EchoQ r.2 s') s (turns c fuel n myTurn st) := by
  intro n
  induction n with
  | zero => intro _ _ s _; exact AcceptsR.panic _ _
  | succ n ih =>
    intro myTurn st s hpre
    unfold turns
    split
    · exact AcceptsR.ret _ _ (fun err h => by cases h)
    · rename_i hq
      have hpre' : if myTurn then TurnStart s else ∃ pend, s = .idle pend := by
        rcases hpre with h | h | h
        · exact absurd (Or.inl h) hq
        · exact absurd (Or.inr h) hq
        · exact h
      split
      · rename_i hmt
        simp only [hmt, if_true] at hpre'
        simp only [bind_eq, pure_eq]
        apply AcceptsR.bind (handleOutbound_acc c hc fuel st s hpre')
        intro r s' hr
        cases r with
        | error e => exact AcceptsR.ret _ _ (fun err h => by cases h; exact hr)
        | ok v =>
          obtain ⟨q, st'⟩ := v
          refine ih _ _ _ ?_
          cases q with
          | true => exact Or.inr (Or.inl rfl)
          | false =>
            refine Or.inr (Or.inr ?_)
            simp only [hmt, Bool.not_true, Bool.false_eq_true, if_false]
            simpa [OutQ] using hr
      · rename_i hmt
        have hmt' : myTurn = false := by simpa using hmt
        simp only [hmt', Bool.false_eq_true, if_false] at hpre'
        obtain ⟨pend, rfl⟩ := hpre'
        simp only [bind_eq, pure_eq]
        apply AcceptsR.bind (handleInbound_acc c fuel st pend)
        intro r s' ⟨hr1, hr2⟩
        obtain ⟨q, st', e⟩ := r
        cases e with
        | some e => exact AcceptsR.ret _ _ hr1
        | none =>
          refine ih _ _ _ (Or.inr (Or.inr ?_))
          simp only [hmt', Bool.not_false, if_true]
          exact hr2 rfl

theorem finish_acc (st : SState) (named : Bool) (e : Option SErr) (s : GState) (he : EchoQ e s) :
    Acc (fun _ _ => True) s (finish st named e) := by
  unfold finish
  split
  · exact AcceptsR.ret _ _ trivial
  · exact AcceptsR.ret _ _ trivial
  · rename_i m
    obtain ⟨h1, h2⟩ := he _ rfl
    exact acc_write (step_err s h2 m h1) (AcceptsR.ret _ _ trivial)
  · rename_i w
    obtain ⟨h1, h2⟩ := he _ rfl
    exact acc_write (step_err s h2 (strBytes w) h1) (AcceptsR.ret _ _ trivial)

end Wl2k.B2F
