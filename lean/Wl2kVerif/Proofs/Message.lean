import Wl2kVerif.Proofs.Textproto
import Wl2kVerif.Msg.Spec
/-
Proofs for C09: the header lines written by `Header.write` are read back by the textproto reader
model; sections; the full round trip.
-/
namespace Wl2k.Msg
open Wl2k Wl2k.Textproto

/-! ### byte classes -/

theorem field_ne_colon {b : UInt8} (h : validFieldByte b = true) : b ≠ 58 := by
  intro e; subst e; revert h; decide
theorem field_ne_space {b : UInt8} (h : validFieldByte b = true) : b ≠ 32 := by
  intro e; subst e; revert h; decide
theorem field_ne_lf {b : UInt8} (h : validFieldByte b = true) : b ≠ 10 := by
  intro e; subst e; revert h; decide
theorem field_not_blank {b : UInt8} (h : validFieldByte b = true) : isBlank b = false := by
  cases hb : isBlank b with
  | false => rfl
  | true =>
    simp only [isBlank, Bool.or_eq_true, beq_iff_eq] at hb
    rcases hb with e | e <;> (subst e; revert h; decide)
theorem value_ne_lf {b : UInt8} (h : validValueByte b = true) : b ≠ 10 := by
  intro e; subst e; revert h; decide

theorem keyOK_ne {k : Bytes} (h : keyOK k = true) : k ≠ [] := by
  intro e; subst e; simp [keyOK] at h
theorem keyOK_field {k : Bytes} (h : keyOK k = true) : ∀ b ∈ k, validFieldByte b = true := by
  simp only [keyOK, Bool.and_eq_true, List.all_eq_true] at h; exact h.1.2
theorem keyOK_canon {k : Bytes} (h : keyOK k = true) : canonLoop true k = k := by
  simp only [keyOK, Bool.and_eq_true, beq_iff_eq] at h; exact h.2

theorem canonKeyB_ok {k : Bytes} (h : keyOK k = true) : canonKeyB k = (k, true) := by
  have hne := keyOK_ne h
  have hf := keyOK_field h
  have h1 : k.isEmpty = false := by cases k <;> simp_all
  have h2 : k.any (fun c => !validFieldByte c && c != 32) = false := by
    rw [List.any_eq_false]; intro b hb; simp [hf b hb]
  have h3 : k.any (· == 32) = false := by
    rw [List.any_eq_false]; intro b hb; simpa using field_ne_space (hf b hb)
  simp [canonKeyB, h1, h2, h3, keyOK_canon h]

/-! ### one header line -/

theorem trim_line (k v : Bytes) (hk : keyOK k = true) (hv : valueOK v = true) :
    ∃ r, trim (k ++ colonSp ++ trimString v) = k ++ 58 :: r ∧ r.all validValueByte = true ∧
      r.dropWhile isBlank = trimString v := by
  have hne := keyOK_ne hk
  have hf := keyOK_field hk
  have hhead : ∀ b, (k ++ colonSp ++ trimString v).head? = some b → isBlank b = false := by
    intro b hb
    cases k with
    | nil => exact absurd rfl hne
    | cons a t =>
      simp at hb; subst hb; exact field_not_blank (hf _ (by simp))
  have hvb : ∀ b ∈ trimString v, validValueByte b = true := by
    intro b hb
    simp only [valueOK, List.all_eq_true] at hv
    exact hv b (mem_trimWith hb)
  by_cases htv : trimString v = []
  · refine ⟨[], ?_, by simp, by simp [htv]⟩
    rw [htv] at hhead ⊢
    simp only [List.append_nil] at hhead ⊢
    unfold trim trimWith
    rw [dropWhile_head_neg _ hhead]
    have : (k ++ colonSp).reverse = 32 :: 58 :: k.reverse := by simp [colonSp]
    rw [this]
    simp [List.dropWhile_cons, isBlank]
  · refine ⟨32 :: trimString v, ?_, ?_, ?_⟩
    · have : trim (k ++ colonSp ++ trimString v) = k ++ colonSp ++ trimString v := by
        apply trimWith_id _ hhead
        intro b hb
        rw [List.getLast?_append] at hb
        cases hl : (trimString v).getLast? with
        | none => simp [List.getLast?_eq_none_iff] at hl; exact absurd hl htv
        | some x =>
          rw [hl] at hb; simp at hb; subst hb
          exact isBlank_space (trimWith_last v x hl)
      rw [this]; simp [colonSp]
    · simp only [List.all_cons, Bool.and_eq_true, List.all_eq_true]
      exact ⟨by decide, hvb⟩
    · rw [List.dropWhile_cons]
      simp only [show isBlank 32 = true by decide, if_true]
      apply dropWhile_head_neg
      intro b hb
      exact isBlank_space (trimWith_head v b hb)

theorem addLine_line (h : Header) (k v : Bytes) (hk : keyOK k = true) (hv : valueOK v = true) :
    addLine h (trim (k ++ colonSp ++ trimString v)) = .ok (addRaw h k (trimString v)) := by
  obtain ⟨r, h1, h2, h3⟩ := trim_line k v hk hv
  have hc : (58 : UInt8) ∉ k := fun hm => field_ne_colon (keyOK_field hk _ hm) rfl
  unfold addLine
  rw [h1, cutColon_append k r hc]
  simp [canonKeyB_ok hk, h2, h3]

theorem line_eq (k v : Bytes) : line k v = (k ++ colonSp ++ trimString v) ++ 13 :: 10 :: [] := by
  simp [line, crlf9]

theorem readContinued_hline (k v R : Bytes) (hk : keyOK k = true) (hv : valueOK v = true)
    (hR : ∀ b, R.head? = some b → isBlank b = false) :
    readContinued (line k v ++ R) = .ok (trim (k ++ colonSp ++ trimString v), R) := by
  have e : line k v ++ R = (k ++ colonSp ++ trimString v) ++ 13 :: 10 :: R := by simp [line, crlf9]
  rw [e]
  apply readContinued_line _ _ _ _ _ hR
  · have := keyOK_ne hk; cases k <;> simp_all
  · simp only [List.mem_append, not_or, colonSp]
    refine ⟨⟨fun hm => field_ne_lf (keyOK_field hk _ hm) rfl, by decide⟩, ?_⟩
    intro hm
    simp only [valueOK, List.all_eq_true] at hv
    exact value_ne_lf (hv _ (mem_trimWith hm)) rfl
  · simp [colonSp]

/-! ### all header lines -/

def lineKV (p : Bytes × Bytes) : Bytes := line p.1 p.2

theorem head_lines_notBlank (L : List (Bytes × Bytes)) (rest : Bytes) (hL : ∀ p ∈ L, keyOK p.1 = true ∧ valueOK p.2 = true) :
    ∀ b, (L.flatMap lineKV ++ crlf9 ++ rest).head? = some b → isBlank b = false := by
  intro b hb
  cases L with
  | nil => simp [crlf9] at hb; subst hb; decide
  | cons p t =>
    have hk := (hL p (by simp)).1
    have hne := keyOK_ne hk
    cases hp : p.1 with
    | nil => exact absurd hp hne
    | cons a s =>
      simp [lineKV, line, hp] at hb
      subst hb
      exact field_not_blank (keyOK_field hk _ (by simp [hp]))

theorem readHeaderLoop_lines : ∀ (L : List (Bytes × Bytes)) (f : Nat) (h0 : Header) (rest : Bytes),
    L.length < f → (∀ p ∈ L, keyOK p.1 = true ∧ valueOK p.2 = true) →
    readHeaderLoop f h0 (L.flatMap lineKV ++ crlf9 ++ rest) =
      .ok (L.foldl (fun h p => addRaw h p.1 (trimString p.2)) h0, rest)
  | [], f, h0, rest, hf, _ => by
    cases f with
    | zero => omega
    | succ f => simp [readHeaderLoop, crlf9, readContinued_blank]
  | p :: t, f, h0, rest, hf, hL => by
    cases f with
    | zero => simp at hf
    | succ f =>
      have hp := hL p (by simp)
      have hR := head_lines_notBlank t rest (fun q hq => hL q (by simp [hq]))
      have e : (p :: t).flatMap lineKV ++ crlf9 ++ rest = line p.1 p.2 ++ (t.flatMap lineKV ++ crlf9 ++ rest) := by
        simp [lineKV]
      obtain ⟨r, h1, _, _⟩ := trim_line p.1 p.2 hp.1 hp.2
      have hne : (trim (p.1 ++ colonSp ++ trimString p.2)).isEmpty = false := by
        rw [h1]; have := keyOK_ne hp.1; cases p.1 <;> simp_all
      rw [e, readHeaderLoop, readContinued_hline _ _ _ hp.1 hp.2 hR]
      simp only [hne, addLine_line _ _ _ hp.1 hp.2]
      rw [readHeaderLoop_lines t f _ rest (by simp at hf; omega) (fun q hq => hL q (by simp [hq]))]
      simp

end Wl2k.Msg
