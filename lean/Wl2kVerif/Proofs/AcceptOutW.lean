import Wl2kVerif.Proofs.AcceptBase
import Wl2kVerif.Proofs.EmitWalk
import Wl2kVerif.Proofs.PairLz
import Wl2kVerif.Proofs.Safe
import Wl2kVerif.Proofs.Checked
/-
The WRITE-ONLY parts of the session's own turn (`outbound`, the first half of `sendOutbound`,
`transferAll` / `writeCompressed`, `callAll`, `writeLines`) in the `Emits` logic of AcceptBase.lean, and
how the input-grammar checker (B2F/InGrammar.lean: `lineWrites`, `takeBlock`, `ourTurn`) reads the
session's own writes back.
-/
namespace Wl2k.B2F
open Wl2k Wl2k.Fmt Wl2k.Str Wl2k.Strconv Wl2k.B2F.InGrammar Wl2k.B2F.Grammar

/-! ### (3) `writeLines` -/

theorem writeLines_emits (R : Call → Reply → Prop) (ls : List Bytes) :
    Emits R (fun _ ws => ws = ls.map (· ++ [13])) (writeLines ls) := by
  induction ls with
  | nil => exact .ret () rfl
  | cons l ls ih =>
    simp only [writeLines]
    refine .write _ _ (ih.mono ?_)
    intro _ ws h
    simp [h]

/-! ### (5) `callAll` -/

theorem callAll_emits (R : Call → Reply → Prop) (cs : List Call) :
    Emits R (fun _ ws => ws = []) (callAll cs) := by
  induction cs with
  | nil => exact .ret () rfl
  | cons c cs ih =>
    simp only [callAll]
    exact .call _ _ (fun _ _ => ih)

/-! ### (1) `outbound` -/

theorem mkProp_cdata_len (m : OutMsg) : 6 ≤ (mkProp m).cdata.length :=
  Lzhuf.compress_length_ge_6 m.data

theorem outbound_emits (g : InCfg) (c : Cfg) (st : SState) :
    Emits (RA g) (fun out ws => ws = [] ∧ ∀ p ∈ out, PropOK p ∧ 6 ≤ p.cdata.length) (outbound c st) := by
  unfold outbound
  split
  · exact .ret _ ⟨rfl, by simp⟩
  · refine .call _ _ ?_
    intro r hr
    cases r with
    | msgs out =>
      refine .ret _ ⟨rfl, ?_⟩
      intro p hp
      have hp' := emit_mem_sortProposals p _ hp
      simp only [List.mem_map, List.mem_filter] at hp'
      obtain ⟨m, ⟨hm, hv⟩, rfl⟩ := hp'
      have := hr.1 m hm hv
      exact ⟨mkProp_ok m this.1 this.2, mkProp_cdata_len m⟩
    | _ => exact .ret _ ⟨rfl, by simp⟩

/-! ### (2) the checker reads our proposal block back -/

theorem propLine?_plOf {p : Proposal} (h : PropOK p) : propLine? (plOf p ++ [13]) = some (csz p) := by
  obtain ⟨n, hn⟩ := plOf_ok h
  rw [hn]
  exact propLine?_ok p.mid n (csz p) h.mid

theorem propLine?_promptLine (sum : Nat) : propLine? (promptLine sum) = none := by
  rw [promptLine_eq_promptOf]; exact propLine?_prompt sum

theorem promptLine_prefix (sum : Nat) : [70, 62].isPrefixOf (promptLine sum) = true := by
  simp [promptLine]

theorem takeBlock_block (blk : List Proposal) (hok : ∀ p ∈ blk, PropOK p) (sum : Nat) (W : List Bytes) (acc : List Nat) :
    takeBlock ((blk.map fun p => plOf p ++ [13]) ++ promptLine sum :: W) acc = some (acc ++ blk.map csz, W) := by
  induction blk generalizing acc with
  | nil =>
    simp only [List.map_nil, List.nil_append, takeBlock, propLine?_promptLine, promptLine_prefix, if_true,
      List.append_nil]
  | cons p t ih =>
    simp only [List.map_cons, List.cons_append, takeBlock, propLine?_plOf (hok p (by simp))]
    rw [ih (fun q hq => hok q (by simp [hq]))]
    simp

theorem plOf_cr_shape {p : Proposal} (h : PropOK p) : ∃ r, plOf p ++ [13] = 70 :: 67 :: 32 :: r := by
  refine ⟨p.msgType ++ [32] ++ p.mid ++ [32] ++ decInt p.size ++ [32] ++ decInt p.csize ++ [32, 48] ++ [13], ?_⟩
  simp [plOf, proposalLine, h.code]

theorem ourTurn_block (blk : List Proposal) (hok : ∀ p ∈ blk, PropOK p) (hne : blk ≠ []) (sum : Nat) (W : List Bytes) :
    ourTurn ((blk.map fun p => plOf p ++ [13]) ++ promptLine sum :: W) = .next (.answer (blk.map csz)) W := by
  have htb := takeBlock_block blk hok sum W []
  cases blk with
  | nil => exact absurd rfl hne
  | cons p t =>
    obtain ⟨r, hr⟩ := plOf_cr_shape (hok p (by simp))
    simp only [List.map_cons, List.cons_append] at htb ⊢
    have h1 : plOf p ++ [13] ≠ lineFF := by rw [hr]; simp [lineFF]
    have h2 : plOf p ++ [13] ≠ lineFQ := by rw [hr]; simp [lineFQ]
    simp only [ourTurn, if_neg h1, if_neg h2, htb]
    simp

theorem lineWrites_block (blk : List Proposal) (hok : ∀ p ∈ blk, PropOK p) (sum : Nat) :
    lineWrites ((blk.map fun p => plOf p ++ [13]) ++ [promptLine sum]) =
      (blk.map fun p => plOf p ++ [13]) ++ [promptLine sum] := by
  unfold lineWrites
  rw [List.filter_eq_self]
  intro w hw
  simp only [List.mem_append, List.mem_map, List.mem_singleton] at hw
  rcases hw with ⟨p, hp, rfl⟩ | rfl
  · obtain ⟨r, hr⟩ := plOf_cr_shape (hok p hp)
    rw [hr]; simp
  · simp [promptLine]

/-! ### (4) transfers -/

/-- all writes are parts of a transfer frame (SOH header, STX block, EOT trailer) -/
theorem lineWrites_eq_nil {ws : List Bytes}
    (h : ∀ w ∈ ws, w.head? = some 1 ∨ w.head? = some 2 ∨ w.head? = some 4) : lineWrites ws = [] := by
  unfold lineWrites
  rw [List.filter_eq_nil_iff]
  intro w hw
  rcases h w hw with h | h | h <;> simp [h]

theorem writeBlocks_emits (R : Call → Reply → Prop) (bs : List Bytes) :
    Emits R (fun _ ws => ws = bs) (writeBlocks bs) := by
  induction bs with
  | nil => exact .ret () rfl
  | cons b bs ih =>
    simp only [writeBlocks]
    refine .write _ _ (ih.mono ?_)
    intro _ ws h
    simp [h]

def XferGood (p : Proposal) : Prop :=
  p.answer = ansAccept → 6 ≤ p.csize ∧ 0 ≤ p.offset ∧ p.offset ≤ (p.cdata.length : Int)

theorem frameBlocks_head (m : Nat) (d : Bytes) : ∀ w ∈ frameBlocks m d, w.head? = some 2 := by
  intro w hw
  simp only [frameBlocks, List.mem_map] at hw
  obtain ⟨c, _, rfl⟩ := hw
  simp

/-- one transfer: only frame parts are written; it succeeds when the compressed size is at least 6 and
the offset lies inside the message -/
theorem writeCompressed_emits (R : Call → Reply → Prop) (c : Cfg) (p : Proposal) :
    Emits R (fun r ws => lineWrites ws = [] ∧
        (6 ≤ p.csize → 0 ≤ p.offset → p.offset ≤ (p.cdata.length : Int) → r = .ok ()))
      (writeCompressed c p) := by
  unfold writeCompressed
  refine .write _ _ ?_
  have hh : (frameHeader p.qtitle p.offset).head? = some 1 := by simp [frameHeader]
  split
  · refine .ret _ ⟨lineWrites_eq_nil (by simp [hh]), ?_⟩
    intro h6; omega
  · rw [payloadFromC_eq]
    by_cases h : p.offset < 0 ∨ p.offset > (p.cdata.length : Int)
    · simp only [h, if_true]
      refine .ret _ ⟨lineWrites_eq_nil (by simp [hh]), ?_⟩
      intro _ h0 h1; omega
    · simp only [h, if_false]
      refine Emits.bind (writeBlocks_emits R _) ?_
      intro _ ws hws
      subst hws
      refine .write _ _ (.ret _ ⟨?_, fun _ _ _ => rfl⟩)
      apply lineWrites_eq_nil
      intro w hw
      simp only [List.mem_cons, List.mem_append, List.not_mem_nil, or_false] at hw
      rcases hw with rfl | hw | rfl
      · exact Or.inl hh
      · exact Or.inr (Or.inl (frameBlocks_head _ _ w hw))
      · exact Or.inr (Or.inr (by simp [frameTrailer]))

theorem transferAll_emits (g : InCfg) (c : Cfg) : ∀ (ps : List Proposal) (sent : List (Bytes × Bool)),
    (∀ p ∈ ps, XferGood p) →
    Emits (RA g) (fun r ws => lineWrites ws = [] ∧ ∃ s, r = .ok s) (transferAll c ps sent) := by
  intro ps
  induction ps with
  | nil => intro sent _; exact .ret _ ⟨rfl, _, rfl⟩
  | cons p ps ih =>
    intro sent hx
    have hx' : ∀ q ∈ ps, XferGood q := fun q hq => hx q (by simp [hq])
    unfold transferAll
    split
    · exact .call _ _ (fun _ _ => ih _ hx')
    · split
      · exact ih _ hx'
      · split
        · rename_i ha
          simp only [bind_eq, pure_eq]
          refine Emits.bind (writeCompressed_emits (RA g) c p) ?_
          intro r ws ⟨hws, hr⟩
          obtain ⟨h6, h0, h1⟩ := hx p (by simp) ha
          rw [hr h6 h0 h1]
          refine (ih _ hx').mono ?_
          intro r' ws' ⟨hws', hs⟩
          exact ⟨by rw [lineWrites_append, hws, hws']; rfl, hs⟩
        · exact ih _ hx'

end Wl2k.B2F
