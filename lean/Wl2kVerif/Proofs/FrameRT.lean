import Wl2kVerif.Proofs.Run
import Wl2kVerif.Proofs.Checked
import Wl2kVerif.Proofs.Safe
/-
The SOH/STX/EOT frame: what `writeCompressed` writes, `readCompressed` reads back — for every
payload, every title without NUL and every block size 1..255.
-/
namespace Wl2k.B2F
open Wl2k Wl2k.Strconv

variable {H : Type} (hstep : H → Call → H × Reply)

theorem dataSum_append (a b : Bytes) : dataSum (a ++ b) = dataSum a + dataSum b := by
  unfold dataSum
  rw [List.foldl_append]
  generalize List.foldl (fun s b => s + b.toNat) 0 a = x
  induction b generalizing x with
  | nil => simp
  | cons c t ih => simp only [List.foldl_cons]; rw [ih, ih (0 + c.toNat)]; omega

def blockOf (c : Bytes) : Bytes := [2, UInt8.ofNat (c.length % 256)] ++ c

/-- the block loop over well-formed blocks followed by a correct trailer -/
theorem run_readBlocks (csize : Int) : ∀ (chunks : List Bytes) (fuel : Nat) (buf : Bytes) (sum : Nat) (ck : UInt8)
    (rest : Bytes) (h : H) (tr : List Ev),
    (∀ c ∈ chunks, 1 ≤ c.length ∧ c.length ≤ 255) → chunks.length < fuel →
    (sum + dataSum chunks.flatten + ck.toNat) % 256 = 0 → csize = ((buf ++ chunks.flatten).length : Int) →
    Proc.run hstep (readBlocks csize fuel buf sum) ((chunks.map blockOf).flatten ++ 4 :: ck :: rest) h tr =
      (.done (.ok (buf ++ chunks.flatten)), rest, h, tr) := by
  intro chunks
  induction chunks with
  | nil =>
    intro fuel buf sum ck rest h tr _ hf hck hsz
    cases fuel with
    | zero => omega
    | succ f =>
      simp only [List.map_nil, List.flatten_nil, List.nil_append, readBlocks, Proc.run]
      simp only [List.flatten_nil, dataSum, List.foldl_nil, Nat.add_zero, List.append_nil] at hck hsz
      have h42 : ¬ ((4 : UInt8) = 2) := by decide
      simp only [h42, if_false, if_true, Proc.run]
      have h1 : ¬ ((sum + ck.toNat) % 256 ≠ 0) := by simpa using hck
      have h2 : ¬ (csize ≠ (buf.length : Int)) := by simpa using hsz
      simp [h1, h2, Proc.run]
  | cons c cs ih =>
    intro fuel buf sum ck rest h tr hwf hf hck hsz
    cases fuel with
    | zero => simp at hf
    | succ f =>
      have hc := hwf c (by simp)
      have hl : (UInt8.ofNat (c.length % 256)) ≠ 0 := by
        intro e
        have := congrArg UInt8.toNat e
        simp at this
        omega
      have hln : (UInt8.ofNat (c.length % 256)).toNat = c.length := by simp; omega
      simp only [List.map_cons, List.flatten_cons, blockOf, List.cons_append, List.nil_append, List.append_assoc,
        readBlocks, Proc.run, if_true]
      simp only [hl, if_false, hln]
      rw [run_bind, run_readN hstep c [] _ h tr]
      simp only [List.reverse_nil, List.nil_append]
      have := ih f (buf ++ c) ((sum + dataSum c) % 256) ck rest h tr (fun x hx => hwf x (by simp [hx]))
        (by simp at hf; omega)
        (by
          simp only [List.flatten_cons, dataSum_append] at hck
          omega)
        (by simpa [List.append_assoc] using hsz)
      simp only [List.append_assoc] at this
      rw [this]

theorem chunksOf_spec (m : Nat) (hm : 1 ≤ m) : ∀ (fuel : Nat) (d : Bytes), d.length < fuel →
    (chunksOf m fuel d).flatten = d ∧ (∀ c ∈ chunksOf m fuel d, 1 ≤ c.length ∧ c.length ≤ m) ∧
    (chunksOf m fuel d).length ≤ d.length := by
  intro fuel
  induction fuel with
  | zero => intro d h; omega
  | succ f ih =>
    intro d hd
    unfold chunksOf
    by_cases he : d.isEmpty = true
    · have : d = [] := by simpa using he
      subst this; simp
    · have hne : d ≠ [] := by simpa using he
      have hpos : 0 < d.length := List.length_pos_iff.mpr hne
      simp only [he]
      have hrec := ih (d.drop m) (by simp; omega)
      refine ⟨?_, ?_, ?_⟩
      · simp [hrec.1]
      · intro c hc
        simp only [Bool.false_eq_true, if_false, List.mem_cons] at hc
        rcases hc with rfl | hc
        · simp; omega
        · exact hrec.2.1 c hc
      · simp only [Bool.false_eq_true, if_false, List.length_cons]
        have := hrec.2.2
        simp at this
        omega

/-- **Frame round trip.** For every payload `d`, every Q-encoded title without NUL that fits the
one-byte header length, and every block size `m` in 1..255: `readCompressed` run on exactly the bytes
`writeCompressed` emits (header, STX blocks, EOT trailer) returns `d` and consumes exactly the frame. -/
theorem frame_roundtrip (m : Nat) (hm1 : 1 ≤ m) (hm2 : m ≤ 255) (qtitle d rest : Bytes)
    (hq : (0 : UInt8) ∉ qtitle) (hlen : qtitle.length + 3 < 256)
    (p : Proposal) (hoff : p.offset = 0) (hcs : p.csize = (d.length : Int))
    (fuel : Nat) (hfuel : qtitle.length + d.length + 4 < fuel) (h : H) (tr : List Ev) :
    Proc.run hstep (readCompressed fuel p)
        (frameHeader qtitle 0 ++ (frameBlocks m d).flatten ++ frameTrailer d ++ rest) h tr =
      (.done (.ok d), rest, h, tr) := by
  have hdec : Fmt.decInt 0 = [48] := by decide
  have hch := chunksOf_spec m hm1 (d.length + 1) d (by omega)
  unfold readCompressed
  simp only [frameHeader, hdec, List.cons_append, List.nil_append, List.append_assoc, Proc.run]
  have h1 : ¬ ((1 : UInt8) = 42) := by decide
  have h2 : ¬ ((1 : UInt8) ≠ 1) := by decide
  simp only [h1, if_false, h2, Proc.run, bind_eq, pure_eq]
  rw [run_bind, run_readString hstep 0 qtitle fuel [] _ h tr hq (by omega)]
  simp only [List.reverse_nil, List.nil_append, Bool.false_eq_true, if_false]
  have e2 := run_readString hstep 0 [48] fuel [] ((frameBlocks m d).flatten ++ (frameTrailer d ++ rest)) h tr
    (by decide) (by simp; omega)
  simp only [List.cons_append, List.nil_append] at e2
  rw [run_bind, e2]
  simp only [List.reverse_nil, List.nil_append, Bool.false_eq_true, if_false]
  rw [stripDelimC_eq _ (by simp), stripDelimC_eq _ (by simp)]
  have hat : atoi [48] = (0, false) := by decide
  have h253 : ¬ 253 ≤ qtitle.length := by omega
  -- the blocks
  have hfb : (frameBlocks m d) = (chunksOf m (d.length + 1) d).map blockOf := by
    simp [frameBlocks, blockOf]
  have htr : frameTrailer d ++ rest = 4 :: UInt8.ofNat (negMod256 (dataSum d)) :: rest := by simp [frameTrailer]
  rw [hfb, htr]
  have := run_readBlocks hstep p.csize (chunksOf m (d.length + 1) d) fuel [] 0
    (UInt8.ofNat (negMod256 (dataSum d))) rest h tr
    (fun c hc => ⟨(hch.2.1 c hc).1, by have := (hch.2.1 c hc).2; omega⟩)
    (by have := hch.2.2; omega)
    (by
      rw [hch.1]
      simp only [negMod256, Nat.zero_add, UInt8.toNat_ofNat']
      omega)
    (by rw [hch.1, hcs]; simp)
  rw [hch.1] at this
  simp [hat, h253, hoff, this]

end Wl2k.B2F
