import Wl2kVerif.Ardop.Loop
/-
Helper lemmas for Props/C14.lean (core only).
-/
namespace Wl2k.Ardop
open Wl2k.Str

/-! ### GF(2) arithmetic on `Nat` -/

theorem nat_eq_halves (a b : Nat) : a = b ↔ a / 2 = b / 2 ∧ a % 2 = b % 2 := by omega

theorem xor_mod2 (a b : Nat) : (a ^^^ b) % 2 = (a % 2 + b % 2) % 2 := by
  have h := @Nat.xor_mod_two_eq_one a b
  rcases Nat.mod_two_eq_zero_or_one a with ha | ha <;>
  rcases Nat.mod_two_eq_zero_or_one b with hb | hb <;>
  rcases Nat.mod_two_eq_zero_or_one (a ^^^ b) with hx | hx <;>
  rw [ha, hb, hx] at h <;> simp at h <;> omega

/-- `2(a ⊕ b) + d = 2a ⊕ (2b + d)` for a bit `d`. -/
theorem two_mul_xor_add (a b d : Nat) (hd : d < 2) : 2 * (a ^^^ b) + d = (2 * a) ^^^ (2 * b + d) := by
  rw [nat_eq_halves]
  constructor
  · rw [Nat.xor_div_two]
    have h1 : (2 * (a ^^^ b) + d) / 2 = a ^^^ b := by omega
    have h2 : 2 * a / 2 = a := by omega
    have h3 : (2 * b + d) / 2 = b := by omega
    rw [h1, h2, h3]
  · rw [xor_mod2]; omega

theorem two_pow_xor (n : Nat) : ∀ x, x < 2 ^ n → 2 ^ n ^^^ x = 2 ^ n + x := by
  induction n with
  | zero => intro x h; have : x = 0 := by simpa using h
            subst this; rfl
  | succ n ih =>
    intro x h
    rw [nat_eq_halves]
    have hp : 2 ^ (n + 1) = 2 * 2 ^ n := by rw [Nat.pow_succ]; omega
    constructor
    · rw [Nat.xor_div_two]
      have h1 : 2 ^ (n + 1) / 2 = 2 ^ n := by omega
      have h2 : (2 ^ (n + 1) + x) / 2 = 2 ^ n + x / 2 := by omega
      rw [h1, h2]
      exact ih (x / 2) (by omega)
    · rw [xor_mod2]; omega

theorem xor_pow16 (x : Nat) (h : x < 65536) : 65536 ^^^ x = 65536 + x := two_pow_xor 16 x h

theorem xor_lt16 {x y : Nat} (hx : x < 65536) (hy : y < 65536) : x ^^^ y < 65536 :=
  @Nat.xor_lt_two_pow x y 16 hx hy

/-! ### The shift register -/

theorem bool_toNat_lt (d : Bool) : d.toNat < 2 := by cases d <;> decide

theorem crcBit_lt {poly s : Nat} (d : Bool) (hp : poly < 65536) (hs : s < 65536) : crcBit poly s d < 65536 := by
  unfold crcBit
  have hd := bool_toNat_lt d
  have ht : 2 * s % 65536 + d.toNat < 65536 := by omega
  simp only
  split
  · exact xor_lt16 ht hp
  · exact ht

theorem crcBits_lt {poly : Nat} (hp : poly < 65536) (bits : List Bool) :
    ∀ s, s < 65536 → crcBits poly s bits < 65536 := by
  induction bits with
  | nil => intro s hs; exact hs
  | cons b t ih => intro s hs; exact ih _ (crcBit_lt b hp hs)

/-- One division step: if `m = q·G ⊕ s` then `2m + d = q'·G ⊕ crcBit s d` with `q'` = `q` extended by one
coefficient (1 exactly when the register's top bit was set). -/
theorem crcBit_step {poly : Nat} (hp : poly < 65536) (P s : Nat) (_hs : s < 65536) (d : Bool) :
    2 * (P ^^^ s) + d.toNat =
      (2 * P ^^^ (if 32768 ≤ s then generator poly else 0)) ^^^ crcBit poly s d := by
  have hd := bool_toNat_lt d
  rw [two_mul_xor_add _ _ _ hd]
  unfold crcBit generator
  simp only
  split
  · rename_i h
    have hy : 2 * s % 65536 + d.toNat < 65536 := by omega
    have e1 : 2 * s + d.toNat = 65536 + (2 * s % 65536 + d.toNat) := by omega
    rw [e1, ← xor_pow16 _ hy, ← xor_pow16 _ hp]
    generalize 2 * s % 65536 + d.toNat = y
    -- 2P ⊕ (65536 ⊕ y) = (2P ⊕ (65536 ⊕ poly)) ⊕ (y ⊕ poly)
    rw [Nat.xor_assoc (2 * P), Nat.xor_assoc 65536 poly, ← Nat.xor_assoc poly y poly,
        Nat.xor_comm poly y, Nat.xor_assoc y poly poly, Nat.xor_self, Nat.xor_zero]
  · rename_i h
    have e1 : 2 * s % 65536 = 2 * s := by omega
    rw [e1, Nat.xor_zero]

theorem polyMul_snoc (qs : List Bool) (b : Bool) (g : Nat) :
    polyMul (qs ++ [b]) g = 2 * polyMul qs g ^^^ (if b then g else 0) := by
  simp [polyMul, List.foldl_append]

theorem valFrom_cons (a : Nat) (b : Bool) (t : List Bool) : valFrom a (b :: t) = valFrom (2 * a + b.toNat) t := rfl

/-- The register after any bit string is the remainder: invariant of the division. -/
theorem crcBits_spec {poly : Nat} (hp : poly < 65536) (bits : List Bool) :
    ∀ (qs : List Bool) (s : Nat), s < 65536 →
      ∃ qs', valFrom (polyMul qs (generator poly) ^^^ s) bits
        = polyMul qs' (generator poly) ^^^ crcBits poly s bits := by
  induction bits with
  | nil => intro qs s _; exact ⟨qs, rfl⟩
  | cons b t ih =>
    intro qs s hs
    rw [valFrom_cons, crcBit_step hp _ s hs b]
    have := ih (qs ++ [decide (32768 ≤ s)]) (crcBit poly s b) (crcBit_lt b hp hs)
    rw [polyMul_snoc] at this
    simp only [decide_eq_true_eq] at this
    exact this

/-! ### Framing -/

theorem getBe16_be16 (n : Nat) (h : n < 65536) :
    getBe16 (UInt8.ofNat (n / 256)) (UInt8.ofNat (n % 256)) = n := by
  simp [getBe16]
  omega

theorem poly_lt : Gen.ardopPolynomial < 65536 := by decide

theorem crc16Sum_lt (d : Bytes) : crc16Sum d < 65536 :=
  crcBits_lt poly_lt _ _ (by decide)

theorem splitAtCR_append (s rest : Bytes) (h : (13 : UInt8) ∉ s) :
    splitAtCR (s ++ 13 :: rest) = some (s, rest) := by
  induction s with
  | nil => simp [splitAtCR]
  | cons b t ih =>
    have hb : b ≠ 13 := fun e => h (by simp [e])
    have ht : (13 : UInt8) ∉ t := fun e => h (by simp [e])
    simp [splitAtCR, hb, ih ht]

theorem checkCrc_ok (tcp : Bool) (data rest : Bytes) (k : Bytes → ReadRes) :
    checkCrc tcp data ((if tcp then [] else be16 (crc16Sum data)) ++ rest) k = k rest := by
  cases tcp
  · simp [checkCrc, be16, getBe16_be16 _ (crc16Sum_lt data)]
  · simp [checkCrc]

theorem goSlice_init (t : Bytes) : goSlice (t ++ [13]) 0 ((t ++ [13]).length - 1) = some t := by
  simp [goSlice]

theorem readC_ok (tcp : Bool) (text rest : Bytes) (h : (13 : UInt8) ∉ text) :
    readC tcp (text ++ 13 :: ((if tcp then [] else be16 (crc16Sum (text ++ [13]))) ++ rest)) = .ok (.cmd text) rest := by
  unfold readC
  rw [splitAtCR_append _ _ h]
  simp only
  rw [checkCrc_ok, goSlice_init]

theorem host_reads_tnc_ctrl (tcp : Bool) (text rest : Bytes) (h : (13 : UInt8) ∉ text) :
    readFrame tcp (startType tcp false) (tncCtrl tcp text ++ rest) = .ok (.cmd text) rest := by
  cases tcp
  · have := readC_ok false text rest h
    simp only [Bool.false_eq_true, if_false] at this
    simp [readFrame, startType, tncCtrl, readStar, dispatch, this]
  · have := readC_ok true text rest h
    simp only [if_true, List.nil_append] at this
    simp [readFrame, startType, tncCtrl, dispatch, this]

theorem readD_ok (tcp : Bool) (typ p rest : Bytes) (ht : typ.length = 3) (hl : typ.length + p.length ≤ 65535) :
    readD tcp (be16 (typ.length + p.length) ++ (typ ++ p) ++
      ((if tcp then [] else be16 (crc16Sum (be16 (typ.length + p.length) ++ (typ ++ p)))) ++ rest))
      = .ok (.data typ p) rest := by
  generalize hn : typ.length + p.length = n at *
  have hbody : (be16 n ++ (typ ++ p)).length = n + 2 := by simp [be16, ← hn]
  unfold readD
  simp only [be16, List.cons_append, List.nil_append]
  have hg := getBe16_be16 n (by omega)
  simp only [hg]
  have e : (UInt8.ofNat (n / 256) :: UInt8.ofNat (n % 256) :: (typ ++ p ++ ((if tcp = true then [] else [UInt8.ofNat (crc16Sum (UInt8.ofNat (n / 256) :: UInt8.ofNat (n % 256) :: (typ ++ p)) / 256), UInt8.ofNat (crc16Sum (UInt8.ofNat (n / 256) :: UInt8.ofNat (n % 256) :: (typ ++ p)) % 256)]) ++ rest)))
      = (be16 n ++ (typ ++ p)) ++ ((if tcp then [] else be16 (crc16Sum (be16 n ++ (typ ++ p)))) ++ rest) := by
    simp [be16]
  rw [e]
  have hlen : ¬ ((be16 n ++ (typ ++ p)) ++ ((if tcp then [] else be16 (crc16Sum (be16 n ++ (typ ++ p)))) ++ rest)).length < n + 2 := by
    rw [List.length_append, hbody]; omega
  rw [if_neg hlen]
  have htake : ((be16 n ++ (typ ++ p)) ++ ((if tcp then [] else be16 (crc16Sum (be16 n ++ (typ ++ p)))) ++ rest)).take (n + 2) = be16 n ++ (typ ++ p) := by
    rw [← hbody]; exact List.take_left
  have hdrop : ((be16 n ++ (typ ++ p)) ++ ((if tcp then [] else be16 (crc16Sum (be16 n ++ (typ ++ p)))) ++ rest)).drop (n + 2) = (if tcp then [] else be16 (crc16Sum (be16 n ++ (typ ++ p)))) ++ rest := by
    rw [← hbody]; exact List.drop_left
  simp only [htake, hdrop]
  rw [checkCrc_ok]
  have h5 : ¬ (be16 n ++ (typ ++ p)).length < 5 := by rw [hbody]; omega
  rw [if_neg h5]
  have s1 : goSlice (be16 n ++ (typ ++ p)) 2 5 = some typ := by
    have : 2 ≤ 5 ∧ 5 ≤ (be16 n ++ (typ ++ p)).length := ⟨by omega, by rw [hbody]; omega⟩
    simp only [goSlice, this, and_self, if_true]
    simp [be16, ← ht]
  have s2 : goSlice (be16 n ++ (typ ++ p)) 5 (be16 n ++ (typ ++ p)).length = some p := by
    have : 5 ≤ (be16 n ++ (typ ++ p)).length ∧ (be16 n ++ (typ ++ p)).length ≤ (be16 n ++ (typ ++ p)).length := ⟨by rw [hbody]; omega, Nat.le_refl _⟩
    simp only [goSlice, this, and_self, if_true, List.take_length]
    have : be16 n ++ (typ ++ p) = (be16 n ++ typ) ++ p := by simp
    rw [this]
    have h5' : (be16 n ++ typ).length = 5 := by simp [be16, ht]
    rw [← h5']; simp
  rw [s1, s2]


theorem host_reads_tnc_data (tcp : Bool) (typ p rest : Bytes) (ht : typ.length = 3)
    (hl : typ.length + p.length ≤ 65535) :
    readFrame tcp (startType tcp true) (tncData tcp typ p ++ rest) = .ok (.data typ p) rest := by
  have := readD_ok tcp typ p rest ht hl
  cases tcp
  · simp only [Bool.false_eq_true, if_false] at this
    simp only [readFrame, startType, tncData, Bool.false_eq_true, if_false, if_true, List.cons_append, List.nil_append, readStar]
    simp only [show ((100 : UInt8) = 42) = False by decide, if_false, dispatch, show ((100 : UInt8) = 99) = False by decide, if_true]
    simpa [List.append_assoc] using this
  · simp only [if_true, List.nil_append] at this
    simp only [readFrame, startType, tncData, if_true, dispatch]
    simp only [show ((100 : UInt8) = 42) = False by decide, if_false, show ((100 : UInt8) = 99) = False by decide]
    simpa [List.append_assoc] using this

/-! TNC side reading host frames -/

theorem tncCrc_ok (tcp : Bool) (body rest : Bytes) :
    tncCrc tcp body ((if tcp then [] else be16 (crc16Sum body)) ++ rest) = some rest := by
  cases tcp
  · simp [tncCrc, be16, getBe16_be16 _ (crc16Sum_lt body)]
  · simp [tncCrc]

theorem tnc_reads_host_ctrl (tcp : Bool) (str rest : Bytes) (h : (13 : UInt8) ∉ str) :
    tncRead tcp false (encCtrl tcp str ++ rest) = some (.cmd str, rest) := by
  have hb : tncReadBody tcp false (str ++ 13 :: ((if tcp then [] else be16 (crc16Sum (str ++ [13]))) ++ rest))
      = some (.cmd str, rest) := by
    simp only [tncReadBody, Bool.false_eq_true, if_false]
    rw [splitAtCR_append _ _ h]
    simp only
    rw [tncCrc_ok]
  cases tcp
  · simp only [Bool.false_eq_true, if_false] at hb
    simp [tncRead, encCtrl, hb]
  · simp only [if_true, List.nil_append] at hb
    simp [tncRead, encCtrl, hb]

theorem tnc_reads_host_data (tcp : Bool) (p rest : Bytes) (hl : p.length ≤ 65535) :
    tncRead tcp true (encData tcp p ++ rest) = some (.data p, rest) := by
  have hg := getBe16_be16 p.length (by omega)
  have hb : tncReadBody tcp true (be16 p.length ++ p ++ ((if tcp then [] else be16 (crc16Sum (be16 p.length ++ p))) ++ rest))
      = some (.data p, rest) := by
    simp only [tncReadBody, if_true, be16, List.cons_append, List.nil_append, hg]
    have hlen : ¬ (p ++ ((if tcp = true then [] else [UInt8.ofNat (crc16Sum (UInt8.ofNat (p.length / 256) :: UInt8.ofNat (p.length % 256) :: p) / 256), UInt8.ofNat (crc16Sum (UInt8.ofNat (p.length / 256) :: UInt8.ofNat (p.length % 256) :: p) % 256)]) ++ rest)).length < p.length := by
      rw [List.length_append]; omega
    rw [if_neg hlen, List.take_left, List.drop_left]
    have := tncCrc_ok tcp (be16 p.length ++ p) rest
    simp only [be16, List.cons_append, List.nil_append] at this
    rw [this]
  cases tcp
  · simp only [Bool.false_eq_true, if_false] at hb
    simp only [tncRead, encData, Bool.false_eq_true, if_false, List.cons_append, List.nil_append]
    simp only [show ((68 : UInt8) = 67) = False by decide, and_false, if_false, and_self, if_true]
    simpa [List.append_assoc] using hb
  · simp only [if_true, List.nil_append] at hb
    simp only [tncRead, encData, if_true]
    simpa [List.append_assoc] using hb

/-! ### The frame reader never panics -/

theorem checkCrc_ne_panic (tcp : Bool) (data rest : Bytes) (k : Bytes → ReadRes)
    (hk : ∀ r, k r ≠ .panic) : checkCrc tcp data rest k ≠ .panic := by
  unfold checkCrc
  split
  · exact hk _
  · split
    · simp
    · simp
    · split
      · exact hk _
      · simp

theorem readC_ne_panic (tcp : Bool) (s : Bytes) : readC tcp s ≠ .panic := by
  unfold readC
  split
  · simp
  · apply checkCrc_ne_panic
    intro r
    rw [goSlice_init]
    simp

theorem readD_ne_panic (tcp : Bool) (s : Bytes) : readD tcp s ≠ .panic := by
  unfold readD
  split
  · simp only
    split
    · simp
    · apply checkCrc_ne_panic
      intro r
      split
      · simp
      · rename_i h5
        generalize List.take _ _ = data at h5
        have h5' : 5 ≤ data.length := by omega
        have e1 : goSlice data 2 5 = some ((data.take 5).drop 2) := by simp [goSlice, h5']
        have e2 : goSlice data 5 data.length = some ((data.take data.length).drop 5) := by simp [goSlice, h5']
        rw [e1, e2]; simp
  · simp

theorem dispatch_ne_panic (tcp : Bool) (ft : UInt8) (s : Bytes) : dispatch tcp ft s ≠ .panic := by
  unfold dispatch
  split
  · exact readC_ne_panic _ _
  · split
    · exact readD_ne_panic _ _
    · simp

theorem readStar_ne_panic (tcp : Bool) (s : Bytes) : readStar tcp s ≠ .panic := by
  fun_induction readStar tcp s
  all_goals first | exact dispatch_ne_panic _ _ _ | assumption | simp

theorem readFrame_ne_panic (tcp : Bool) (ft : UInt8) (s : Bytes) : readFrame tcp ft s ≠ .panic := by
  unfold readFrame
  split
  · exact readStar_ne_panic _ _
  · exact dispatch_ne_panic _ _ _

theorem decodeStream_no_panic (tcp : Bool) (ft : UInt8) (n : Nat) :
    ∀ s, Tok.panic ∉ decodeStream tcp ft n s := by
  induction n with
  | zero => intro s; simp [decodeStream]
  | succ n ih =>
    intro s
    unfold decodeStream
    have := readFrame_ne_panic tcp ft s
    split
    · simp [ih]
    · simp [ih]
    · simp
    · rename_i h; exact absurd h this

/-! ### parseCtrlMsg never panics -/

theorem splitN2_ne_nil (s : Bytes) : splitN2 s ≠ [] := by
  cases s with
  | nil => simp [splitN2]
  | cons b t =>
    unfold splitN2
    split
    · simp
    · split <;> simp

theorem partsOf_length (str : Bytes) : 2 ≤ (partsOf str).length := by
  unfold partsOf
  simp only
  have := splitN2_ne_nil (trimSpace str)
  cases h : splitN2 (trimSpace str) with
  | nil => exact absurd h this
  | cons h t =>
    simp only
    split
    · simp
    · simp at *; omega

/-- Regenerated fact: every clause kind of the current `switch msg.cmd` is one the model knows. -/
theorem kinds_known : ∀ c ∈ Gen.ardopParseCases, c.1 ≤ 6 := by decide

theorem kindOf_le {cmd : Bytes} {k : Nat} (h : kindOf cmd = some k) : k ≤ 6 := by
  unfold kindOf at h
  cases hf : Gen.ardopParseCases.find? (fun c => c.2.contains cmd) with
  | none => rw [hf] at h; simp at h
  | some c =>
    rw [hf] at h
    simp only [Option.map_some, Option.some.injEq] at h
    subst h
    exact kinds_known c (List.mem_of_find?_eq_some hf)

theorem valueOf_some (k : Nat) (hk : k ≤ 6) (p : Bytes) : ∃ v, valueOf k (some p) = some v := by
  unfold valueOf
  have : k = 0 ∨ k = 1 ∨ k = 2 ∨ k = 3 ∨ k = 4 ∨ k = 5 ∨ k = 6 := by omega
  rcases this with h | h | h | h | h | h | h <;> subst h <;> simp

/-- What a successful parse looks like. -/
theorem parse_shape (str : Bytes) :
    ∃ cmd p, (kindOf cmd = none ∧ parseCtrlMsg str = .ok ⟨cmd, .none⟩) ∨
      (∃ k v, kindOf cmd = some k ∧ valueOf k (some p) = some v ∧ parseCtrlMsg str = .ok ⟨cmd, v⟩) := by
  have hl := partsOf_length str
  unfold parseCtrlMsg
  simp only
  generalize partsOf str = parts at *
  match parts, hl with
  | cmd :: p :: rest, _ =>
    simp only [List.getElem?_cons_zero, List.getElem?_cons_succ]
    cases hk : kindOf cmd with
    | none => exact ⟨cmd, [], Or.inl ⟨hk, rfl⟩⟩
    | some k =>
      by_cases hp : hasPrefix (toLower p) nowPrefix = true
      · obtain ⟨v, hv⟩ := valueOf_some k (kindOf_le hk) (p.drop 4)
        exact ⟨cmd, p.drop 4, Or.inr ⟨k, v, hk, hv, by simp [hp, hv]⟩⟩
      · obtain ⟨v, hv⟩ := valueOf_some k (kindOf_le hk) p
        exact ⟨cmd, p, Or.inr ⟨k, v, hk, hv, by simp [hp, hv]⟩⟩

theorem parseCtrlMsg_ne_panic (str : Bytes) : parseCtrlMsg str ≠ .panic := by
  obtain ⟨cmd, p, h | ⟨k, v, _, _, h⟩⟩ := parse_shape str <;> simp [h]

/-! ### The control loop never panics -/

/-- Regenerated facts: the clauses the control loop's own `switch` relies on for its type assertions. -/
theorem kind_ptt : kindOf Gen.ardop_cmdPTT = some 1 := by decide
theorem kind_busy : kindOf Gen.ardop_cmdBusy = some 1 := by decide
theorem kind_buffer : kindOf Gen.ardop_cmdBuffer = some 6 := by decide
theorem kind_newstate : kindOf Gen.ardop_cmdNewState = some 2 := by decide

theorem handleMsg_parsed (st : LoopState) (str : Bytes) (m : CtrlMsg) (h : parseCtrlMsg str = .ok m) :
    ∃ r, handleMsg st m = some r := by
  obtain ⟨cmd, p, ⟨hk, hp⟩ | ⟨k, v, hk, hv, hp⟩⟩ := parse_shape str
  · rw [hp] at h; cases h
    unfold handleMsg
    simp only
    have h1 : cmd ≠ Gen.ardop_cmdPTT := fun e => by rw [e, kind_ptt] at hk; cases hk
    have h2 : cmd ≠ Gen.ardop_cmdBuffer := fun e => by rw [e, kind_buffer] at hk; cases hk
    have h3 : cmd ≠ Gen.ardop_cmdNewState := fun e => by rw [e, kind_newstate] at hk; cases hk
    have h4 : cmd ≠ Gen.ardop_cmdBusy := fun e => by rw [e, kind_busy] at hk; cases hk
    simp only [h1, h2, h3, h4, if_false]
    split <;> simp
  · rw [hp] at h; cases h
    unfold handleMsg
    simp only
    by_cases h1 : cmd = Gen.ardop_cmdPTT
    · subst h1; rw [kind_ptt] at hk; cases hk
      simp [valueOf] at hv; subst hv
      simp only [if_true]; split <;> simp
    · simp only [h1, if_false]
      split
      · simp
      · by_cases h2 : cmd = Gen.ardop_cmdBuffer
        · subst h2; rw [kind_buffer] at hk; cases hk
          simp [valueOf] at hv; subst hv
          simp only [if_true]; split <;> simp
        · simp only [h2, if_false]
          by_cases h3 : cmd = Gen.ardop_cmdNewState
          · subst h3; rw [kind_newstate] at hk; cases hk
            simp [valueOf] at hv; subst hv
            simp only [if_true]; split <;> simp
          · simp only [h3, if_false]
            by_cases h4 : cmd = Gen.ardop_cmdBusy
            · subst h4; rw [kind_busy] at hk; cases hk
              simp [valueOf] at hv; subst hv
              simp
            · simp [h4]

theorem doEof_effects (st : LoopState) : ∀ e ∈ (doEof st).2, e = .eof := by
  unfold doEof; split <;> simp

theorem handleMsg_effects (st : LoopState) (m : CtrlMsg) (r : LoopState × List Effect)
    (h : handleMsg st m = some r) : ∀ e ∈ r.2, (∃ b, e = .ptt b) ∨ e = .eof := by
  unfold handleMsg at h
  intro e he
  split at h
  · split at h
    · split at h
      · cases h; simp at he; exact Or.inl ⟨_, he⟩
      · cases h
    · cases h; simp at he
  · split at h
    · cases h; exact Or.inr (doEof_effects _ e he)
    · split at h
      · split at h
        · split at h <;> cases h <;> simp at he
        · cases h
      · split at h
        · split at h
          · split at h
            · cases h; exact Or.inr (doEof_effects _ e he)
            · cases h; simp at he
          · cases h
        · split at h
          · split at h
            · cases h; simp at he
            · cases h
          · cases h; simp at he

theorem step_no_panic (st : LoopState) (it : Item) : Effect.panic ∉ (step st it).2 := by
  cases it with
  | connect => simp [step]
  | writeAck => simp [step]
  | frame f =>
    cases f with
    | data typ p =>
      simp only [step]
      split
      · split <;> simp
      · simp
    | cmd line =>
      cases hp : parseCtrlMsg line with
      | panic => exact absurd hp (parseCtrlMsg_ne_panic line)
      | ok m =>
        obtain ⟨r, hr⟩ := handleMsg_parsed st line m hp
        simp only [step, hp, hr]
        intro hmem
        simp only [List.mem_append, List.mem_singleton] at hmem
        rcases hmem with hmem | hmem
        · rcases handleMsg_effects st m r hr _ hmem with ⟨b, hb⟩ | hb <;> cases hb
        · cases hmem

theorem run_no_panic (its : List Item) : ∀ st, Effect.panic ∉ (run st its).2 := by
  induction its with
  | nil => intro st; simp [run]
  | cons it its ih =>
    intro st
    simp only [run, List.mem_append]
    intro h
    rcases h with h | h
    · exact step_no_panic st it h
    · exact ih _ h

/-! ### PTT requests in arrival order -/

theorem doEof_fields (st : LoopState) : (doEof st).1.pttSet = st.pttSet := by
  unfold doEof; split <;> simp

/-- `handleMsg` on a PTT message. -/
theorem handleMsg_ptt (st : LoopState) (m : CtrlMsg) (hc : m.cmd = Gen.ardop_cmdPTT) (hs : st.pttSet = true)
    (r : LoopState × List Effect) (h : handleMsg st m = some r) :
    ∃ b, m.value = .bool b ∧ r = (st, [.ptt b]) := by
  unfold handleMsg at h
  simp only [hc, hs, if_true] at h
  split at h
  · cases h; exact ⟨_, by assumption, rfl⟩
  · cases h

/-- `handleMsg` on any other message: no PTT call, `pttSet` untouched. -/
theorem handleMsg_other (st : LoopState) (m : CtrlMsg) (hc : m.cmd ≠ Gen.ardop_cmdPTT)
    (r : LoopState × List Effect) (h : handleMsg st m = some r) :
    r.1.pttSet = st.pttSet ∧ ∀ e ∈ r.2, e = .eof := by
  unfold handleMsg at h
  simp only [hc, if_false] at h
  split at h
  · cases h; exact ⟨doEof_fields _, doEof_effects _⟩
  · split at h
    · split at h
      · split at h <;> cases h <;> simp
      · cases h
    · split at h
      · split at h
        · split at h
          · cases h; exact ⟨doEof_fields _, doEof_effects _⟩
          · cases h; simp
        · cases h
      · split at h
        · split at h
          · cases h; simp
          · cases h
        · cases h; simp

theorem pttCalls_append (a b : List Effect) : pttCalls (a ++ b) = pttCalls a ++ pttCalls b := by
  simp [pttCalls, List.filterMap_append]

theorem pttCalls_eofs (es : List Effect) (h : ∀ e ∈ es, e = .eof) : pttCalls es = [] := by
  induction es with
  | nil => rfl
  | cons e t ih =>
    have := h e (by simp); subst this
    simp only [pttCalls, List.filterMap_cons]
    exact ih (fun e he => h e (by simp [he]))

theorem step_ptt (st : LoopState) (hs : st.pttSet = true) (it : Item) :
    (step st it).1.pttSet = true ∧ pttCalls (step st it).2 = (pttOf it).toList := by
  cases it with
  | connect => simp [step, hs, pttCalls, pttOf]
  | writeAck => simp [step, hs, pttCalls, pttOf]
  | frame f =>
    cases f with
    | data typ p =>
      simp only [step, pttOf]
      split
      · split <;> simp [hs, pttCalls]
      · simp [hs, pttCalls]
    | cmd line =>
      cases hp : parseCtrlMsg line with
      | panic => exact absurd hp (parseCtrlMsg_ne_panic line)
      | ok m =>
        obtain ⟨r, hr⟩ := handleMsg_parsed st line m hp
        simp only [step, hp, hr, pttOf]
        by_cases hc : m.cmd = Gen.ardop_cmdPTT
        · obtain ⟨b, hv, hr'⟩ := handleMsg_ptt st m hc hs r hr
          subst hr'
          simp [hc, hv, hs, pttCalls]
        · obtain ⟨h1, h2⟩ := handleMsg_other st m hc r hr
          simp only [hc, if_false, Option.toList]
          rw [pttCalls_append, pttCalls_eofs _ h2]
          exact ⟨by rw [h1, hs], by simp [pttCalls]⟩

theorem run_ptt (its : List Item) : ∀ st : LoopState, st.pttSet = true →
    pttCalls (run st its).2 = its.filterMap pttOf := by
  induction its with
  | nil => intro st _; simp [run, pttCalls]
  | cons it its ih =>
    intro st hs
    obtain ⟨h1, h2⟩ := step_ptt st hs it
    simp only [run, pttCalls_append, h2, ih _ h1, List.filterMap_cons]
    cases hq : pttOf it <;> simp

/-! ### ARQ payloads in arrival order -/

/-- The message ends the connection. -/
def endsMsg (m : CtrlMsg) : Prop :=
  m.cmd = Gen.ardop_cmdDisconnected ∨
    (m.cmd = Gen.ardop_cmdNewState ∧ m.value = .state Gen.ardopStateDisconnected)

theorem handleMsg_connected (st : LoopState) (m : CtrlMsg) (hn : ¬ endsMsg m)
    (r : LoopState × List Effect) (h : handleMsg st m = some r) :
    r.1.connected = st.connected := by
  unfold endsMsg at hn
  unfold handleMsg at h
  split at h
  · split at h
    · split at h
      · cases h; rfl
      · cases h
    · cases h; rfl
  · split at h
    · rename_i hd; exact absurd (Or.inl hd) hn
    · split at h
      · split at h
        · split at h <;> cases h <;> rfl
        · cases h
      · split at h
        · rename_i hns
          split at h
          · rename_i s hv
            split at h
            · rename_i hs; exact absurd (Or.inr ⟨hns, by rw [hv, hs]⟩) hn
            · cases h; rfl
          · cases h
        · split at h
          · split at h
            · cases h; rfl
            · cases h
          · cases h; rfl

theorem pushes_append (a b : List Effect) : pushes (a ++ b) = pushes a ++ pushes b := by
  simp [pushes, List.filterMap_append]

theorem pushes_ctrl (es : List Effect) (h : ∀ e ∈ es, (∃ b, e = .ptt b) ∨ e = .eof) : pushes es = [] := by
  induction es with
  | nil => rfl
  | cons e t ih =>
    have ht := ih (fun e he => h e (by simp [he]))
    rcases h e (by simp) with ⟨b, hb⟩ | hb <;> subst hb <;> simpa [pushes] using ht

theorem step_arq (st : LoopState) (hc : st.connected = true) (it : Item) (hn : endsConn it = false) :
    (step st it).1.connected = true ∧ pushes (step st it).2 = (arqOf it).toList := by
  cases it with
  | connect => simp [step, pushes, arqOf]
  | writeAck => simp [step, hc, pushes, arqOf]
  | frame f =>
    cases f with
    | data typ p =>
      simp only [step, arqOf, hc, if_true]
      split <;> simp [hc, pushes]
    | cmd line =>
      cases hp : parseCtrlMsg line with
      | panic => exact absurd hp (parseCtrlMsg_ne_panic line)
      | ok m =>
        obtain ⟨r, hr⟩ := handleMsg_parsed st line m hp
        have hne : ¬ endsMsg m := by
          simp only [endsConn, hp, decide_eq_false_iff_not] at hn
          exact hn
        have h1 := handleMsg_connected st m hne r hr
        have h2 := handleMsg_effects st m r hr
        simp only [step, hp, hr, arqOf, Option.toList]
        rw [pushes_append, pushes_ctrl _ h2]
        exact ⟨by rw [h1, hc], by simp [pushes]⟩

theorem run_arq (its : List Item) : ∀ st : LoopState, st.connected = true →
    (∀ it ∈ its, endsConn it = false) → pushes (run st its).2 = its.filterMap arqOf := by
  induction its with
  | nil => intro st _ _; simp [run, pushes]
  | cons it its ih =>
    intro st hc hn
    obtain ⟨h1, h2⟩ := step_arq st hc it (hn it (by simp))
    simp only [run, pushes_append, h2, ih _ h1 (fun i hi => hn i (by simp [hi])), List.filterMap_cons]
    cases hq : arqOf it <;> simp

/-! ### Conn: Read, Write, flush lock, Close -/

/-! Read -/

theorem read_conserves (st : RdState) (n : Nat) :
    (read st n).1.bytes ++ (read st n).2.pending = st.pending := by
  unfold read
  split
  · simp [RdRes.bytes]
  · split
    · simp [RdRes.bytes, RdState.pending, ← List.append_assoc, List.take_append_drop]
    · rename_i hl
      have hl' : st.left = [] := by simpa using hl
      split
      · split <;> simp [RdRes.bytes]
      · rename_i d q hq
        simp [RdRes.bytes, RdState.pending, hl', hq, ← List.append_assoc, List.take_append_drop]

theorem reads_conserves (ns : List Nat) : ∀ st : RdState,
    ((reads st ns).1.flatMap RdRes.bytes) ++ (reads st ns).2.pending = st.pending := by
  induction ns with
  | nil => intro st; simp [reads]
  | cons n ns ih =>
    intro st
    simp only [reads, List.flatMap_cons, List.append_assoc]
    rw [ih, read_conserves]

/-- Work left for a reader: one unit per pending byte and one per queued frame. -/
def RdState.work (st : RdState) : Nat := st.left.length + (st.queue.map (·.length + 1)).sum

theorem read_progress (st : RdState) (n : Nat) (hn : 0 < n) (hw : 0 < st.work) :
    (read st n).2.work < st.work ∧ (read st n).1 ≠ .block ∧ (read st n).1 ≠ .eof := by
  unfold read
  have hn' : n ≠ 0 := by omega
  simp only [hn', if_false]
  split
  · rename_i hl
    have : 0 < st.left.length := List.length_pos_iff.mpr hl
    simp [RdState.work]; omega
  · rename_i hl
    have hl' : st.left = [] := by simpa using hl
    split
    · rename_i hq; simp [RdState.work, hl', hq] at hw
    · rename_i d q hq
      simp [RdState.work, hl', hq]; omega

theorem work_zero_pending (st : RdState) (h : st.work = 0) : st.pending = [] := by
  unfold RdState.work at h
  have h1 : st.left = [] := List.eq_nil_of_length_eq_zero (by omega)
  have h2 : st.queue = [] := by
    cases hq : st.queue with
    | nil => rfl
    | cons d q => simp [hq] at h
  simp [RdState.pending, h1, h2]

theorem reads_drain (ns : List Nat) : ∀ st : RdState, (∀ n ∈ ns, 0 < n) → st.work ≤ ns.length →
    (reads st ns).2.pending = [] := by
  induction ns with
  | nil => intro st _ hw; exact work_zero_pending st (by simpa using hw)
  | cons n ns ih =>
    intro st hpos hw
    simp only [reads]
    by_cases h0 : st.work = 0
    · -- nothing pending: stays so
      have hp := work_zero_pending st h0
      have := reads_conserves (n :: ns) st
      simp only [reads] at this
      rw [hp] at this
      exact (List.append_eq_nil_iff.mp this).2
    · have hp := read_progress st n (hpos n (by simp)) (by omega)
      exact ih _ (fun m hm => hpos m (by simp [hm])) (by simp at hw; omega)

/-! Write -/

theorem writeRun_other (frame : Bytes) (n : Nat) (msgs : List WMsg) : ∀ i sent,
    writeRun frame n i sent msgs = writeRun frame n i sent (msgs.filter (· ≠ .other)) := by
  induction msgs with
  | nil => intro i sent; rfl
  | cons m r ih =>
    intro i sent
    cases m with
    | buffer => simp [writeRun]
    | crcFault => simp only [writeRun, ne_eq, decide_not, List.filter_cons, reduceCtorEq, decide_false, Bool.not_false, if_true]
                  split
                  · rfl
                  · have := ih (i + 1) (sent ++ [frame]); simpa using this
    | other => simp only [writeRun, ne_eq, decide_not, List.filter_cons, decide_true, Bool.not_true, Bool.false_eq_true, if_false]
               have := ih i sent; simpa using this
    | eofSig => simp [writeRun]

theorem writeRun_sent (frame : Bytes) (n : Nat) (msgs : List WMsg) : ∀ i sent,
    (∀ f ∈ sent, f = frame) → ∀ f ∈ (writeRun frame n i sent msgs).sent, f = frame := by
  induction msgs with
  | nil => intro i sent h; simpa [writeRun] using h
  | cons m r ih =>
    intro i sent h
    cases m with
    | buffer => simpa [writeRun] using h
    | eofSig => simpa [writeRun] using h
    | other => simpa [writeRun] using ih i sent h
    | crcFault =>
      simp only [writeRun]
      split
      · simpa using h
      · apply ih
        intro f hf
        rcases List.mem_append.mp hf with hf | hf
        · exact h f hf
        · simpa using hf

/-! Flush lock -/

theorem frun_append (a b : List FEv) : ∀ l, frun l (a ++ b) = (frun l a).bind (fun l' => frun l' b) := by
  induction a with
  | nil => intro l; simp [frun]
  | cons e a ih =>
    intro l
    simp only [List.cons_append, frun]
    cases fstep l e with
    | none => simp
    | some l' => simpa using ih l'

theorem frun_locked_stays (mid : List FEv) (h : FEv.buffer 0 ∉ mid) :
    frun true mid = some true ∨ frun true mid = none := by
  induction mid with
  | nil => left; rfl
  | cons e t ih =>
    have ht : FEv.buffer 0 ∉ t := fun x => h (by simp [x])
    cases e with
    | buffer n =>
      have hn : n ≠ 0 := fun x => h (by simp [x])
      simp only [frun, fstep, hn, if_false]
      exact ih ht
    | writeAck => simp only [frun, fstep]; exact ih ht
    | flushOk => right; simp [frun, fstep]

/-! Close -/

theorem closeWait_nil (msgs : List (Option CtrlMsg)) (h : closeWait msgs = .nil) :
    ∃ m, some m ∈ msgs ∧ endsMsg m := by
  induction msgs with
  | nil => simp [closeWait] at h
  | cons x r ih =>
    cases x with
    | none => simp [closeWait] at h
    | some m =>
      simp only [closeWait] at h
      split at h
      · rename_i he; exact ⟨m, by simp, he⟩
      · obtain ⟨m', hm', he⟩ := ih h
        exact ⟨m', by simp [hm'], he⟩

/-! ### Uniqueness of the GF(2) remainder -/

theorem two_mul_xor (a b : Nat) : 2 * (a ^^^ b) = 2 * a ^^^ 2 * b := by
  have := two_mul_xor_add a b 0 (by omega)
  simpa using this

theorem xor_cancel4 (g A B : Nat) : (A ^^^ g) ^^^ (B ^^^ g) = A ^^^ B := by
  have : (A ^^^ g) ^^^ (B ^^^ g) = (A ^^^ B) ^^^ (g ^^^ g) := by ac_rfl
  rw [this, Nat.xor_self, Nat.xor_zero]

theorem eq_of_xor_eq_zero {a b : Nat} (h : a ^^^ b = 0) : a = b := by
  have : a = (a ^^^ b) ^^^ b := by rw [Nat.xor_assoc, Nat.xor_self, Nat.xor_zero]
  rw [this, h, Nat.zero_xor]

def pmFrom (g : Nat) (a : Nat) (qs : List Bool) : Nat := qs.foldl (fun a b => 2 * a ^^^ (if b then g else 0)) a

theorem polyMul_eq_pmFrom (qs : List Bool) (g : Nat) : polyMul qs g = pmFrom g 0 qs := rfl

theorem pmFrom_zip (g : Nat) (xs : List Bool) : ∀ (ys : List Bool) (a b : Nat), xs.length = ys.length →
    pmFrom g (a ^^^ b) (List.zipWith (· ^^ ·) xs ys) = pmFrom g a xs ^^^ pmFrom g b ys := by
  induction xs with
  | nil => intro ys a b h; cases ys with
    | nil => rfl
    | cons _ _ => simp at h
  | cons x xs ih =>
    intro ys a b h
    cases ys with
    | nil => simp at h
    | cons y ys =>
      simp only [List.zipWith_cons_cons, pmFrom, List.foldl_cons]
      have e : 2 * (a ^^^ b) ^^^ (if (x ^^ y) = true then g else 0)
          = (2 * a ^^^ (if x = true then g else 0)) ^^^ (2 * b ^^^ (if y = true then g else 0)) := by
        rw [two_mul_xor]
        generalize 2 * a = A
        generalize 2 * b = B
        cases x <;> cases y
        · simp
        · simp [Nat.xor_assoc]
        · simp only [Bool.xor_false, if_true, Bool.false_eq_true, if_false, Nat.xor_zero]; ac_rfl
        · simp only [Bool.xor_self, Bool.false_eq_true, if_false, Nat.xor_zero, if_true]
          exact (xor_cancel4 g A B).symm
      rw [e]
      exact ih ys _ _ (by simpa using h)

theorem pmFrom_pad (g : Nat) (k : Nat) (qs : List Bool) : pmFrom g 0 (List.replicate k false ++ qs) = pmFrom g 0 qs := by
  induction k with
  | zero => rfl
  | succ k ih => simpa [List.replicate_succ, pmFrom] using ih

/-- Multiples of `g` are closed under ⊕. -/
theorem polyMul_xor (g : Nat) (xs ys : List Bool) : ∃ zs, polyMul xs g ^^^ polyMul ys g = polyMul zs g := by
  refine ⟨List.zipWith (· ^^ ·) (List.replicate (ys.length - xs.length) false ++ xs)
      (List.replicate (xs.length - ys.length) false ++ ys), ?_⟩
  rw [polyMul_eq_pmFrom, polyMul_eq_pmFrom, polyMul_eq_pmFrom]
  have := pmFrom_zip g (List.replicate (ys.length - xs.length) false ++ xs)
      (List.replicate (xs.length - ys.length) false ++ ys) 0 0 (by simp; omega)
  rw [pmFrom_pad, pmFrom_pad] at this
  simpa using this.symm

theorem xor_ge_of_high {a g : Nat} (ha : 131072 ≤ a) (hg : g < 131072) : 131072 ≤ a ^^^ g := by
  have h1 : (a ^^^ g) >>> 17 = a >>> 17 ^^^ g >>> 17 := Nat.shiftRight_xor_distrib
  simp only [Nat.shiftRight_eq_div_pow] at h1
  have h2 : g / 2 ^ 17 = 0 := Nat.div_eq_of_lt (by simpa using hg)
  rw [h2, Nat.xor_zero] at h1
  have h3 : 1 ≤ a / 2 ^ 17 := by
    have : 2 ^ 17 ≤ a := by simpa using ha
    exact (Nat.le_div_iff_mul_le (by decide)).mpr (by simpa using this)
  have h4 : 1 ≤ (a ^^^ g) / 2 ^ 17 := by rw [h1]; exact h3
  have := (Nat.le_div_iff_mul_le (by decide : 0 < 2 ^ 17)).mp h4
  simpa using this

/-- A multiple of a degree-16 generator is zero or has degree ≥ 16. -/
theorem pmFrom_zero_or_big (g : Nat) (hg1 : 65536 ≤ g) (hg2 : g < 131072) (qs : List Bool) :
    ∀ a, (a = 0 ∨ 65536 ≤ a) → (pmFrom g a qs = 0 ∨ 65536 ≤ pmFrom g a qs) := by
  induction qs with
  | nil => intro a h; exact h
  | cons q qs ih =>
    intro a h
    simp only [pmFrom, List.foldl_cons]
    apply ih
    rcases h with h | h
    · subst h; cases q <;> simp; right; exact hg1
    · cases q
      · right; simp; omega
      · right
        have := xor_ge_of_high (a := 2 * a) (g := g) (by omega) hg2
        simp; omega

/-- If `X ⊕ r = Y ⊕ c` then `X ⊕ Y = r ⊕ c`. -/
theorem xor_swap {X Y r c : Nat} (h : X ^^^ r = Y ^^^ c) : X ^^^ Y = r ^^^ c := by
  have e1 : X ^^^ Y = (X ^^^ r) ^^^ (Y ^^^ r) := (xor_cancel4 r X Y).symm
  rw [e1, h]
  have e2 : (Y ^^^ c) ^^^ (Y ^^^ r) = (c ^^^ Y) ^^^ (r ^^^ Y) := by ac_rfl
  rw [e2, xor_cancel4, Nat.xor_comm]

theorem remainder_unique {g : Nat} (hg1 : 65536 ≤ g) (hg2 : g < 131072) {xs ys : List Bool} {r c : Nat}
    (hr : r < 65536) (hc : c < 65536) (h : polyMul xs g ^^^ r = polyMul ys g ^^^ c) : r = c := by
  obtain ⟨zs, hz⟩ := polyMul_xor g xs ys
  rw [xor_swap h] at hz
  have hlt : polyMul zs g < 65536 := by rw [← hz]; exact xor_lt16 hr hc
  rcases pmFrom_zero_or_big g hg1 hg2 zs 0 (Or.inl rfl) with h0 | hbig
  · rw [polyMul_eq_pmFrom, h0] at hz
    exact eq_of_xor_eq_zero hz
  · rw [polyMul_eq_pmFrom] at hlt; omega

/-! ### The decoder always reaches EOF -/

/-- The rest of the stream after a non-EOF result is at most `n` long. -/
def restLE (res : ReadRes) (n : Nat) : Prop :=
  match res with
  | .ok _ r => r.length ≤ n
  | .err _ r => r.length ≤ n
  | _ => True

theorem restLE_mono {res : ReadRes} {n m : Nat} (h : restLE res n) (hnm : n ≤ m) : restLE res m := by
  unfold restLE at *
  cases res with
  | ok f r => simp only at h ⊢; omega
  | err e r => simp only at h ⊢; omega
  | eof => trivial
  | panic => trivial

theorem splitAtCR_len (s : Bytes) : ∀ l r, splitAtCR s = some (l, r) → r.length < s.length := by
  induction s with
  | nil => intro l r h; simp [splitAtCR] at h
  | cons b t ih =>
    intro l r h
    unfold splitAtCR at h
    split at h
    · cases h; simp
    · split at h
      · rename_i l' r' hs
        cases h
        have := ih l' r hs
        simp; omega
      · cases h

theorem checkCrc_len (tcp : Bool) (data rest : Bytes) (k : Bytes → ReadRes)
    (hk : ∀ r, restLE (k r) r.length) : restLE (checkCrc tcp data rest k) rest.length := by
  unfold checkCrc
  split
  · exact hk _
  · split
    · simp [restLE]
    · simp [restLE]
    · rename_i a b rest'
      split
      · exact restLE_mono (hk rest') (by simp; omega)
      · simp [restLE]; omega

theorem readC_len (tcp : Bool) (s : Bytes) (_hs : s ≠ []) : restLE (readC tcp s) (s.length - 1) := by
  unfold readC
  split
  · simp [restLE]
  · rename_i line rest h
    have hl := splitAtCR_len s line rest h
    refine restLE_mono (checkCrc_len tcp _ rest _ ?_) (by omega)
    intro r
    split <;> simp [restLE]

theorem readD_len (tcp : Bool) (s : Bytes) (_hs : s ≠ []) : restLE (readD tcp s) (s.length - 1) := by
  unfold readD
  split
  · rename_i a b t
    simp only
    split
    · simp [restLE]
    · rename_i hlen
      refine restLE_mono (checkCrc_len tcp _ _ _ ?_) (by simp; omega)
      intro r
      split
      · simp [restLE]
      · split <;> simp [restLE]
  · simp [restLE]

theorem dispatch_len (tcp : Bool) (ft : UInt8) (s : Bytes) : restLE (dispatch tcp ft s) s.length := by
  unfold dispatch
  by_cases hs : s = []
  · subst hs
    split
    · simp [readC, splitAtCR, restLE]
    · split
      · simp [readD, restLE]
      · simp [restLE]
  · split
    · exact restLE_mono (readC_len tcp s hs) (by omega)
    · split
      · exact restLE_mono (readD_len tcp s hs) (by omega)
      · simp [restLE]

theorem readStar_len (tcp : Bool) (s : Bytes) (hs : s ≠ []) : restLE (readStar tcp s) (s.length - 1) := by
  fun_induction readStar tcp s
  · exact absurd rfl hs
  · simp [restLE]
  · exact restLE_mono (dispatch_len tcp _ []) (by simp)
  · rename_i x s' ih
    by_cases hs' : s' = []
    · subst hs'; simp [readStar, restLE]
    · exact restLE_mono (ih hs') (by simp; omega)
  · rename_i t x s' ht
    exact restLE_mono (dispatch_len tcp _ s') (by simp)

/-- With one of the three frame types the control loop uses, every non-EOF read consumes input. -/
theorem readFrame_len (tcp : Bool) (ft : UInt8) (hft : ft = 42 ∨ ft = 99 ∨ ft = 100) (s : Bytes) (hs : s ≠ []) :
    restLE (readFrame tcp ft s) (s.length - 1) := by
  unfold readFrame
  rcases hft with h | h | h <;> subst h
  · simp only [if_true]; exact readStar_len tcp s hs
  · simp only [show ((99 : UInt8) = 42) = False by decide, if_false, dispatch, if_true]
    exact readC_len tcp s hs
  · simp only [show ((100 : UInt8) = 42) = False by decide, if_false, dispatch,
      show ((100 : UInt8) = 99) = False by decide, if_true]
    exact readD_len tcp s hs

theorem readFrame_nil (tcp : Bool) (ft : UInt8) (hft : ft = 42 ∨ ft = 99 ∨ ft = 100) :
    readFrame tcp ft [] = .eof := by
  rcases hft with h | h | h <;> subst h <;> simp [readFrame, readStar, dispatch, readC, readD, splitAtCR]

/-- `decodeTNCStream` reaches EOF on every stream: the fuel `length + 1` is never exhausted. -/
theorem decodeStream_ends (tcp : Bool) (ft : UInt8) (hft : ft = 42 ∨ ft = 99 ∨ ft = 100) (n : Nat) :
    ∀ s : Bytes, s.length < n → (decodeStream tcp ft n s).getLast? = some .eof := by
  induction n with
  | zero => intro s h; omega
  | succ n ih =>
    intro s h
    unfold decodeStream
    by_cases hs : s = []
    · subst hs; rw [readFrame_nil tcp ft hft]; rfl
    · have hl := readFrame_len tcp ft hft s hs
      have hnp := readFrame_ne_panic tcp ft s
      have hpos : 0 < s.length := List.length_pos_iff.mpr hs
      split
      · rename_i f r he
        rw [he] at hl; simp only [restLE] at hl
        have := ih r (by omega)
        cases hd : decodeStream tcp ft n r with
        | nil => rw [hd] at this; simp at this
        | cons x xs => rw [hd] at this; simpa [List.getLast?_cons_cons] using this
      · rename_i e r he
        rw [he] at hl; simp only [restLE] at hl
        have := ih r (by omega)
        cases hd : decodeStream tcp ft n r with
        | nil => rw [hd] at this; simp at this
        | cons x xs => rw [hd] at this; simpa [List.getLast?_cons_cons] using this
      · rfl
      · rename_i he; exact absurd he hnp

end Wl2k.Ardop
