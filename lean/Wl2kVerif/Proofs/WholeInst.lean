import Wl2kVerif.Proofs.WholeLz
/-
A concrete one-message session used for the kernel-evaluated non-vacuity instances of `Props/C01_whole.lean`
and `Props/C02_whole.lean`. The message body is empty: the kernel evaluates `compress true []` at once, any
non-empty body takes it minutes; everything else — proposal line, frame, `lzDecode`, both `exchange`
programs — is the real model.
-/
namespace Wl2k.B2F.Ex1
open Wl2k Wl2k.B2F

def hsM : HsCfg := { mycall := [77], targetcall := [83], locator := [76], uaName := [85], uaVersion := [49], master := true, gzip := false, hasCb := false, localFW := [[77]] }
def hsS : HsCfg := { hsM with mycall := [83], targetcall := [77], master := false, localFW := [[83]] }
/-- the master (it accepted the connection; it receives first) and the slave (it has one message queued) -/
def cM : Cfg := { hs := hsM }
def cS : Cfg := { hs := hsS }
def msg1 : OutMsg := { mid := [65, 66], title := [84], qtitle := [84], data := [] }
def hS0 : HState := { outbox := [msg1] }
def hM0 : HState := {}

theorem compress_nil : Lzhuf.compress true [] = [0, 0, 0, 0, 0, 0] := by decide +kernel

/-- the validity hypothesis on offered messages is satisfiable -/
theorem msg1_ok : MsgOK' 200 msg1 := by
  refine ⟨by decide, by decide, by decide, ?_, ?_, by decide, by decide, ?_⟩
  · show (((Lzhuf.compress true []).length : Nat) : Int) ≤ _
    rw [compress_nil]; decide
  · decide +kernel
  · show _ + (Lzhuf.compress true []).length + 4 < 200
    rw [compress_nil]; decide

theorem block1 : blockOf' cS [msg1] = [mkProp msg1] := by
  simp [blockOf', sortProposals, insertSorted, msg1, cS]
  rfl

end Wl2k.B2F.Ex1
