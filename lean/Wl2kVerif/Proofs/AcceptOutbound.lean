import Wl2kVerif.Proofs.AcceptInbound
import Wl2kVerif.Proofs.AcceptOutW
import Wl2kVerif.Proofs.AcceptAnswers
/-
Acceptance, OUR turn: `handleOutbound` (proposal block, the remote's `FS` answer, transfers, the go-ahead
peek) against the checker states `answer` / `theirs` of B2F/InGrammar.lean; and the induction over the script
that ties the turns together.
-/
namespace Wl2k.B2F
open Wl2k Wl2k.Fmt Wl2k.Str Wl2k.Strconv Wl2k.B2F.InGrammar Wl2k.B2F.Grammar

variable {H : Type} (hstep : H → Call → H × Reply) (c : Cfg) (fuel : Nat)

/-- what `turns` does with the result of `handleOutbound` (as in Proofs/WholeSend.lean) -/
def afterOutbound (st : SState) (kOK : Bool → SState → Proc Result) : Except SErr (Bool × SState) → Proc Result
  | .error e => finish st false (some e)
  | .ok (q, st') => kOK q st'

theorem restOfSession_send' (n : Nat) (st : SState) (hq : st.quitReceived = false) (hs : st.quitSent = false) :
    restOfSession c fuel (n + 1) true st =
      (handleOutbound c fuel st).bind
        (afterOutbound st fun q st' => restOfSession c fuel n false { st' with quitSent := q }) := by
  unfold restOfSession
  conv => lhs; unfold turns
  simp only [hq, hs, Bool.false_eq_true, or_self, if_false, if_true, bind_eq, pure_eq]
  rw [Proc.bind_assoc]
  congr
  funext r
  cases r with
  | error e => rfl
  | ok v => obtain ⟨q, st'⟩ := v; rfl

/-- the tail of `handleOutbound`: the peek that confirms, and what follows it -/
def outTail (st : SState) (rest : List (Bytes × Bool)) : Proc (Except SErr (Bool × SState)) :=
  Proc.peek fun o =>
    match o with
    | none => .ret (.error .eof)
    | some b =>
      if b ≠ 70 ∧ b ≠ 59 then do
        match ← nextLine fuel with
        | .error e => return .error e
        | .ok _ => return .error (.proto "unexpected-response")
      else do
        callAll (rest.map fun (m, _) => .setSent m false)
        return .ok (false, { st with sent := st.sent ++ rest.map (·.1) })

theorem handleOutbound_eq' (st : SState) :
    handleOutbound c fuel st = (outbound c st).bind fun out =>
      if out.isEmpty then
        Proc.write (if st.remoteNoMsgs then sb "FQ\r" else sb "FF\r") (.ret (.ok (st.remoteNoMsgs, st)))
      else (sendOutbound c fuel out).bind fun r =>
        match r with
        | .error e => .ret (.error e)
        | .ok sent =>
          (callAll ((sent.filter (·.2)).map fun (m, _) => .setSent m true)).bind fun _ =>
            outTail fuel st (sent.filter (!·.2)) := rfl

/-- what `sendOutbound` does with the line `awaitAnswer` returns -/
def sendTail (blk : List Proposal) : Except SErr Bytes → Proc (Except SErr (List (Bytes × Bool)))
  | .error e => .ret (.error e)
  | .ok reply =>
    match parseProposalAnswerC c.offsetLimit reply blk.length with
    | none => .panic "parseProposalAnswer"
    | some none => .ret (.error (.proto "unable-to-parse-proposal-answer"))
    | some (some ans) =>
      transferAll c ((blk.zip ans).map fun (p, a) => { p with answer := a.1, offset := a.2 }) []

theorem sendOutbound_eq (out : List Proposal) :
    sendOutbound c fuel out =
      (writeLines ((out.take c.maxBlock).map fun p => proposalLine p.code p.msgType p.mid p.size p.csize)).bind fun _ =>
        Proc.write (promptLine ((((out.take c.maxBlock).map fun p => proposalLine p.code p.msgType p.mid p.size p.csize).map lineSum).foldl (· + ·) 0))
          ((awaitAnswer fuel fuel).bind (sendTail c (out.take c.maxBlock))) := by
  unfold sendOutbound
  simp only [bind_eq, pure_eq]
  congr

/-- what `handleOutbound` + `turns` do with the result of `sendOutbound` -/
def outRest (st : SState) (K : Bool → SState → Proc Result) : Except SErr (List (Bytes × Bool)) → Proc Result
  | .error e => finish st false (some e)
  | .ok sent =>
    ((callAll ((sent.filter (·.2)).map fun (m, _) => .setSent m true)).bind fun _ =>
      outTail fuel st (sent.filter (!·.2))).bind (afterOutbound st K)

/-- the rest of the session from inside the answer loop of our turn -/
def AnswerP (m : Nat) (blk : List Proposal) (st : SState) (K : Bool → SState → Proc Result) : Proc Result :=
  ((awaitAnswer fuel m).bind (sendTail c blk)).bind (outRest fuel st K)

/-- the rest of the session at the go-ahead peek -/
def PeekP (st : SState) (rest : List (Bytes × Bool)) (K : Bool → SState → Proc Result) : Proc Result :=
  (outTail fuel st rest).bind (afterOutbound st K)

def Kout (n : Nat) : Bool → SState → Proc Result :=
  fun q st' => restOfSession c fuel n false { st' with quitSent := q }

/-! ### the answer loop -/

theorem awaitAnswer_zero : awaitAnswer fuel 0 = .panic "fuel" := by unfold awaitAnswer; rfl

theorem awaitAnswer_comment' (m : Nat) (t rest : Bytes) (hc : isComment t = true) (hf : t.length < fuel) (h : H) (tr : List Ev) :
    Proc.run hstep (awaitAnswer fuel (m + 1)) (t ++ 13 :: rest) h tr = Proc.run hstep (awaitAnswer fuel m) rest h tr := by
  unfold isComment at hc
  simp only [Bool.and_eq_true, beq_iff_eq] at hc
  obtain ⟨r, hr⟩ : ∃ r, t = 59 :: r := by
    cases t with
    | nil => simp at hc
    | cons b r => simp only [List.head?_cons, Option.some.injEq] at hc; exact ⟨r, by rw [hc.2]⟩
  conv => lhs; unfold awaitAnswer
  simp only [bind_eq, pure_eq]
  rw [run_bind, run_nextLine_text hstep t rest fuel h tr hc.1 (by rw [hc.2]; decide) hf]
  simp only
  have h1 : (sb "FS ").isPrefixOf t = false := by rw [sb_FS, hr]; simp [fsPrefix, List.isPrefixOf]
  have h2 : (sb ";").isPrefixOf t = true := by rw [sb_semi, hr]; simp [List.isPrefixOf]
  simp only [h1, Bool.false_eq_true, if_false, h2, if_true]
  split <;> rfl

theorem fsAnswers?_spec {t as : Bytes} (h : fsAnswers? t = some as) : t = 70 :: 83 :: 32 :: as ∧ isText t = true ∧ as ≠ [] := by
  unfold fsAnswers? at h
  split at h
  · rename_i as'
    split at h
    · rename_i hc
      simp only [Option.some.injEq] at h
      subst h
      simp only [Bool.and_eq_true, Bool.not_eq_true', List.isEmpty_eq_false_iff] at hc
      exact ⟨rfl, hc.1, hc.2⟩
    · cases h
  · cases h

theorem awaitAnswer_fs (m : Nat) (t as rest : Bytes) (hfs : fsAnswers? t = some as) (hf : t.length < fuel) (h : H) (tr : List Ev) :
    Proc.run hstep (awaitAnswer fuel (m + 1)) (t ++ 13 :: rest) h tr = (.done (.ok t), rest, h, tr) := by
  obtain ⟨ht, htext, _⟩ := fsAnswers?_spec hfs
  conv => lhs; unfold awaitAnswer
  simp only [bind_eq, pure_eq]
  rw [run_bind, run_nextLine_text hstep t rest fuel h tr htext (by rw [ht]; simp) hf]
  simp only
  have h1 : (sb "FS ").isPrefixOf t = true := by rw [sb_FS, ht]; simp [fsPrefix, List.isPrefixOf]
  simp [h1, Proc.run]

theorem awaitAnswer_eof (m : Nat) (J : Bytes) (h13 : (13 : UInt8) ∉ J) (hf : J.length < fuel) (h : H) (tr : List Ev) :
    Proc.run hstep (awaitAnswer fuel (m + 1)) J h tr = (.done (.error .eof), [], h, tr) := by
  conv => lhs; unfold awaitAnswer
  simp only [bind_eq, pure_eq]
  rw [run_bind, run_nextLine_eof hstep J fuel h tr h13 hf]
  simp [Proc.run]

theorem xfer_good (blk : List Proposal) (hok : ∀ p ∈ blk, PropOK p ∧ 6 ≤ p.cdata.length) (ans : List (UInt8 × Int))
    (hb : ∀ (i : Nat) (a : UInt8) (off : Int), ans[i]? = some (a, off) →
      (a = 0 ∨ a = ansAccept ∨ a = ansReject ∨ a = ansDefer) ∧ 0 ≤ off ∧ off ≤ (((blk.map csz).getD i 0 : Nat) : Int)) :
    ∀ p' ∈ (blk.zip ans).map (fun (x : Proposal × (UInt8 × Int)) => { x.1 with answer := x.2.1, offset := x.2.2 }), XferGood p' := by
  intro p' hp'
  obtain ⟨⟨p, a⟩, hmem, rfl⟩ := List.mem_map.mp hp'
  obtain ⟨i, hi, heq⟩ := List.getElem_of_mem hmem
  have hi1 : i < blk.length := by simp only [List.length_zip] at hi; omega
  have hi2 : i < ans.length := by simp only [List.length_zip] at hi; omega
  rw [List.getElem_zip] at heq
  simp only [Prod.mk.injEq] at heq
  obtain ⟨rfl, rfl⟩ := heq
  have hbi := hb i ans[i].1 ans[i].2 (by simp [List.getElem?_eq_getElem hi2])
  obtain ⟨pok, p6⟩ := hok blk[i] (List.getElem_mem hi1)
  have hcsz : (blk.map csz).getD i 0 = blk[i].cdata.length := by
    simp [List.getD, hi1, csz]
  rw [hcsz] at hbi
  intro _
  refine ⟨?_, hbi.2.1, hbi.2.2⟩
  show 6 ≤ blk[i].csize
  rw [pok.csize]
  exact_mod_cast p6

theorem theirLine_head (cs : List Nat) (sum : Nat) (W : List Bytes) (t : Bytes) :
    theirLine cs sum W t = .bad ∨ t.head? = some 70 ∨ t.head? = some 59 := by
  unfold theirLine
  by_cases hc : isComment t = true
  · right; right
    unfold isComment at hc
    simp only [Bool.and_eq_true, beq_iff_eq] at hc
    exact hc.2
  · simp only [hc, Bool.false_eq_true, if_false]
    by_cases h1 : t = [70, 70]
    · right; left; rw [h1]; rfl
    · by_cases h2 : t = [70, 81]
      · right; left; rw [h2]; rfl
      · simp only [h1, h2, if_false]
        cases hp : proposal? t with
        | some cz =>
          obtain ⟨_, _, ⟨r, hr⟩, _⟩ := proposal?_spec t cz hp
          right; left; rw [hr]; rfl
        | none =>
          simp only
          by_cases h3 : t = promptText sum ∧ cs ≠ []
          · right; left; rw [h3.1]; rfl
          · left; simp [h3]

/-! ### the simulation: go-ahead peek, `answer`, our turn -/

section good
variable (g : InCfg) (hR : ∀ h c, RA g c (hstep h c).2) (tail : Bytes)

def GPeek (script : List RUnit) : Prop :=
  ∀ (n : Nat) (st : SState) (rest : List (Bytes × Bool)), st.quitReceived = false → (render script ++ tail).length < fuel →
    Good g hstep (fun W => .next (.theirs [] 0) W) (PeekP fuel st rest (Kout c fuel n)) script tail

def GAnswer (script : List RUnit) : Prop :=
  ∀ (n m : Nat) (blk : List Proposal) (st : SState), (∀ p ∈ blk, PropOK p ∧ 6 ≤ p.cdata.length) → st.quitReceived = false →
    (render script ++ tail).length < fuel →
    Good g hstep (fun W => .next (.answer (blk.map csz)) W) (AnswerP c fuel m blk st (Kout c fuel n)) script tail

theorem good_kout (script : List RUnit) (hT : GTheirs hstep c fuel g tail script) (n : Nat) (st : SState)
    (hq : st.quitReceived = false) (hlen : (render script ++ tail).length < fuel) :
    Good g hstep (fun W => .next (.theirs [] 0) W) (Kout c fuel n false st) script tail := by
  cases n with
  | zero => exact Good.done (fun h => by simp [Kout, restOfSession_zero', Proc.run, resGood])
  | succ n =>
    unfold Kout
    rw [recv_eq c fuel n { st with quitSent := false } hq rfl]
    exact hT n fuel [] 0 [] _ _ .nil rfl hlen

include hR in
theorem good_peek (script : List RUnit) (hT : GTheirs hstep c fuel g tail script) : GPeek hstep c fuel g tail script := by
  intro n st rest hq hlen
  cases hinp : render script ++ tail with
  | nil =>
    apply Good.done
    intro h
    rw [hinp]
    simp [PeekP, outTail, Proc.bind, Proc.run, afterOutbound, finish, resGood]
  | cons b r =>
    by_cases hb : b ≠ 70 ∧ b ≠ 59
    · cases script with
      | nil =>
        intro h hv
        simp only [conf_nil, verdictOK, tailOK, Bool.not_eq_true', List.contains_eq_mem, decide_eq_false_iff_not] at hv
        have htl : tail = b :: r := by simpa [render] using hinp
        rw [hinp]
        have hlen' : (b :: r).length < fuel := by rw [← hinp]; exact hlen
        have hne := run_nextLine_eof hstep (b :: r) fuel h [.peeked b] (by rw [← htl]; exact hv) hlen'
        simp only [PeekP, outTail, Proc.bind, Proc.run, if_pos hb, bind_eq, pure_eq]
        rw [Proc.bind_assoc, run_bind_done hstep _ hne]
        simp [Proc.bind, Proc.run, afterOutbound, finish, resGood]
      | cons u us =>
        apply Good.bad
        intro W
        cases u with
        | frame title chunks ck => simp [conf_cons, stepUnit, conf_bad, verdictOK]
        | line t =>
          rcases theirLine_head [] 0 W t with hbad | hh
          · simp [conf_cons, stepUnit, hbad, conf_bad, verdictOK]
          · exfalso
            have : t.head? = some b := by
              cases t with
              | nil => rcases hh with hh | hh <;> cases hh
              | cons x xs =>
                simp only [render_cons, RUnit.bytes, List.cons_append, List.cons.injEq] at hinp
                rw [hinp.1]; rfl
            rw [this] at hh
            rcases hh with hh | hh
            · exact hb.1 (Option.some.inj hh)
            · exact hb.2 (Option.some.inj hh)
    · apply Good.of_run
      intro h
      obtain ⟨_, h', evs, hrun, hws⟩ := run_emits hstep hR
        (callAll_emits (RA g) (rest.map fun (x : Bytes × Bool) => Call.setSent x.1 false)) (b :: r) h [.peeked b]
      refine ⟨fun W => .next (.theirs [] 0) W, script, Kout c fuel n false { st with sent := st.sent ++ rest.map (·.1) }, h',
        evs ++ [.peeked b], ?_, good_kout hstep c fuel g tail script hT n _ hq hlen, ?_⟩
      · rw [hinp]
        simp only [PeekP, outTail, Proc.bind, Proc.run, if_neg hb, bind_eq, pure_eq]
        rw [Proc.bind_assoc, run_bind_done hstep _ hrun]
        rfl
      · intro W hv
        rw [writesOf_append, hws] at hv
        simpa [writesOf_peeked, lineWrites] using hv

theorem answerP_zero (blk : List Proposal) (st : SState) (K : Bool → SState → Proc Result) :
    AnswerP c fuel 0 blk st K = .panic "fuel" := by
  unfold AnswerP; rw [awaitAnswer_zero]; rfl

theorem good_answer_nil : GAnswer hstep c fuel g tail [] := by
  intro n m blk st _ _ hlen h hv
  simp only [conf_nil, verdictOK, tailOK, Bool.not_eq_true', List.contains_eq_mem, decide_eq_false_iff_not] at hv
  have hlen' : tail.length < fuel := by simpa [render] using hlen
  rw [show render [] ++ tail = tail from by simp [render]]
  cases m with
  | zero => rw [answerP_zero]; simp [Proc.run, resGood]
  | succ m =>
    unfold AnswerP
    rw [Proc.bind_assoc, run_bind_done hstep _ (awaitAnswer_eof hstep fuel m tail hv hlen' h [])]
    simp [sendTail, Proc.bind, outRest, Proc.run, finish, resGood]

include hR in
theorem good_answer_cons (u : RUnit) (us : List RUnit) (hAns : GAnswer hstep c fuel g tail us)
    (hP : GPeek hstep c fuel g tail us) : GAnswer hstep c fuel g tail (u :: us) := by
  intro n m blk st hok hq hlen
  cases u with
  | frame title chunks ck => exact Good.bad (fun W => by simp [conf_cons, stepUnit, conf_bad, verdictOK])
  | line t =>
    cases m with
    | zero => rw [answerP_zero]; exact Good.done (fun h => by simp [Proc.run, resGood])
    | succ m =>
      have hinp : render (.line t :: us) ++ tail = t ++ 13 :: (render us ++ tail) := by simp [render_cons, RUnit.bytes]
      have hlen1 : t.length < fuel := by rw [hinp] at hlen; simp only [List.length_append, List.length_cons] at hlen; omega
      have hlen2 : (render us ++ tail).length < fuel := by
        rw [hinp] at hlen; simp only [List.length_append, List.length_cons] at hlen ⊢; omega
      by_cases hc : isComment t = true
      · apply Good.of_run
        intro h
        refine ⟨fun W => .next (.answer (blk.map csz)) W, us, AnswerP c fuel m blk st (Kout c fuel n), h, [], ?_,
          hAns n m blk st hok hq hlen2, ?_⟩
        · rw [hinp]
          unfold AnswerP
          exact run_bind_congr hstep _ (run_bind_congr hstep _ (awaitAnswer_comment' hstep fuel m t _ hc hlen1 h []))
        · intro W hv
          simpa [conf_cons, stepUnit, answerLine, hc, writesOf_nil, lineWrites] using hv
      · cases hfs : fsAnswers? t with
        | none => exact Good.bad (fun W => by simp [conf_cons, stepUnit, answerLine, hc, hfs, conf_bad, verdictOK])
        | some as =>
          by_cases haok : answersOK (as.length + 1) (blk.map csz) as = true
          · obtain ⟨ht, _, _⟩ := fsAnswers?_spec hfs
            obtain ⟨ans, hparse, hal, hb⟩ := answers_parse c.offsetLimit (blk.map csz) as haok
            rw [List.length_map, ← ht] at hparse
            apply Good.of_run
            intro h
            have hxg := xfer_good blk hok ans hb
            obtain ⟨r, h1, evs1, hrun1, hw1, ⟨sent, hsent⟩⟩ := run_emits hstep hR (transferAll_emits g c _ [] hxg) (render us ++ tail) h []
            subst hsent
            obtain ⟨_, h2, evs2, hrun2, hw2⟩ := run_emits hstep hR
              (callAll_emits (RA g) ((sent.filter (·.2)).map fun (x : Bytes × Bool) => Call.setSent x.1 true)) (render us ++ tail) h1 (evs1 ++ [])
            refine ⟨fun W => .next (.theirs [] 0) W, us, PeekP fuel st (sent.filter (!·.2)) (Kout c fuel n), h2, evs2 ++ (evs1 ++ []), ?_,
              hP n st _ hq hlen2, ?_⟩
            · rw [hinp]
              unfold AnswerP
              rw [Proc.bind_assoc, run_bind_done hstep _ (awaitAnswer_fs hstep fuel m t as _ hfs hlen1 h [])]
              simp only [sendTail, hparse]
              rw [run_bind_done hstep _ hrun1]
              simp only [outRest]
              rw [Proc.bind_assoc, run_bind_done hstep _ hrun2]
              rfl
            · intro W hv
              rw [writesOf_append, lineWrites_append, hw2, List.append_nil, hw1] at hv
              simpa [conf_cons, stepUnit, answerLine, hc, hfs, haok, lineWrites] using hv
          · exact Good.bad (fun W => by simp [conf_cons, stepUnit, answerLine, hc, hfs, haok, conf_bad, verdictOK])

theorem answerP_eq (st : SState) (K : Bool → SState → Proc Result)
    (X : Proc (Except SErr (List (Bytes × Bool)))) :
    (X.bind fun r =>
        match r with
        | .error e => .ret (.error e)
        | .ok sent =>
          (callAll ((sent.filter (·.2)).map fun (m, _) => .setSent m true)).bind fun _ =>
            outTail fuel st (sent.filter (!·.2))).bind (afterOutbound st K) =
      X.bind (outRest fuel st K) := by
  rw [Proc.bind_assoc]
  congr
  funext r
  cases r <;> rfl

include hR in
theorem good_ours (hcfg : CfgOK c) (script : List RUnit) (hT : GTheirs hstep c fuel g tail script)
    (hAns : GAnswer hstep c fuel g tail script) : GOurs hstep c fuel g tail script := by
  intro n st hq hs hlen
  cases n with
  | zero => exact Good.done (fun h => by simp [restOfSession_zero', Proc.run, resGood])
  | succ n =>
    rw [restOfSession_send' c fuel n st hq hs, handleOutbound_eq']
    apply Good.of_run
    intro h
    obtain ⟨out, h1, evs1, hrun1, hw1, hout⟩ := run_emits hstep hR (outbound_emits g c st) (render script ++ tail) h []
    by_cases he : out.isEmpty = true
    · by_cases hn : st.remoteNoMsgs = true
      · refine ⟨fun _ => .free, script, restOfSession c fuel n false { st with quitSent := true }, h1,
          .wrote (sb "FQ\r") :: (evs1 ++ []), ?_, ?_, ?_⟩
        · rw [Proc.bind_assoc, run_bind_done hstep _ hrun1]
          simp only [he, if_true, hn, Proc.bind, Proc.run]
          simp [afterOutbound, hn]
        · apply Good.done
          intro h'
          cases n with
          | zero => simp [restOfSession_zero', Proc.run, resGood]
          | succ n => rw [restOfSession_quit' c fuel n false _ (Or.inr rfl)]; simp [Proc.run, resGood]
        · intro W _
          simp [conf_free, verdictOK]
      · have hn' : st.remoteNoMsgs = false := by simpa using hn
        refine ⟨fun W => .next (.theirs [] 0) W, script, Kout c fuel n false st, h1,
          .wrote (sb "FF\r") :: (evs1 ++ []), ?_, good_kout hstep c fuel g tail script hT n st hq hlen, ?_⟩
        · rw [Proc.bind_assoc, run_bind_done hstep _ hrun1]
          simp only [he, if_true, hn', Proc.bind, Proc.run]
          simp [afterOutbound, hn', Kout]
        · intro W hv
          rw [writesOf_cons_wrote, List.append_nil, hw1, sb_FF] at hv
          simpa [lineWrites, lineFF, ourTurn] using hv
    · have hblk : ∀ p ∈ out.take c.maxBlock, PropOK p ∧ 6 ≤ p.cdata.length := fun p hp => hout p (List.mem_of_mem_take hp)
      have hne : out.take c.maxBlock ≠ [] := by
        have := hcfg.blk1
        cases out with
        | nil => simp at he
        | cons a b =>
          cases hm : c.maxBlock with
          | zero => omega
          | succ k => simp
      obtain ⟨_, h2, evs2, hrun2, hw2⟩ := run_emits hstep hR
        (writeLines_emits (RA g) ((out.take c.maxBlock).map fun p => proposalLine p.code p.msgType p.mid p.size p.csize))
        (render script ++ tail) h1 (evs1 ++ [])
      refine ⟨fun W => .next (.answer ((out.take c.maxBlock).map csz)) W, script,
        AnswerP c fuel fuel (out.take c.maxBlock) st (Kout c fuel n), h2,
        .wrote (promptLine ((((out.take c.maxBlock).map fun p => proposalLine p.code p.msgType p.mid p.size p.csize).map lineSum).foldl (· + ·) 0)) ::
          (evs2 ++ (evs1 ++ [])), ?_,
        hAns n fuel _ st hblk hq hlen, ?_⟩
      · rw [Proc.bind_assoc, run_bind_done hstep _ hrun1]
        simp only [he, Bool.false_eq_true, if_false]
        rw [answerP_eq, sendOutbound_eq, Proc.bind_assoc, run_bind_done hstep _ hrun2]
        simp only [Proc.bind, Proc.run]
        rfl
      · intro W hv
        rw [writesOf_cons_wrote, writesOf_append, List.append_nil, hw1, hw2, List.nil_append, List.map_map] at hv
        have hb := lineWrites_block (out.take c.maxBlock) (fun p hp => (hblk p hp).1)
          ((((out.take c.maxBlock).map fun p => proposalLine p.code p.msgType p.mid p.size p.csize).map lineSum).foldl (· + ·) 0)
        have ho := ourTurn_block (out.take c.maxBlock) (fun p hp => (hblk p hp).1) hne
          ((((out.take c.maxBlock).map fun p => proposalLine p.code p.msgType p.mid p.size p.csize).map lineSum).foldl (· + ·) 0) W
        have hf : ((fun x => x ++ [13]) ∘ fun (p : Proposal) => proposalLine p.code p.msgType p.mid p.size p.csize) =
            fun p => plOf p ++ [13] := rfl
        rw [hf, hb, List.append_assoc, List.singleton_append, ho] at hv
        exact hv

/-! ### the induction over the script -/

include hR in
theorem good_all (hcfg : CfgOK c) : ∀ script : List RUnit,
    GTheirs hstep c fuel g tail script ∧ GXfer hstep c fuel g tail script ∧ GAnswer hstep c fuel g tail script := by
  intro script
  induction script with
  | nil => exact ⟨good_theirs_nil hstep c fuel g tail, good_xfer_nil hstep c fuel g tail, good_answer_nil hstep c fuel g tail⟩
  | cons u us ih =>
    obtain ⟨hT, hX, hAns⟩ := ih
    have hO := good_ours hstep c fuel g hR tail hcfg us hT hAns
    have hA := good_after hstep c fuel g tail us hO hX
    have hP := good_peek hstep c fuel g hR tail us hT
    exact ⟨good_theirs_cons hstep c fuel g hR tail u us hT hO hA, good_xfer_cons hstep c fuel g hR tail u us hA,
      good_answer_cons hstep c fuel g hR tail u us hAns hP⟩

include hR in
theorem good_ours_all (hcfg : CfgOK c) (script : List RUnit) : GOurs hstep c fuel g tail script :=
  good_ours hstep c fuel g hR tail hcfg script (good_all hstep c fuel g hR tail hcfg script).1
    (good_all hstep c fuel g hR tail hcfg script).2.2

end good

end Wl2k.B2F
