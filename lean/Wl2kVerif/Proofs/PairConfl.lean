/-
Abstract confluence for a system of deterministic agents (a Kahn network seen as a transition system):
`step i s` is the (partial, deterministic) move of agent `i`. If moves of different agents commute
(`diamond`) — up to an observation `π` that the moves respect (`compat`) — then every maximal execution
from a state has the same length and ends in the same observed state.
-/
namespace Wl2k.Confl

variable {σ τ ι : Type} (step : ι → σ → Option σ) (π : σ → τ)

/-- `Exec s n t`: `t` is reached from `s` by `n` moves (of any agents, in any order) -/
inductive Exec : σ → Nat → σ → Prop
  | refl (s : σ) : Exec s 0 s
  | cons (i : ι) (s s' : σ) (n : Nat) (t : σ) : step i s = some s' → Exec s' n t → Exec s (n + 1) t

/-- nobody can move -/
def Terminal (s : σ) : Prop := ∀ i, step i s = none

structure Commuting : Prop where
  compat : ∀ i s t s', π s = π t → step i s = some s' → ∃ t', step i t = some t' ∧ π s' = π t'
  diamond : ∀ i j s s₁ s₂, i ≠ j → step i s = some s₁ → step j s = some s₂ →
    ∃ s₃ s₃', step j s₁ = some s₃ ∧ step i s₂ = some s₃' ∧ π s₃ = π s₃'

variable {step π}

theorem Exec.trans {s t u : σ} {n m : Nat} (h1 : Exec step s n t) (h2 : Exec step t m u) : Exec step s (n + m) u := by
  induction h1 with
  | refl s => simpa using h2
  | cons i s s' n t hs _ ih =>
    have := Exec.cons i s s' (n + m) u hs (ih h2)
    have e : n + 1 + m = n + m + 1 := by omega
    rw [e]; exact this

theorem Exec.single {i : ι} {s s' : σ} (h : step i s = some s') : Exec step s 1 s' :=
  Exec.cons i s s' 0 s' h (Exec.refl s')

theorem terminal_of_obs (hc : Commuting step π) {s t : σ} (hπ : π s = π t) (ht : Terminal step s) : Terminal step t := by
  intro i
  cases h : step i t with
  | none => rfl
  | some t' =>
    obtain ⟨s', hs', _⟩ := hc.compat i t s t' hπ.symm h
    rw [ht i] at hs'
    cases hs'

theorem exec_of_obs (hc : Commuting step π) {s s' : σ} {n : Nat} (he : Exec step s n s') :
    ∀ t, π s = π t → ∃ t', Exec step t n t' ∧ π s' = π t' := by
  induction he with
  | refl s => intro t h; exact ⟨t, Exec.refl t, h⟩
  | cons i s s1 n s' hs _ ih =>
    intro t h
    obtain ⟨t1, ht1, h1⟩ := hc.compat i s t s1 h hs
    obtain ⟨t', ht', h'⟩ := ih t1 h1
    exact ⟨t', Exec.cons i t t1 n t' ht1 ht', h'⟩

theorem exec_terminal {s t : σ} {n : Nat} (hs : Terminal step s) (he : Exec step s n t) : n = 0 ∧ t = s := by
  cases he with
  | refl => exact ⟨rfl, rfl⟩
  | cons i _ s' n' _ h _ => rw [hs i] at h; cases h

/-- **Confluence**: if some execution of `n` moves from `s` ends in a terminal state `t`, then every
execution from `s` has at most `n` moves and can be completed, in exactly the missing number of moves, to
a state observed like `t`. -/
theorem confluent [DecidableEq ι] (hc : Commuting step π) : ∀ (n : Nat) (s t : σ), Exec step s n t → Terminal step t →
    ∀ (m : Nat) (t' : σ), Exec step s m t' → m ≤ n ∧ ∃ t'', Exec step t' (n - m) t'' ∧ π t'' = π t := by
  intro n
  induction n with
  | zero =>
    intro s t he ht m t' he'
    cases he
    obtain ⟨rfl, rfl⟩ := exec_terminal ht he'
    exact ⟨Nat.le_refl _, t', Exec.refl _, rfl⟩
  | succ n ih =>
    intro s t he ht m t' he'
    cases he with
    | cons i _ s₁ _ _ hi hex =>
      cases he' with
      | refl => exact ⟨Nat.zero_le _, t, Exec.cons i s s₁ n t hi hex, rfl⟩
      | cons j _ s₂ m' _ hj hex' =>
        by_cases hij : i = j
        · subst hij
          rw [hi] at hj
          cases hj
          obtain ⟨hle, t'', h1, h2⟩ := ih s₁ t hex ht m' t' hex'
          refine ⟨by omega, t'', ?_, h2⟩
          have : n + 1 - (m' + 1) = n - m' := by omega
          rw [this]; exact h1
        · obtain ⟨s₃, s₃', hj₁, hi₂, hπ⟩ := hc.diamond i j s s₁ s₂ hij hi hj
          obtain ⟨h1n, u, hu, hπu⟩ := ih s₁ t hex ht 1 s₃ (Exec.single hj₁)
          obtain ⟨u', hu', hπu'⟩ := exec_of_obs hc hu s₃' hπ
          have htu' : Terminal step u' := terminal_of_obs hc (hπu.symm.trans hπu') ht
          have hex₂ : Exec step s₂ n u' := by
            have := Exec.cons i s₂ s₃' (n - 1) u' hi₂ hu'
            have e : n - 1 + 1 = n := by omega
            rw [e] at this; exact this
          obtain ⟨hle, t'', h1, h2⟩ := ih s₂ u' hex₂ htu' m' t' hex'
          refine ⟨by omega, t'', ?_, h2.trans (hπu'.symm.trans hπu)⟩
          have : n + 1 - (m' + 1) = n - m' := by omega
          rw [this]; exact h1

/-- **All maximal executions agree**: same number of moves, same observed final state. -/
theorem maximal_unique [DecidableEq ι] (hc : Commuting step π) {s t t' : σ} {n m : Nat}
    (he : Exec step s n t) (ht : Terminal step t) (he' : Exec step s m t') (ht' : Terminal step t') :
    m = n ∧ π t' = π t := by
  obtain ⟨hle, t'', h1, h2⟩ := confluent hc n s t he ht m t' he'
  obtain ⟨h0, rfl⟩ := exec_terminal ht' h1
  exact ⟨by omega, h2⟩

/-- no execution from `s` is longer than a maximal one (termination is schedule-independent too) -/
theorem length_bounded [DecidableEq ι] (hc : Commuting step π) {s t t' : σ} {n m : Nat}
    (he : Exec step s n t) (ht : Terminal step t) (he' : Exec step s m t') : m ≤ n :=
  (confluent hc n s t he ht m t' he').1

end Wl2k.Confl
