import Wl2kVerif.B2F.Wire
import Wl2kVerif.Proofs.Fmt
/-
Round-trip lemmas for the wire elements: what one side formats, the other side parses back.
-/
namespace Wl2k.B2F
open Wl2k Wl2k.Fmt Wl2k.Str Wl2k.Strconv

/-- the three answers a handler gives -/
def PlainAnswer (a : UInt8) : Prop := a = ansAccept ∨ a = ansReject ∨ a = ansDefer

theorem set_at_length {α : Type} (l : List α) (x v : α) (r : List α) :
    (l ++ x :: r).set l.length v = l ++ v :: r := by
  induction l with
  | nil => rfl
  | cons a t ih => simp [List.set, ih]

theorem parseAnswersAux_plain (limit : Nat) : ∀ (as : List UInt8) (fuel : Nat) (done rest : List (UInt8 × Int)),
    (∀ a ∈ as, PlainAnswer a) → as.length < fuel → as.length ≤ rest.length →
    parseAnswersAux limit (done.length + rest.length) fuel as done.length (done ++ rest) =
      some (done ++ as.map (fun a => (a, (0 : Int))) ++ rest.drop as.length) := by
  intro as
  induction as with
  | nil =>
    intro fuel done rest _ hf _
    cases fuel with
    | zero => simp at hf
    | succ f => simp [parseAnswersAux]
  | cons a as ih =>
    intro fuel done rest hp hf hr
    cases fuel with
    | zero => simp at hf
    | succ f =>
      cases rest with
      | nil => simp at hr
      | cons r rest' =>
        have ha := hp a (by simp)
        have hi' : ¬ done.length ≥ done.length + (r :: rest').length := by simp
        have hrec := ih f (done ++ [(a, (0 : Int))]) rest' (fun x hx => hp x (by simp [hx]))
          (by simp at hf; omega) (by simp at hr; omega)
        have hlen : (done ++ [(a, (0 : Int))]).length + rest'.length = done.length + (r :: rest').length := by
          simp; omega
        have hlen2 : (done ++ [(a, (0 : Int))]).length = done.length + 1 := by simp
        rw [hlen, hlen2] at hrec
        have happ : (done ++ [(a, (0 : Int))]) ++ rest' = done ++ (a, (0 : Int)) :: rest' := by simp
        rw [happ] at hrec
        simp only [parseAnswersAux, hi', if_false, set_at_length]
        rcases ha with h | h | h <;> subst h <;>
          simpa [ansAccept, ansReject, ansDefer] using hrec

/-- **One answer per proposal, read back exactly**: the line `FS <answers>` written by
`writeProposalsAnswer` for `n` proposals parses into exactly those answers, each with offset 0. -/
theorem answers_roundtrip (limit : Nat) (as : List UInt8) (h : ∀ a ∈ as, PlainAnswer a) :
    parseProposalAnswer limit (fsPrefix ++ as) as.length = some (as.map (fun a => (a, (0 : Int)))) := by
  unfold parseProposalAnswer
  have hp : fsPrefix.isPrefixOf (fsPrefix ++ as) = true := by simp [fsPrefix, List.isPrefixOf]
  simp only [hp, if_true]
  have hd : (fsPrefix ++ as).drop 3 = as := by simp [fsPrefix]
  rw [hd]
  have := parseAnswersAux_plain limit as (as.length + 1) [] (List.replicate as.length (0, 0)) h (by omega) (by simp)
  simpa using this

end Wl2k.B2F
