import Wl2kVerif.Proofs.AlterFrame
import Wl2kVerif.Proofs.AlterLz
/-
What the receiver's fetch loop does with a proposal whose frame is refused by `readCompressed`, or whose
payload is refused by the decompressor: it stops with an error; no handler call at all is issued
(the trace is unchanged), nothing is recorded as received, later proposals of the block are not fetched.
-/
namespace Wl2k.B2F
open Wl2k

variable {H : Type} (hstep : H → Call → H × Reply)

/-- the frame reader refuses: `fetchAll` returns that error, silently -/
theorem run_fetchAll_frame_error (fuel : Nat) (p : Proposal) (ps : List Proposal) (st : SState)
    (inp rest : Bytes) (e : SErr) (h : H) (tr : List Ev) (hacc : p.answer = ansAccept)
    (hrc : Proc.run hstep (readCompressed fuel p) inp h tr = (.done (.error e), rest, h, tr)) :
    Proc.run hstep (fetchAll fuel (p :: ps) st) inp h tr = (.done (st, some e), rest, h, tr) := by
  unfold fetchAll
  have hne : ¬ (p.answer ≠ ansAccept) := by simp [hacc]
  rw [if_neg hne]
  simp only [bind_eq, pure_eq]
  rw [run_bind, hrc]
  simp [Proc.run]

/-- the error `fetchAll` reports when the decompressor refuses the payload -/
def undecodableErr (cdata : Bytes) : SErr :=
  if (match lzDecodeE cdata with | .error true => true | _ => false) then .eof else .proto "unable-to-decompress"

/-- the frame reader accepts, the decompressor refuses: `fetchAll` returns an error, silently -/
theorem run_fetchAll_undecodable (fuel : Nat) (p : Proposal) (ps : List Proposal) (st : SState)
    (inp rest cdata : Bytes) (h : H) (tr : List Ev) (hacc : p.answer = ansAccept) (hcode : p.code = 67)
    (hrc : Proc.run hstep (readCompressed fuel p) inp h tr = (.done (.ok cdata), rest, h, tr))
    (hlz : lzDecode cdata = none) :
    Proc.run hstep (fetchAll fuel (p :: ps) st) inp h tr = (.done (st, some (undecodableErr cdata)), rest, h, tr) := by
  unfold fetchAll
  have hne : ¬ (p.answer ≠ ansAccept) := by simp [hacc]
  rw [if_neg hne]
  simp only [bind_eq, pure_eq]
  rw [run_bind, hrc]
  have h68 : ¬ (p.code = 68) := by rw [hcode]; decide
  have hb : (p.code != 68) = true := by rw [hcode]; decide
  simp only [h68, if_false, hlz, Proc.bind, Proc.run, hb, Bool.true_and, undecodableErr]
  rfl

end Wl2k.B2F
