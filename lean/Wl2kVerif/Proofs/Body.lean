import Wl2kVerif.Msg.Body
namespace Wl2k.Msg
open Wl2k Wl2k.Utf8

/-- UTF-8 text all of whose characters are ≤ U+00FF ("representable in the body character set"). -/
inductive L1 : Bytes → Prop
  | nil : L1 []
  | ascii (b : UInt8) (t : Bytes) : b < 0x80 → L1 t → L1 (b :: t)
  | two (l c : UInt8) (t : Bytes) : (l = 0xC2 ∨ l = 0xC3) → isCont c = true → L1 t → L1 (l :: c :: t)

def strip (s : Bytes) : Bytes := s.filter (fun b => b != 13 && b != 10)

theorem strip_append (a b : Bytes) : strip (a ++ b) = strip a ++ strip b := by simp [strip]

theorem L1.append {a b : Bytes} (ha : L1 a) (hb : L1 b) : L1 (a ++ b) := by
  induction ha with
  | nil => simpa
  | ascii b t h _ ih => exact L1.ascii b _ h ih
  | two l c t hl hc _ ih => exact L1.two l c _ hl hc ih

theorem l1_crlf : L1 crlf := L1.ascii 13 _ (by decide) (L1.ascii 10 _ (by decide) L1.nil)

/-! ### toLatin1 on representable text -/

theorem toLatin1_ascii (b : UInt8) (t : Bytes) (h : b < 0x80) : toLatin1 (b :: t) = b :: toLatin1 t := by
  have hb : b.toNat < 128 := by simpa [UInt8.lt_iff_toNat_lt] using h
  simp only [toLatin1, toLatin1S, decodeRune, h, if_true]
  simp only [latin1Byte]
  rw [if_pos (by omega)]
  simp

def twoByte (l c : UInt8) : UInt8 := UInt8.ofNat ((l.toNat % 32) * 64 + c.toNat % 64)

theorem toLatin1_two (l c : UInt8) (t : Bytes) (hl : l = 0xC2 ∨ l = 0xC3) (hc : isCont c = true) :
    toLatin1 (l :: c :: t) = twoByte l c :: toLatin1 t := by
  have hc64 : c.toNat % 64 < 64 := Nat.mod_lt _ (by omega)
  rcases hl with rfl | rfl
  · simp only [toLatin1, toLatin1S, decodeRune, hc]
    simp [latin1Byte, twoByte]
    exact ⟨by omega, by simp [toLatin1S]⟩
  · simp only [toLatin1, toLatin1S, decodeRune, hc]
    simp [latin1Byte, twoByte]
    exact ⟨by omega, by simp [toLatin1S]⟩

theorem twoByte_ge (l c : UInt8) (hl : l = 0xC2 ∨ l = 0xC3) : 128 ≤ (twoByte l c).toNat := by
  have hc64 : c.toNat % 64 < 64 := Nat.mod_lt _ (by omega)
  rcases hl with rfl | rfl <;> simp [twoByte] <;> omega

/-- Translation distributes over a split at a character boundary. -/
theorem toLatin1_append {a : Bytes} (ha : L1 a) (b : Bytes) : toLatin1 (a ++ b) = toLatin1 a ++ toLatin1 b := by
  induction ha with
  | nil => simp [toLatin1, toLatin1S]
  | ascii x t h _ ih => simp [toLatin1_ascii _ _ h, ih]
  | two l c t hl hc _ ih =>
    rw [List.cons_append, List.cons_append, toLatin1_two _ _ _ hl hc, toLatin1_two _ _ _ hl hc, ih]; simp

theorem toLatin1_length {a : Bytes} (ha : L1 a) : (toLatin1 a).length ≤ a.length := by
  induction ha with
  | nil => simp [toLatin1, toLatin1S]
  | ascii x t h _ ih => simp [toLatin1_ascii _ _ h]; omega
  | two l c t hl hc _ ih => simp [toLatin1_two _ _ _ hl hc]; omega

/-- Removing CR/LF commutes with translation on representable text. -/
theorem strip_toLatin1 {a : Bytes} (ha : L1 a) : strip (toLatin1 a) = toLatin1 (strip a) ∧ L1 (strip a) := by
  induction ha with
  | nil => simp [toLatin1, toLatin1S, strip]; exact L1.nil
  | ascii x t h _ ih =>
    rw [toLatin1_ascii _ _ h]
    by_cases hx : (x != 13 && x != 10) = true
    · have e1 : strip (x :: toLatin1 t) = x :: strip (toLatin1 t) := by simp [strip, hx]
      have e2 : strip (x :: t) = x :: strip t := by simp [strip, hx]
      rw [e1, e2, toLatin1_ascii _ _ h, ih.1]
      exact ⟨rfl, L1.ascii _ _ h ih.2⟩
    · have e1 : strip (x :: toLatin1 t) = strip (toLatin1 t) := by simp [strip, hx]
      have e2 : strip (x :: t) = strip t := by simp [strip, hx]
      rw [e1, e2]; exact ih
  | two l c t hl hc _ ih =>
    rw [toLatin1_two _ _ _ hl hc]
    have hge := twoByte_ge l c hl
    have k1 : (twoByte l c != 13 && twoByte l c != 10) = true := by
      simp only [Bool.and_eq_true, bne_iff_ne, ne_eq]
      constructor <;> intro h <;> rw [h] at hge <;> simp at hge
    have k2 : (l != 13 && l != 10) = true := by rcases hl with rfl | rfl <;> decide
    have k3 : (c != 13 && c != 10) = true := by
      simp only [isCont, Bool.and_eq_true, decide_eq_true_eq] at hc
      simp only [Bool.and_eq_true, bne_iff_ne, ne_eq]
      constructor <;> intro h <;> rw [h] at hc <;> simp at hc
    have e1 : strip (twoByte l c :: toLatin1 t) = twoByte l c :: strip (toLatin1 t) := by
      simp [strip, k1]
    have e2 : strip (l :: c :: t) = l :: c :: strip t := by simp [strip, k2, k3]
    rw [e1, e2, toLatin1_two _ _ _ hl hc, ih.1]
    exact ⟨rfl, L1.two _ _ _ hl hc ih.2⟩

/-- Translation neither creates nor destroys LF on representable text. -/
theorem lf_toLatin1 {a : Bytes} (ha : L1 a) (h : (10 : UInt8) ∉ a) : (10 : UInt8) ∉ toLatin1 a := by
  induction ha with
  | nil => simp [toLatin1, toLatin1S]
  | ascii x t hx _ ih =>
    rw [toLatin1_ascii _ _ hx]
    simp only [List.mem_cons, not_or] at h ⊢
    exact ⟨h.1, ih h.2⟩
  | two l c t hl hc _ ih =>
    rw [toLatin1_two _ _ _ hl hc]
    simp only [List.mem_cons, not_or] at h ⊢
    refine ⟨?_, ih h.2.2⟩
    intro e
    have := twoByte_ge l c hl
    rw [← e] at this; simp at this

/-! ### Splitting representable text at a character start -/

theorem L1.split {s : Bytes} (hs : L1 s) :
    ∀ n, (s.length ≤ n ∨ runeStart (s.getD n 0) = true) → L1 (s.take n) ∧ L1 (s.drop n) := by
  induction hs with
  | nil => intro n _; simp; exact L1.nil
  | ascii b t hb ht ih =>
    intro n hn
    cases n with
    | zero => simp; exact ⟨L1.nil, L1.ascii b t hb ht⟩
    | succ k =>
      have := ih k (by
        rcases hn with h | h
        · left; simp at h; omega
        · right; simpa using h)
      simp; exact ⟨L1.ascii b _ hb this.1, this.2⟩
  | two l c t hl hc ht ih =>
    intro n hn
    cases n with
    | zero => simp; exact ⟨L1.nil, L1.two l c t hl hc ht⟩
    | succ k =>
      cases k with
      | zero =>
        exfalso
        rcases hn with h | h
        · simp at h
        · simp [runeStart, hc] at h
      | succ j =>
        have := ih j (by
          rcases hn with h | h
          · left; simp at h; omega
          · right; simpa using h)
        simp; exact ⟨L1.two l c _ hl hc this.1, this.2⟩

/-- In representable text, of any two adjacent bytes at least one starts a character. -/
theorem L1.start_near {s : Bytes} (hs : L1 s) :
    ∀ n, n + 1 < s.length → runeStart (s.getD n 0) = true ∨ runeStart (s.getD (n + 1) 0) = true := by
  induction hs with
  | nil => intro n h; simp at h
  | ascii b t hb ht ih =>
    intro n hn
    cases n with
    | zero =>
      left
      have hb' : b.toNat < 128 := by simpa [UInt8.lt_iff_toNat_lt] using hb
      simp only [List.getD_cons_zero, runeStart, isCont, Bool.not_eq_true', Bool.and_eq_false_iff, decide_eq_false_iff_not,
        UInt8.le_iff_toNat_le]
      left; simp; omega
    | succ k =>
      have := ih k (by simp at hn; omega)
      simpa using this
  | two l c t hl hc ht ih =>
    intro n hn
    cases n with
    | zero => left; rcases hl with rfl | rfl <;> simp [runeStart, isCont]
    | succ k =>
      cases k with
      | zero =>
        -- position 1 is the continuation byte, position 2 starts the next character (if any)
        right
        simp only [List.length_cons] at hn
        cases ht with
        | nil => simp at hn
        | ascii b t' hb _ =>
          have hb' : b.toNat < 128 := by simpa [UInt8.lt_iff_toNat_lt] using hb
          simp only [List.getD_cons_succ, List.getD_cons_zero, runeStart, isCont, Bool.not_eq_true', Bool.and_eq_false_iff,
            decide_eq_false_iff_not, UInt8.le_iff_toNat_le]
          left; simp; omega
        | two l' c' t' hl' _ _ => rcases hl' with rfl | rfl <;> simp [runeStart, isCont]
      | succ j =>
        have := ih j (by simp at hn; omega)
        simpa using this

/-! ### wrapLen / wrap -/

theorem wrapLen_spec {line : Bytes} (hL : L1 line) :
    wrapLen line 998 ≤ 998 ∧ wrapLen line 998 ≤ line.length ∧
    (998 < line.length → 995 ≤ wrapLen line 998) ∧
    (line.length ≤ wrapLen line 998 ∨ runeStart (line.getD (wrapLen line 998) 0) = true) := by
  unfold wrapLen
  by_cases h : line.length ≤ 998
  · simp [h]; omega
  · simp only [h, if_false]
    have hn := hL.start_near 997 (by omega)
    simp only [wrapLenLoop]
    simp only [List.getD_eq_getElem?_getD] at hn ⊢
    by_cases h998 : runeStart (line[998]?.getD 0) = true
    · simp only [h998]; simp [h998]; omega
    · have h997 : runeStart (line[997]?.getD 0) = true := by
        rcases hn with h' | h'
        · exact h'
        · exact absurd h' h998
      simp only [h998, h997]; simp [h997]; omega

theorem wrapAux_spec : ∀ (f : Nat) (line : Bytes), L1 line → line.length < f →
    (∀ p ∈ wrapAux 998 f line, L1 p ∧ p.length ≤ 998) ∧ (wrapAux 998 f line).flatten = line := by
  intro f
  induction f with
  | zero => intro line _ h; omega
  | succ f ih =>
    intro line hL hlen
    have hw := wrapLen_spec hL
    have hsplit := hL.split (wrapLen line 998) hw.2.2.2
    simp only [wrapAux]
    by_cases hr : (line.drop (wrapLen line 998)).isEmpty = true
    · simp only [hr, if_true]
      constructor
      · intro p hp
        simp only [List.mem_singleton] at hp
        subst hp
        exact ⟨hsplit.1, by simp; omega⟩
      · have : line.drop (wrapLen line 998) = [] := by simpa using hr
        have h2 := List.take_append_drop (wrapLen line 998) line
        rw [this] at h2
        simpa using h2
    · simp only [hr]
      have hlong : 998 < line.length := by
        apply Nat.lt_of_not_le
        intro hle
        apply hr
        have : wrapLen line 998 = line.length := by unfold wrapLen; simp [hle]
        simp [this]
      have hprog := hw.2.2.1 hlong
      have hrec := ih (line.drop (wrapLen line 998)) hsplit.2 (by simp; omega)
      constructor
      · intro p hp
        simp only [Bool.false_eq_true, if_false, List.mem_cons] at hp
        rcases hp with hp | hp
        · subst hp; exact ⟨hsplit.1, by simp; omega⟩
        · exact hrec.1 p hp
      · simp only [Bool.false_eq_true, if_false, List.flatten_cons, hrec.2]
        exact List.take_append_drop _ _

theorem wrap_spec {line : Bytes} (hL : L1 line) :
    (∀ p ∈ wrap 998 line, L1 p ∧ p.length ≤ 998) ∧ (wrap 998 line).flatten = line :=
  wrapAux_spec _ line hL (by omega)

theorem mem_of_mem_flatten_eq {ps : List Bytes} {line : Bytes} (h : ps.flatten = line) {x : UInt8} {p : Bytes}
    (hp : p ∈ ps) (hx : x ∈ p) : x ∈ line := by
  rw [← h]; exact List.mem_flatten.mpr ⟨p, hp, hx⟩

/-! ### ScanLines -/

theorem L1.of_append_singleton {a : Bytes} {b : UInt8} (hb : runeStart b = true) (h : L1 (a ++ [b])) : L1 a := by
  have := h.split a.length (by right; simp [hb])
  simpa using this.1

theorem dropCRrev_spec (cur : Bytes) (hL : L1 cur.reverse) (hlf : (10 : UInt8) ∉ cur) :
    L1 (dropCRrev cur) ∧ (10 : UInt8) ∉ dropCRrev cur ∧ strip (dropCRrev cur) = strip cur.reverse := by
  unfold dropCRrev
  split
  · rename_i r
    simp only [List.reverse_cons] at hL
    refine ⟨L1.of_append_singleton (by decide) hL, ?_, ?_⟩
    · simp only [List.mem_cons, not_or] at hlf; simpa using hlf.2
    · simp [strip]
  · exact ⟨hL, by simpa using hlf, rfl⟩

theorem scanLinesS_spec : ∀ (s cur : Bytes), L1 (cur.reverse ++ s) → (10 : UInt8) ∉ cur →
    (∀ l ∈ scanLinesS cur s, L1 l ∧ (10 : UInt8) ∉ l) ∧
    (scanLinesS cur s).flatMap strip = strip (cur.reverse ++ s) := by
  intro s
  induction s with
  | nil =>
    intro cur hL hlf
    simp only [List.append_nil] at hL
    simp only [scanLinesS]
    by_cases hc : cur.isEmpty = true
    · have : cur = [] := by simpa using hc
      subst this; simp [strip]
    · have hd := dropCRrev_spec cur hL hlf
      simp only [hc]
      simp only [Bool.false_eq_true, if_false, List.mem_singleton, forall_eq, List.flatMap_cons, List.flatMap_nil,
        List.append_nil]
      exact ⟨⟨hd.1, hd.2.1⟩, hd.2.2⟩
  | cons b t ih =>
    intro cur hL hlf
    simp only [scanLinesS]
    by_cases hb : b = 10
    · subst hb
      simp only [if_true]
      have hsp := hL.split cur.reverse.length (by right; simp [runeStart, isCont])
      simp only [List.take_left', List.drop_left'] at hsp
      have hLt : L1 t := by
        cases hsp.2 with
        | ascii _ _ _ h => exact h
        | two _ _ _ hl _ _ => rcases hl with h | h <;> simp at h
      have hd := dropCRrev_spec cur hsp.1 hlf
      have hrec := ih [] (by simpa using hLt) (by simp)
      constructor
      · intro l hl
        simp only [List.mem_cons] at hl
        rcases hl with hl | hl
        · subst hl; exact ⟨hd.1, hd.2.1⟩
        · exact hrec.1 l hl
      · simp only [List.flatMap_cons, hrec.2, hd.2.2, strip_append]
        simp [strip]
    · simp only [hb, if_false]
      have hrec := ih (b :: cur) (by simpa using hL) (by
        simp only [List.mem_cons, not_or]; exact ⟨fun h => hb h.symm, hlf⟩)
      constructor
      · exact hrec.1
      · rw [hrec.2]; simp

theorem scanLines_spec {s : Bytes} (hL : L1 s) :
    (∀ l ∈ scanLines s, L1 l ∧ (10 : UInt8) ∉ l) ∧ (scanLines s).flatMap strip = strip s := by
  have := scanLinesS_spec s [] (by simpa using hL) (by simp)
  simpa [scanLines] using this

/-! ### Representable text really is `L1`, and `toLatin1` is the ISO-8859-1 translation on it -/

theorem l1_encode (r : Nat) (h : r < 256) (t : Bytes) (ht : L1 t) : L1 (encodeRune r ++ t) := by
  unfold encodeRune
  have h1 : ¬ (r > 0x10FFFF ∨ (0xD800 ≤ r ∧ r ≤ 0xDFFF)) := by omega
  simp only [h1, if_false]
  by_cases h80 : r < 0x80
  · simp only [h80, if_true, List.cons_append, List.nil_append]
    exact L1.ascii _ _ (by simp [UInt8.lt_iff_toNat_lt]; omega) ht
  · simp only [h80, if_false, show r < 0x800 by omega, if_true, List.cons_append, List.nil_append]
    refine L1.two _ _ _ ?_ ?_ ht
    · have : r / 64 = 2 ∨ r / 64 = 3 := by omega
      rcases this with e | e <;> rw [e] <;> simp
    · have : r % 64 < 64 := Nat.mod_lt _ (by omega)
      simp [isCont, UInt8.le_iff_toNat_le]; omega

theorem l1_of_runes (rs : List Nat) (h : ∀ r ∈ rs, r < 256) : L1 (rs.flatMap encodeRune) := by
  induction rs with
  | nil => exact L1.nil
  | cons r t ih =>
    simp only [List.flatMap_cons]
    exact l1_encode r (h r (by simp)) _ (ih (fun x hx => h x (by simp [hx])))

end Wl2k.Msg
