import Wl2kVerif.Proofs.MboxPath
import Wl2kVerif.Mbox.Spec
/-
Simulation proof for property C10: the DirHandler model over the abstract file system refines the
reference mailbox model. Representation invariant `Good`: the files are exactly the images of a list of
(folder, message) entries with storable MIDs and distinct (folder, MID) keys; directories are the four
folder directories. The abstraction `absF` reads a folder off the entries (without X-FilePath).
-/
namespace Wl2k.Mbox
open Wl2k Wl2k.Str Wl2k.Path

theorem validMID_spec {mid : Bytes} (h : validMID mid = true) :
    mid ≠ [] ∧ mid.head? ≠ some 46 ∧ (47 : UInt8) ∉ mid := by
  unfold validMID at h
  simp only [Bool.and_eq_true, decide_eq_true_eq, bne_iff_ne, ne_eq, Bool.not_eq_true',
    List.any_eq_false, Bool.or_eq_true, not_or] at h
  refine ⟨h.1.1, h.1.2, ?_⟩
  intro hm
  exact (h.2 47 hm).1.1 rfl

theorem elem_of_head {n : Bytes} (h1 : n ≠ []) (h2 : n.head? ≠ some 46) (h3 : (47 : UInt8) ∉ n) : Elem n := by
  refine ⟨h1, h3, ?_, ?_⟩ <;> (intro e; subst e; simp at h2)

theorem elem_name {mid : Bytes} (h : validMID mid = true) : Elem (mid ++ ext) := by
  obtain ⟨h1, h2, h3⟩ := validMID_spec h
  apply elem_of_head
  · simp [h1]
  · cases mid with
    | nil => exact absurd rfl h1
    | cons a t => simpa using h2
  · simp [h3, ext]

theorem elem_tmp {n : Bytes} (h : Elem n) (hh : n.head? ≠ some 46) : Elem (n ++ tmpExt) := by
  apply elem_of_head
  · simp [h.1]
  · cases n with
    | nil => exact absurd rfl h.1
    | cons a t => simpa using hh
  · simp [h.2.1, tmpExt]

theorem ext_append_b2f (mid : Bytes) : Path.ext (mid ++ ext) = ext := by
  simp [Path.ext, ext, List.takeWhile]

theorem visible_name {mid : Bytes} (h : validMID mid = true) : visibleName (mid ++ ext) = true := by
  obtain ⟨h1, h2, _⟩ := validMID_spec h
  unfold visibleName
  rw [ext_append_b2f]
  cases mid with
  | nil => exact absurd rfl h1
  | cons a t =>
    have : a ≠ 46 := by simpa using h2
    simp [this, Path.equalFoldAscii]

theorem invisible_tmp (n : Bytes) : visibleName (n ++ tmpExt) = false := by
  have : Path.ext (n ++ tmpExt) = tmpExt := by simp [Path.ext, tmpExt, List.takeWhile]
  unfold visibleName
  rw [this]
  have : Path.equalFoldAscii tmpExt ext = false := by decide
  simp [this]

theorem name_ne_tmp (a b : Bytes) : a ++ ext ≠ b ++ tmpExt := by
  intro h
  have := congrArg List.getLast? h
  simp [ext, tmpExt] at this

theorem name_inj {a b : Bytes} (h : a ++ ext = b ++ ext) : a = b := List.append_cancel_right h


/-! ### The representation invariant -/

structure Entry where
  f : Folder
  m : Msg

def Entry.path (root : FPath) (e : Entry) : FPath := fp root e.f (e.m.mid ++ ext)
def Entry.key (e : Entry) : Folder × Bytes := (e.f, e.m.mid)
def encE (C : Codec) (root : FPath) (e : Entry) : FPath × Bytes := (e.path root, C.ser e.m)

structure Good (C : Codec) (root : FPath) (fs : FS) (es : List Entry) : Prop where
  files : fs.files = es.map (encE C root)
  valid : ∀ e ∈ es, storable e.m.mid = true
  nodup : (es.map Entry.key).Nodup
  dirs : ∀ d ∈ fs.dirs, ∃ f, d = dp root f

def absF (es : List Entry) (f : Folder) : List Msg :=
  es.filterMap fun e => if e.f = f then some e.m.erasePath else none

def insertE (e : Entry) (es : List Entry) : List Entry := e :: es.filter (fun x => x.key ≠ e.key)
def eraseE (k : Folder × Bytes) (es : List Entry) : List Entry := es.filter (fun x => x.key ≠ k)

theorem path_eq_iff (root : FPath) (x e : Entry) : x.path root = e.path root ↔ x.key = e.key := by
  unfold Entry.path Entry.key
  constructor
  · intro h
    obtain ⟨h1, h2⟩ := fp_inj _ _ _ _ _ h
    rw [h1, name_inj h2]
  · intro h
    simp only [Prod.mk.injEq] at h
    rw [h.1, h.2]

theorem path_eq_fp_iff (root : FPath) (x : Entry) (f : Folder) (mid : Bytes) :
    x.path root = fp root f (mid ++ ext) ↔ x.key = (f, mid) :=
  path_eq_iff root x ⟨f, ⟨mid, [], none, none, none, 0⟩⟩

theorem files_filter {C : Codec} {root : FPath} (es : List Entry) (f : Folder) (mid : Bytes) :
    (es.map (encE C root)).filter (fun x => x.1 ≠ fp root f (mid ++ ext)) =
      (eraseE (f, mid) es).map (encE C root) := by
  unfold eraseE
  rw [List.filter_map]
  congr 1
  apply List.filter_congr
  intro x _
  simp only [Function.comp, encE, ne_eq, decide_not, path_eq_fp_iff]

theorem files_setFile {C : Codec} {root : FPath} {fs : FS} {es : List Entry} (g : Good C root fs es) (e : Entry) :
    (fs.setFile (e.path root) (C.ser e.m)).files = (insertE e es).map (encE C root) := by
  have := files_filter (C := C) (root := root) es e.f e.m.mid
  unfold FS.setFile insertE
  simp only [List.map_cons, g.files]
  unfold eraseE at this
  rw [show fp root e.f (e.m.mid ++ ext) = e.path root from rfl] at this
  rw [this]
  rfl

theorem filterMap_congr' {α β} {f g : α → Option β} {l : List α} (h : ∀ x ∈ l, f x = g x) :
    l.filterMap f = l.filterMap g := by
  induction l with
  | nil => rfl
  | cons a t ih =>
    rw [List.filterMap_cons, List.filterMap_cons, h a (by simp), ih (fun x hx => h x (by simp [hx]))]

theorem absF_eraseE_other (es : List Entry) (k : Folder × Bytes) (g : Folder) (h : g ≠ k.1) :
    absF (eraseE k es) g = absF es g := by
  unfold absF eraseE
  rw [List.filterMap_filter]
  apply filterMap_congr'
  intro x _
  by_cases hf : x.f = g
  · have : x.key ≠ k := by
      intro e; apply h; rw [← e, ← hf]; rfl
    simp [hf, this]
  · simp [hf]

theorem absF_eraseE_same (es : List Entry) (f : Folder) (mid : Bytes) :
    absF (eraseE (f, mid) es) f = (absF es f).filter (·.mid ≠ mid) := by
  unfold absF eraseE
  rw [List.filterMap_filter, List.filter_filterMap]
  apply filterMap_congr'
  intro x _
  by_cases hf : x.f = f <;> by_cases hm : x.m.mid = mid <;> simp [Entry.key, hf, hm, Msg.erasePath, Option.filter]

theorem absF_insertE (e : Entry) (es : List Entry) (g : Folder) :
    absF (insertE e es) g = if g = e.f then insertMsg e.m.erasePath (absF es g) else absF es g := by
  have hcons : absF (insertE e es) g =
      (if e.f = g then [e.m.erasePath] else []) ++ absF (eraseE e.key es) g := by
    unfold insertE absF eraseE
    by_cases h : e.f = g <;> simp [h]
  rw [hcons]
  by_cases h : g = e.f
  · subst h
    simp only [if_true]
    have : e.key = (e.f, e.m.mid) := rfl
    rw [this, absF_eraseE_same]
    simp only [insertMsg, Msg.erasePath, List.singleton_append]
    congr 1
  · have h' : ¬ e.f = g := fun x => h x.symm
    simp only [h, h', if_false, List.nil_append]
    exact absF_eraseE_other es e.key g h

theorem good_insertE {C : Codec} {root : FPath} {fs : FS} {es : List Entry} (g : Good C root fs es) (e : Entry)
    (hv : storable e.m.mid = true) (fs' : FS) (hf : fs'.files = (fs.setFile (e.path root) (C.ser e.m)).files)
    (hd : fs'.dirs = fs.dirs) : Good C root fs' (insertE e es) := by
  refine ⟨by rw [hf, files_setFile g], ?_, ?_, by rw [hd]; exact g.dirs⟩
  · intro x hx
    simp only [insertE, List.mem_cons, List.mem_filter] at hx
    rcases hx with rfl | ⟨hx, _⟩
    · exact hv
    · exact g.valid x hx
  · simp only [insertE, List.map_cons, List.nodup_cons]
    constructor
    · intro hm
      simp only [List.mem_map, List.mem_filter] at hm
      obtain ⟨x, ⟨_, hne⟩, hk⟩ := hm
      simp at hne
      exact hne hk
    · exact (g.nodup.sublist (List.Sublist.map _ List.filter_sublist))


/-! ### Sorting -/

theorem insertBy_map {α β} (f : α → β) (le' : β → β → Bool) (x : α) (l : List α) :
    (insertBy (fun a b => le' (f a) (f b)) x l).map f = insertBy le' (f x) (l.map f) := by
  induction l with
  | nil => rfl
  | cons y t ih =>
    simp only [insertBy, List.map_cons]
    split <;> simp [ih]

theorem isort_map {α β} (f : α → β) (le' : β → β → Bool) (l : List α) :
    (isort (fun a b => le' (f a) (f b)) l).map f = isort le' (l.map f) := by
  induction l with
  | nil => rfl
  | cons y t ih => simp only [isort, List.map_cons, insertBy_map, ih]

theorem mem_insertBy {α} (le : α → α → Bool) (x y : α) (l : List α) : y ∈ insertBy le x l ↔ y = x ∨ y ∈ l := by
  induction l with
  | nil => simp [insertBy]
  | cons z t ih =>
    simp only [insertBy]
    split
    · simp
    · simp only [List.mem_cons, ih]
      constructor
      · rintro (h | h | h)
        · exact Or.inr (Or.inl h)
        · exact Or.inl h
        · exact Or.inr (Or.inr h)
      · rintro (h | h | h)
        · exact Or.inr (Or.inl h)
        · exact Or.inl h
        · exact Or.inr (Or.inr h)

theorem mem_isort {α} (le : α → α → Bool) (y : α) (l : List α) : y ∈ isort le l ↔ y ∈ l := by
  induction l with
  | nil => simp [isort]
  | cons z t ih => simp [isort, mem_insertBy, ih]

/-! ### Reading a good file system -/

def foldE (es : List Entry) (f : Folder) : List Entry := es.filter (·.f = f)

def Entry.name (e : Entry) : Bytes := e.m.mid ++ ext

theorem absF_eq_map (es : List Entry) (f : Folder) : absF es f = (foldE es f).map (·.m.erasePath) := by
  unfold absF foldE
  induction es with
  | nil => rfl
  | cons x t ih => by_cases h : x.f = f <;> simp [h, ih]

theorem find?_congr' {α} {p q : α → Bool} {l : List α} (h : ∀ x ∈ l, p x = q x) : l.find? p = l.find? q := by
  induction l with
  | nil => rfl
  | cons a t ih =>
    simp only [List.find?_cons, h a (by simp), ih (fun x hx => h x (by simp [hx]))]

theorem lookup_fp {C : Codec} {root : FPath} {fs : FS} {es : List Entry} (g : Good C root fs es)
    (f : Folder) (mid : Bytes) :
    fs.lookup (fp root f (mid ++ ext)) = (es.find? (fun x => x.key = (f, mid))).map (fun x => C.ser x.m) := by
  unfold FS.lookup
  rw [g.files, List.find?_map, Option.map_map]
  have : es.find? ((fun x : FPath × Bytes => decide (x.1 = fp root f (mid ++ ext))) ∘ encE C root) =
      es.find? (fun x => x.key = (f, mid)) := by
    apply find?_congr'
    intro x _
    simp only [Function.comp, encE, path_eq_fp_iff]
  rw [this]
  rfl

theorem find?_key_mem {es : List Entry} (hn : (es.map Entry.key).Nodup) {e : Entry} (he : e ∈ es) :
    es.find? (fun x => x.key = e.key) = some e := by
  induction es with
  | nil => simp at he
  | cons a t ih =>
    simp only [List.map_cons, List.nodup_cons] at hn
    simp only [List.mem_cons] at he
    by_cases hk : a.key = e.key
    · rcases he with rfl | he
      · simp
      · exfalso; apply hn.1; rw [hk]; exact List.mem_map_of_mem he
    · rcases he with rfl | he
      · exact absurd rfl hk
      · simp only [List.find?_cons, hk, decide_false]
        exact ih hn.2 he

theorem lookup_entry {C : Codec} {root : FPath} {fs : FS} {es : List Entry} (g : Good C root fs es)
    {e : Entry} (he : e ∈ es) : fs.lookup (e.path root) = some (C.ser e.m) := by
  have := lookup_fp g e.f e.m.mid
  rw [show fp root e.f (e.m.mid ++ ext) = e.path root from rfl] at this
  rw [this, show ((e.f, e.m.mid) : Folder × Bytes) = e.key from rfl, find?_key_mem g.nodup he]
  rfl

theorem isFile_fp {C : Codec} {root : FPath} {fs : FS} {es : List Entry} (g : Good C root fs es)
    (f : Folder) (mid : Bytes) :
    fs.isFile (fp root f (mid ++ ext)) = es.any (fun x => x.key = (f, mid)) := by
  unfold FS.isFile
  rw [g.files, List.any_map]
  congr 1
  funext x
  simp only [Function.comp, encE, path_eq_fp_iff]

theorem storable_valid {mid : Bytes} (h : storable mid = true) : validMID mid = true := by
  unfold storable at h; simp only [Bool.and_eq_true] at h; exact h.1

theorem parentOf_dp {root : FPath} (hr : root ≠ []) (f : Folder) : parentOf (dp root f) = root := by
  unfold parentOf dp
  rw [pathSplit_append _ _ (Folder.name_elem f).2.1]
  have h1 : root ++ [47] ≠ [] := by simp
  have h2 : root ++ [47] ≠ [47] := by
    intro h; have := congrArg List.length h
    cases root with
    | nil => exact hr rfl
    | cons a t => simp at this
  simp [h1, h2]

theorem root_ne_dp (root : FPath) (f : Folder) : root ≠ dp root f := by
  intro h; have := congrArg List.length h; simp [dp] at this

/-- The entries `ReadDir` returns for a folder. -/
def entsOf (C : Codec) (es : List Entry) (f : Folder) : List (Bytes × Option Bytes) :=
  (foldE es f).map fun e => (e.name, some (C.ser e.m))

theorem isDir_dp {C : Codec} {root : FPath} {fs : FS} {es : List Entry} (g : Good C root fs es) (f : Folder) :
    fs.isDir (dp root f) = fs.dirs.contains (dp root f) := by
  unfold FS.isDir
  have h1 : dp root f ≠ [47] := by
    intro h; have := congrArg List.getLast? h
    cases f <;> simp [dp, Folder.name] at this
  have h2 : dp root f ≠ [46] := by
    intro h; have := congrArg List.getLast? h
    cases f <;> simp [dp, Folder.name] at this
  simp [h1, h2]

theorem readDir_dp {C : Codec} {root : FPath} {fs : FS} {es : List Entry} (g : Good C root fs es)
    (hr : root ≠ []) (f : Folder) (hd : dp root f ∈ fs.dirs) :
    fs.readDir (dp root f) = some (entsOf C es f) := by
  unfold FS.readDir
  rw [isDir_dp g f]
  have : fs.dirs.contains (dp root f) = true := by simpa using hd
  simp only [this, Bool.not_true, Bool.false_eq_true, if_false, Option.some.injEq]
  have hdirs : fs.dirs.filterMap (fun q => if parentOf q = dp root f ∧ q ≠ dp root f ∧ baseOf q ≠ [] then some (baseOf q, (none : Option Bytes)) else none) = [] := by
    rw [List.filterMap_eq_nil_iff]
    intro q hq
    obtain ⟨f', rfl⟩ := g.dirs q hq
    rw [parentOf_dp hr]
    simp [root_ne_dp]
  rw [hdirs, List.append_nil, g.files, List.filterMap_map]
  unfold entsOf foldE
  rw [← List.filterMap_eq_map', List.filterMap_filter]
  apply filterMap_congr'
  intro x hx
  have hv := storable_valid (g.valid x hx)
  have he := elem_name hv
  obtain ⟨hp, hb⟩ := parentOf_fp root x.f (x.m.mid ++ ext) he.2.1
  simp only [Function.comp, encE, Entry.path, hp, hb]
  by_cases hf : x.f = f
  · subst hf; simp [he.1, Entry.name]
  · have : dp root x.f ≠ dp root f := fun h => hf (dp_inj _ _ _ h)
    simp [this, hf]


/-! ### Listings -/

def leE (a b : Entry) : Bool := bytesLe a.name b.name
def sortedE (es : List Entry) (f : Folder) : List Entry := isort leE (foldE es f)

theorem mem_sortedE {es : List Entry} {f : Folder} {e : Entry} : e ∈ sortedE es f ↔ e ∈ es ∧ e.f = f := by
  unfold sortedE foldE
  rw [mem_isort]; simp

theorem loadAll_map {C : Codec} {root : FPath} {fs : FS} {es : List Entry} (hl : C.Lawful)
    (hr : NormalRoot root) (g : Good C root fs es) (f : Folder) (S : List Entry)
    (h : ∀ e ∈ S, e ∈ es ∧ e.f = f) :
    loadAll C fs (dp root f) (S.map Entry.name) = some (S.map fun e => e.m.setFilePath (e.path root)) := by
  induction S with
  | nil => rfl
  | cons e t ih =>
    obtain ⟨he, hf⟩ := h e (by simp)
    have hel := elem_name (storable_valid (g.valid e he))
    have hp : Path.join [dp root f, e.name] = e.path root := by
      rw [join_dp hr f e.name hel, ← hf]; rfl
    simp only [List.map_cons, loadAll, openMessage, hp, lookup_entry g he, Option.bind_some, hl.parse_ser,
      Option.map_some, ih (fun x hx => h x (by simp [hx]))]

theorem load_dp {C : Codec} {root : FPath} {fs : FS} {es : List Entry} (hl : C.Lawful)
    (hr : NormalRoot root) (g : Good C root fs es) (f : Folder) (hd : dp root f ∈ fs.dirs) :
    loadMessageDir C fs (dp root f) = some ((sortedE es f).map fun e => e.m.setFilePath (e.path root)) := by
  unfold loadMessageDir
  rw [readDir_dp g hr.ne_nil f hd]
  have hnames : (entsOf C es f).filterMap (fun (x : Bytes × Option Bytes) =>
      if x.2.isSome ∧ visibleName x.1 then some x.1 else none) = (foldE es f).map Entry.name := by
    unfold entsOf
    rw [List.filterMap_map, ← List.filterMap_eq_map']
    apply filterMap_congr'
    intro x hx
    have hx' : x ∈ es := (List.mem_filter.mp hx).1
    have := visible_name (storable_valid (g.valid x hx'))
    simp [Entry.name, this]
  simp only [hnames]
  have : isort bytesLe ((foldE es f).map Entry.name) = (sortedE es f).map Entry.name := by
    unfold sortedE leE
    rw [isort_map]
  rw [this]
  exact loadAll_map hl hr g f _ (fun e he => mem_sortedE.mp he)

theorem load_nodir {C : Codec} {root : FPath} {fs : FS} {es : List Entry} (g : Good C root fs es)
    (f : Folder) (hd : dp root f ∉ fs.dirs) : loadMessageDir C fs (dp root f) = none := by
  unfold loadMessageDir FS.readDir
  rw [isDir_dp g f]
  have : fs.dirs.contains (dp root f) = false := by simpa using hd
  simp [hd]

theorem listing_absF (es : List Entry) (f : Folder) :
    listing (absF es f) = (sortedE es f).map (·.m.erasePath) := by
  unfold listing sortedE
  rw [absF_eq_map, ← isort_map]
  rfl


/-! ### Writing -/

theorem fp_tmp (root : FPath) (f : Folder) (n : Bytes) : fp root f n ++ tmpExt = fp root f (n ++ tmpExt) := by
  simp [fp]

theorem isDir_fp_false {C : Codec} {root : FPath} {fs : FS} {es : List Entry} (g : Good C root fs es)
    (f : Folder) (n : Bytes) : fs.isDir (fp root f n) = false := by
  unfold FS.isDir
  have h1 : fp root f n ≠ [47] := by
    intro h; have := congrArg List.length h; simp [fp] at this; omega
  have h2 : fp root f n ≠ [46] := by
    intro h; have := congrArg List.length h; simp [fp] at this; omega
  have h3 : fp root f n ∉ fs.dirs := by
    intro hm
    obtain ⟨f', hf'⟩ := g.dirs _ hm
    exact fp_ne_dp _ _ _ _ hf'
  simp [h1, h2, h3]

theorem no_tmp_file {C : Codec} {root : FPath} {fs : FS} {es : List Entry} (g : Good C root fs es)
    (f : Folder) (n : Bytes) : fs.files.filter (fun x => x.1 ≠ fp root f (n ++ tmpExt)) = fs.files := by
  apply List.filter_eq_self.mpr
  intro x hx
  rw [g.files] at hx
  obtain ⟨e, _, rfl⟩ := List.mem_map.mp hx
  simp only [encE, Entry.path, ne_eq]
  apply decide_eq_true
  intro h
  exact name_ne_tmp _ _ (fp_inj _ _ _ _ _ h).2

theorem storable_len {mid : Bytes} (h : storable mid = true) : mid.length + 8 ≤ 255 := by
  unfold storable at h; simp only [Bool.and_eq_true, nameMax] at h; exact of_decide_eq_true h.2

theorem wfa_ready {C : Codec} {root : FPath} {fs : FS} {es : List Entry} (g : Good C root fs es) (e : Entry)
    (hv : storable e.m.mid = true) (hd : dp root e.f ∈ fs.dirs) :
    ∃ fs', writeFileAtomic fs (e.path root) (C.ser e.m) = (fs', true) ∧
      fs'.files = (fs.setFile (e.path root) (C.ser e.m)).files ∧ fs'.dirs = fs.dirs := by
  have hel := elem_name (storable_valid hv)
  have hv' := validMID_spec (storable_valid hv)
  have hh : (e.m.mid ++ ext).head? ≠ some 46 := by
    cases hm : e.m.mid with
    | nil => exact absurd hm hv'.1
    | cons a t => have := hv'.2.1; rw [hm] at this; simpa using this
  have helt := elem_tmp hel hh
  have hlen := storable_len hv
  have hdir : fs.dirs.contains (dp root e.f) = true := by simpa using hd
  -- step 1: write the temporary file
  have hpt : e.path root ++ tmpExt = fp root e.f (e.m.mid ++ ext ++ tmpExt) := fp_tmp _ _ _
  obtain ⟨hp1, hb1⟩ := parentOf_fp root e.f (e.m.mid ++ ext ++ tmpExt) helt.2.1
  have hc1 : fs.canCreate (e.path root ++ tmpExt) = true := by
    unfold FS.canCreate
    rw [hpt, hp1, hb1, isDir_dp g, hdir, isDir_fp_false g]
    simp [helt.1, nameMax, ext, tmpExt]; omega
  obtain ⟨hp2, hb2⟩ := parentOf_fp root e.f (e.m.mid ++ ext) hel.2.1
  unfold writeFileAtomic FS.writeFile
  rw [hc1]
  simp only [if_true]
  -- step 2: rename
  have hlk : ((fs.setFile (e.path root ++ tmpExt) (C.ser e.m)).touch [e.path root ++ tmpExt]).lookup
      (e.path root ++ tmpExt) = some (C.ser e.m) := by
    simp [FS.lookup, FS.setFile, FS.touch]
  have hc2 : ((fs.setFile (e.path root ++ tmpExt) (C.ser e.m)).touch [e.path root ++ tmpExt]).canCreate
      (e.path root) = true := by
    unfold FS.canCreate
    have hd' : ∀ p, ((fs.setFile (e.path root ++ tmpExt) (C.ser e.m)).touch [e.path root ++ tmpExt]).isDir p
        = fs.isDir p := fun p => rfl
    rw [hd', hd', show e.path root = fp root e.f (e.m.mid ++ ext) from rfl, hp2, hb2, isDir_dp g, hdir,
      isDir_fp_false g]
    simp [hel.1, nameMax, ext]; omega
  unfold FS.rename
  rw [hlk]
  simp only [hc2, if_true]
  refine ⟨_, rfl, ?_, rfl⟩
  simp only [FS.setFile, FS.delFile, FS.touch, List.filter_cons]
  rw [hpt]
  simp only [ne_eq, not_true_eq_false, decide_false, Bool.false_eq_true, if_false, List.filter_filter]
  have := no_tmp_file g e.f (e.m.mid ++ ext)
  congr 1
  rw [← List.filter_filter, List.filter_filter]
  conv => rhs; rw [← this]
  rw [List.filter_filter]
  apply List.filter_congr
  intro x _
  simp [Bool.and_comm]


theorem good_remove_tmp {C : Codec} {root : FPath} {fs : FS} {es : List Entry} (g : Good C root fs es)
    (f : Folder) (n : Bytes) : Good C root (fs.remove (fp root f (n ++ tmpExt))) es := by
  refine ⟨?_, g.valid, g.nodup, g.dirs⟩
  simp only [FS.remove, FS.delFile, FS.touch]
  rw [no_tmp_file g f n]
  exact g.files

theorem wfa_fail {C : Codec} {root : FPath} {fs : FS} {es : List Entry} (g : Good C root fs es)
    (f : Folder) (mid : Bytes) (c : Bytes) (hv : validMID mid = true)
    (h : dp root f ∉ fs.dirs ∨ ¬ mid.length + 8 ≤ 255) :
    writeFileAtomic fs (fp root f (mid ++ ext)) c = (fs.remove (fp root f (mid ++ ext ++ tmpExt)), false) := by
  have hel := elem_name hv
  have hv' := validMID_spec hv
  have hh : (mid ++ ext).head? ≠ some 46 := by
    cases hm : mid with
    | nil => exact absurd hm hv'.1
    | cons a t => have := hv'.2.1; rw [hm] at this; simpa using this
  have helt := elem_tmp hel hh
  obtain ⟨hp1, hb1⟩ := parentOf_fp root f (mid ++ ext ++ tmpExt) helt.2.1
  have hc1 : fs.canCreate (fp root f (mid ++ ext) ++ tmpExt) = false := by
    unfold FS.canCreate
    rw [fp_tmp, hp1, hb1, isDir_dp g]
    rcases h with h | h
    · have : fs.dirs.contains (dp root f) = false := by simpa using h
      rw [this]; rfl
    · have : decide ((mid ++ ext ++ tmpExt).length ≤ nameMax) = false := by
        apply decide_eq_false; simp [nameMax, ext, tmpExt]; omega
      rw [this]; simp
  unfold writeFileAtomic FS.writeFile
  rw [hc1, fp_tmp]
  simp

/-! ### The simulation relation -/

structure Rel (C : Codec) (root : FPath) (d : DState) (s : SState) (es : List Entry) : Prop where
  good : Good C root d.fs es
  abs : ∀ f, s.get f = absF es f
  ready : s.ready = true → ∀ f, dp root f ∈ d.fs.dirs
  notready : s.ready = false → d.fs.dirs = [] ∧ es = []
  deferred : d.h.deferred = s.deferred
  sendOnly : d.h.sendOnly = s.sendOnly
  root : d.h.root = root

theorem Rel.ready_of_mem {C root d s es} (r : Rel C root d s es) {e : Entry} (he : e ∈ es) : s.ready = true := by
  cases h : s.ready with
  | true => rfl
  | false => have := (r.notready h).2; subst this; simp at he

/-- Storing one message file succeeds: the generic step shared by AddOut, ProcessInbound and SetUnread. -/
theorem rel_store_ok {C root d s es} (r : Rel C root d s es) (e : Entry)
    (hst : storable e.m.mid = true) (hrd : s.ready = true) :
    ∃ fs', writeFileAtomic d.fs (e.path root) (C.ser e.m) = (fs', true) ∧
      ∀ s' : SState, (∀ g, s'.get g = if g = e.f then insertMsg e.m.erasePath (s.get g) else s.get g) →
        s'.ready = s.ready → s'.deferred = s.deferred → s'.sendOnly = s.sendOnly →
        Rel C root { d with fs := fs' } s' (insertE e es) := by
  obtain ⟨fs', h1, h2, h3⟩ := wfa_ready r.good e hst (r.ready hrd e.f)
  refine ⟨fs', h1, ?_⟩
  intro s' ha hb hc hd
  refine ⟨good_insertE r.good e hst fs' h2 h3, ?_, ?_, ?_, by rw [hc]; exact r.deferred,
    by rw [hd]; exact r.sendOnly, r.root⟩
  · intro g; rw [ha g, absF_insertE, r.abs g]
  · intro _ f; show dp root f ∈ fs'.dirs; rw [h3]; exact r.ready hrd f
  · intro h; rw [hb, hrd] at h; exact absurd h (by simp)

theorem rel_store_fail {C root d s es} (r : Rel C root d s es) (e : Entry) (hv : validMID e.m.mid = true)
    (h : (storable e.m.mid && s.ready) = false) :
    ∃ fs', writeFileAtomic d.fs (e.path root) (C.ser e.m) = (fs', false) ∧ Rel C root { d with fs := fs' } s es := by
  have hcond : dp root e.f ∉ d.fs.dirs ∨ ¬ e.m.mid.length + 8 ≤ 255 := by
    cases hrd : s.ready with
    | false => left; rw [(r.notready hrd).1]; simp
    | true =>
      right; intro hl
      have : storable e.m.mid = true := by unfold storable; simp [hv, nameMax, hl]
      simp [this, hrd] at h
  have := wfa_fail r.good e.f e.m.mid (C.ser e.m) hv hcond
  exact ⟨_, this, ⟨good_remove_tmp r.good _ _, r.abs, r.ready, r.notready, r.deferred, r.sendOnly, r.root⟩⟩

theorem get_set (s : SState) (f g : Folder) (l : List Msg) :
    (s.set f l).get g = if g = f then l else s.get g := by
  cases f <;> cases g <;> simp [SState.set, SState.get]

def Sim (C : Codec) (root : FPath) (d : DState) (s : SState) (op : Op) : Prop :=
  ∃ es', Rel C root (step C d op).1 (Spec.step s op).1 es' ∧ observe (step C d op).2 = (Spec.step s op).2

theorem sim_newHandler {C root d s es} (r : Rel C root d s es) (so : Bool) : Sim C root d s (.newHandler so) :=
  ⟨es, ⟨r.good, r.abs, r.ready, r.notready, rfl, rfl, r.root⟩, rfl⟩

theorem sim_setDeferred {C root d s es} (r : Rel C root d s es) (mid : Bytes) : Sim C root d s (.setDeferred mid) := by
  unfold Sim
  simp only [step, setDeferred, Spec.step]
  rw [r.deferred]
  cases hd : s.deferred with
  | none => exact ⟨es, r, rfl⟩
  | some l => exact ⟨es, ⟨r.good, r.abs, r.ready, r.notready, rfl, r.sendOnly, r.root⟩, rfl⟩

theorem not_storable_of_invalid {mid : Bytes} (h : validMID mid = false) : storable mid = false := by
  unfold storable; simp [h]

theorem sim_addOut {C root d s es} (hr : NormalRoot root) (r : Rel C root d s es) (m : Msg) :
    Sim C root d s (.addOut m) := by
  unfold Sim
  simp only [step, addOut, Spec.step]
  cases hv : validMID m.mid with
  | false =>
    simp only [Bool.not_false, if_true, not_storable_of_invalid hv, Bool.true_or]
    exact ⟨es, r, rfl⟩
  | true =>
    have hp : msgPath3 d.h.root .outbox m.mid = (Entry.mk .outbox m).path root := by
      rw [r.root]; exact join3_eq hr _ _ (elem_name hv)
    simp only [Bool.not_true, Bool.false_eq_true, if_false, hp]
    cases hok : (storable m.mid && s.ready) with
    | true =>
      simp only [Bool.and_eq_true] at hok
      obtain ⟨fs', h1, h2⟩ := rel_store_ok r ⟨.outbox, m⟩ hok.1 hok.2
      rw [h1]
      simp only [hok.1, hok.2, Bool.not_true, Bool.or_self, Bool.false_eq_true, if_false, if_true]
      exact ⟨_, h2 _ (fun g => by cases g <;> simp [SState.get]) hok.2.symm rfl rfl, rfl⟩
    | false =>
      obtain ⟨fs', h1, h2⟩ := rel_store_fail r ⟨.outbox, m⟩ hv hok
      rw [h1]
      have : (!storable m.mid || !s.ready) = true := by
        cases h1 : storable m.mid <;> cases h2 : s.ready <;> simp_all
      simp only [this, if_true, Bool.false_eq_true, if_false]
      exact ⟨es, h2, rfl⟩

theorem sim_processInbound {C root} (hr : NormalRoot root) (ms : List Msg) :
    ∀ {d s es}, Rel C root d s es →
    ∃ es', Rel C root (processInbound C d ms).1 (Spec.processInbound s ms).1 es' ∧
      observe (processInbound C d ms).2 = (Spec.processInbound s ms).2 := by
  induction ms with
  | nil => intro d s es r; exact ⟨es, r, rfl⟩
  | cons m rest ih =>
    intro d s es r
    simp only [processInbound, Spec.processInbound]
    cases hv : validMID m.mid with
    | false =>
      simp only [Bool.not_false, if_true, not_storable_of_invalid hv, Bool.true_or]
      exact ⟨es, r, rfl⟩
    | true =>
      have hp : msgPath2 d.h.root .inbox (m.mid ++ ext) = (Entry.mk .inbox m.setUnreadHdr).path root := by
        rw [r.root]; exact msgPath2_eq hr _ _ (elem_name hv)
      simp only [Bool.not_true, Bool.false_eq_true, if_false, hp]
      cases hok : (storable m.mid && s.ready) with
      | true =>
        simp only [Bool.and_eq_true] at hok
        obtain ⟨fs', h1, h2⟩ := rel_store_ok r ⟨.inbox, m.setUnreadHdr⟩ hok.1 hok.2
        rw [show C.ser m.setUnreadHdr = C.ser (Entry.mk .inbox m.setUnreadHdr).m from rfl, h1]
        simp only [hok.1, hok.2, Bool.not_true, Bool.or_self, Bool.false_eq_true, if_false, if_true]
        exact ih (h2 _ (fun g => by cases g <;> simp [SState.get]) hok.2.symm rfl rfl)
      | false =>
        obtain ⟨fs', h1, h2⟩ := rel_store_fail r ⟨.inbox, m.setUnreadHdr⟩ hv hok
        rw [show C.ser m.setUnreadHdr = C.ser (Entry.mk .inbox m.setUnreadHdr).m from rfl, h1]
        have : (!storable m.mid || !s.ready) = true := by
          cases h1 : storable m.mid <;> cases h2 : s.ready <;> simp_all
        simp only [this, if_true, Bool.false_eq_true, if_false]
        exact ⟨es, h2, rfl⟩


theorem any_absF (es : List Entry) (f : Folder) (mid : Bytes) :
    (absF es f).any (·.mid = mid) = es.any (fun x => x.key = (f, mid)) := by
  rw [absF_eq_map, List.any_map]
  unfold foldE
  rw [List.any_filter]
  congr 1
  funext x
  by_cases hf : x.f = f <;> by_cases hm : x.m.mid = mid <;> simp [Entry.key, hf, hm, Msg.erasePath]

theorem find?_absF (es : List Entry) (f : Folder) (mid : Bytes) :
    (absF es f).find? (·.mid = mid) = (es.find? (fun x => x.key = (f, mid))).map (·.m.erasePath) := by
  rw [absF_eq_map, List.find?_map]
  unfold foldE
  rw [List.find?_filter]
  congr 2
  funext x
  by_cases hf : x.f = f <;> by_cases hm : x.m.mid = mid <;> simp [Entry.key, hf, hm, Msg.erasePath]

theorem sim_getInboundAnswer {C root d s es} (hr : NormalRoot root) (r : Rel C root d s es) (mid : Bytes) :
    Sim C root d s (.getInboundAnswer mid) := by
  unfold Sim
  simp only [step, getInboundAnswer, Spec.step, observe]
  refine ⟨es, r, ?_⟩
  rw [r.sendOnly]
  cases s.sendOnly with
  | true => rfl
  | false =>
    cases hv : validMID mid with
    | false => rfl
    | true =>
      have hp : msgPath3 d.h.root .inbox mid = fp root .inbox (mid ++ ext) := by
        rw [r.root]; exact join3_eq hr _ _ (elem_name hv)
      have : d.fs.canOpen (fp root .inbox (mid ++ ext)) = s.inbox.any (·.mid = mid) := by
        unfold FS.canOpen
        rw [isDir_fp_false r.good, isFile_fp r.good, Bool.or_false, ← any_absF, ← r.abs]
        rfl
      simp only [hp, this, Bool.false_eq_true, if_false, Bool.not_true]

theorem good_eraseE {C : Codec} {root : FPath} {fs : FS} {es : List Entry} (g : Good C root fs es)
    (f : Folder) (mid : Bytes) (fs' : FS)
    (hf : fs'.files = fs.files.filter (fun x => x.1 ≠ fp root f (mid ++ ext))) (hd : fs'.dirs = fs.dirs) :
    Good C root fs' (eraseE (f, mid) es) := by
  refine ⟨by rw [hf, g.files, files_filter], ?_, ?_, by rw [hd]; exact g.dirs⟩
  · intro x hx; exact g.valid x (List.mem_filter.mp hx).1
  · exact g.nodup.sublist (List.Sublist.map _ List.filter_sublist)

theorem sim_setSent {C root d s es} (hr : NormalRoot root) (r : Rel C root d s es) (mid : Bytes) :
    Sim C root d s (.setSent mid) := by
  unfold Sim
  simp only [step, setSent, Spec.step]
  cases hv : validMID mid with
  | false => exact ⟨es, r, rfl⟩
  | true =>
    have hel := elem_name hv
    have hpo : msgPath3 d.h.root .outbox mid = fp root .outbox (mid ++ ext) := by
      rw [r.root]; exact join3_eq hr _ _ hel
    have hps : msgPath3 d.h.root .sent mid = fp root .sent (mid ++ ext) := by
      rw [r.root]; exact join3_eq hr _ _ hel
    simp only [Bool.not_true, Bool.false_eq_true, if_false, hpo, hps]
    have hfind : s.outbox.find? (·.mid = mid) =
        (es.find? (fun x => x.key = (.outbox, mid))).map (·.m.erasePath) := by
      rw [← find?_absF, ← r.abs]; rfl
    unfold FS.rename
    rw [lookup_fp r.good, hfind]
    cases hfe : es.find? (fun x => x.key = (Folder.outbox, mid)) with
    | none => exact ⟨es, r, rfl⟩
    | some e =>
      have hmem : e ∈ es := List.mem_of_find?_eq_some hfe
      have hkey : e.key = (.outbox, mid) := by simpa using List.find?_some hfe
      have hmid : e.m.mid = mid := by simpa [Entry.key] using (Prod.mk.inj hkey).2
      have hrd := r.ready_of_mem hmem
      have hst := r.good.valid e hmem
      rw [hmid] at hst
      have hlen := storable_len hst
      obtain ⟨hp2, hb2⟩ := parentOf_fp root .sent (mid ++ ext) hel.2.1
      have hcc : d.fs.canCreate (fp root .sent (mid ++ ext)) = true := by
        unfold FS.canCreate
        have : d.fs.dirs.contains (dp root .sent) = true := by simpa using r.ready hrd .sent
        rw [hp2, hb2, isDir_dp r.good, this, isDir_fp_false r.good]
        simp [nameMax, ext]; omega
      simp only [Option.map_some, hcc, if_true]
      -- the new representation
      let fs1 : FS := d.fs.delFile (fp root .outbox (mid ++ ext))
      have g1 : Good C root fs1 (eraseE (.outbox, mid) es) := good_eraseE r.good .outbox mid fs1 rfl rfl
      let e' : Entry := ⟨.sent, e.m⟩
      have hpe : fp root .sent (mid ++ ext) = e'.path root := by simp [Entry.path, e', hmid]
      have hst' : storable e'.m.mid = true := by simpa [e', hmid] using hst
      refine ⟨insertE e' (eraseE (.outbox, mid) es), ?_, rfl⟩
      refine ⟨good_insertE g1 e' hst' _ (by rw [hpe]; rfl) rfl, ?_, ?_, ?_, r.deferred, r.sendOnly, r.root⟩
      · intro g
        rw [absF_insertE]
        cases g with
        | sent =>
          simp only [e', if_true, SState.get]
          rw [absF_eraseE_other _ _ _ (by simp), ← r.abs]; rfl
        | outbox =>
          simp only [e', SState.get]
          rw [if_neg (by simp), absF_eraseE_same, ← r.abs]; rfl
        | inbox =>
          simp only [e', SState.get]
          rw [if_neg (by simp), absF_eraseE_other _ _ _ (by simp), ← r.abs]; rfl
        | archive =>
          simp only [e', SState.get]
          rw [if_neg (by simp), absF_eraseE_other _ _ _ (by simp), ← r.abs]; rfl
      · intro _ f; exact r.ready hrd f
      · intro h; rw [hrd] at h; exact absurd h (by simp)


theorem isFile_dp_false {C : Codec} {root : FPath} {fs : FS} {es : List Entry} (g : Good C root fs es)
    (f : Folder) : fs.isFile (dp root f) = false := by
  unfold FS.isFile
  rw [g.files, List.any_map]
  apply List.any_eq_false.mpr
  intro x _
  simp only [Function.comp, encE, Entry.path]
  intro h
  exact fp_ne_dp _ _ _ _ (of_decide_eq_true h)

theorem mkdirAll_dp {C : Codec} {root : FPath} {fs : FS} {es : List Entry} (g : Good C root fs es) (f : Folder) :
    ∃ fs', fs.mkdirAll (dp root f) = some fs' ∧ Good C root fs' es ∧ dp root f ∈ fs'.dirs ∧
      (∀ d, d ∈ fs.dirs → d ∈ fs'.dirs) := by
  unfold FS.mkdirAll
  rw [isFile_dp_false g, isDir_dp g]
  simp only [Bool.false_eq_true, if_false]
  by_cases h : dp root f ∈ fs.dirs
  · have : fs.dirs.contains (dp root f) = true := by simpa using h
    simp only [this, if_true]
    exact ⟨_, rfl, ⟨g.files, g.valid, g.nodup, g.dirs⟩, h, fun d hd => hd⟩
  · have : fs.dirs.contains (dp root f) = false := by simpa using h
    simp only [this, Bool.false_eq_true, if_false]
    refine ⟨_, rfl, ⟨g.files, g.valid, g.nodup, ?_⟩, by simp, fun d hd => by simp [hd]⟩
    intro d hd
    simp only [List.mem_append, List.mem_singleton] at hd
    rcases hd with hd | hd
    · exact g.dirs d hd
    · exact ⟨f, hd⟩

theorem sim_prepare {C root d s es} (hr : NormalRoot root) (r : Rel C root d s es) : Sim C root d s .prepare := by
  unfold Sim
  simp only [step, Spec.step, ensureDirStructure]
  rw [r.root, folderPath_eq hr, folderPath_eq hr, folderPath_eq hr, folderPath_eq hr]
  obtain ⟨f1, h1, g1, m1, k1⟩ := mkdirAll_dp r.good .inbox
  obtain ⟨f2, h2, g2, m2, k2⟩ := mkdirAll_dp g1 .outbox
  obtain ⟨f3, h3, g3, m3, k3⟩ := mkdirAll_dp g2 .sent
  obtain ⟨f4, h4, g4, m4, k4⟩ := mkdirAll_dp g3 .archive
  simp only [h1, h2, h3, h4, Option.bind_some]
  refine ⟨es, ⟨g4, r.abs, ?_, ?_, rfl, r.sendOnly, rfl⟩, rfl⟩
  · intro _ f
    cases f
    · exact k4 _ (k3 _ (k2 _ m1))
    · exact k4 _ (k3 _ m2)
    · exact k4 _ m3
    · exact m4
  · intro h; simp at h

theorem sel_setFilePath (dfn : Bytes → Bool) (fws : List Bytes) (m : Msg) (p : Bytes) :
    outboundSel dfn fws (m.setFilePath p) = outboundSel dfn fws m.erasePath := by
  rfl

theorem isDeferred_eq {C root d s es} (r : Rel C root d s es) : isDeferred d.h = Spec.isDeferred s := by
  funext mid
  unfold isDeferred Spec.isDeferred
  rw [r.deferred]
  cases s.deferred <;> rfl

theorem load_rel {C root d s es} (hl : C.Lawful) (hr : NormalRoot root) (r : Rel C root d s es) (f : Folder) :
    loadMessageDir C d.fs (folderPath d.h.root f) =
      if s.ready then some ((sortedE es f).map fun e => e.m.setFilePath (e.path root)) else none := by
  rw [r.root, folderPath_eq hr]
  cases hrd : s.ready with
  | true => simp only [if_true]; exact load_dp hl hr r.good f (r.ready hrd f)
  | false =>
    simp only [Bool.false_eq_true, if_false]
    apply load_nodir r.good
    rw [(r.notready hrd).1]; simp

theorem erase_setFilePath (m : Msg) (p : Bytes) : (m.setFilePath p).erasePath = m.erasePath := rfl

theorem sim_getOutbound {C root d s es} (hl : C.Lawful) (hr : NormalRoot root) (r : Rel C root d s es)
    (fws : List Bytes) : Sim C root d s (.getOutbound fws) := by
  unfold Sim
  simp only [step, Spec.step, getOutbound, observe]
  refine ⟨es, r, ?_⟩
  rw [load_rel hl hr r, isDeferred_eq r]
  have hout : s.outbox = absF es .outbox := r.abs .outbox
  cases hrd : s.ready with
  | true =>
    simp only [if_true, Option.getD_some]
    rw [hout, listing_absF, List.filterMap_map, List.filterMap_map]
    congr 1
  | false =>
    have : es = [] := (r.notready hrd).2
    subst this
    simp only [Bool.false_eq_true, if_false, Option.getD_none, List.filterMap_nil]
    rw [hout]; rfl

theorem sim_list {C root d s es} (hl : C.Lawful) (hr : NormalRoot root) (r : Rel C root d s es)
    (f : Folder) : Sim C root d s (.list f) := by
  unfold Sim
  simp only [step, Spec.step]
  rw [load_rel hl hr r]
  cases hrd : s.ready with
  | false => exact ⟨es, r, rfl⟩
  | true =>
    simp only [if_true, observe]
    refine ⟨es, r, ?_⟩
    rw [r.abs f, listing_absF, List.map_map]
    rfl

theorem sim_count {C root d s es} (hr : NormalRoot root) (r : Rel C root d s es)
    (f : Folder) : Sim C root d s (.count f) := by
  unfold Sim
  simp only [step, Spec.step, observe, countFiles]
  refine ⟨es, r, ?_⟩
  rw [r.root, folderPath_eq hr]
  cases hrd : s.ready with
  | true =>
    rw [readDir_dp r.good hr.ne_nil f (r.ready hrd f)]
    simp only [if_true, entsOf, List.length_map]
    rw [r.abs f, absF_eq_map, List.length_map]
  | false =>
    have : d.fs.readDir (dp root f) = none := by
      unfold FS.readDir
      rw [isDir_dp r.good f, (r.notready hrd).1]; simp
    rw [this]; simp


theorem fp_ne_nil (root : FPath) (f : Folder) (n : Bytes) : fp root f n ≠ [] := by simp [fp]

theorem find_sorted {es : List Entry} {f : Folder} {mid : Bytes} {g : Entry → Msg} (hg : ∀ e, (g e).mid = e.m.mid) :
    ((sortedE es f).map g).find? (·.mid = mid) = ((sortedE es f).find? (fun e => e.m.mid = mid)).map g := by
  rw [List.find?_map]
  congr 2
  funext e
  simp [Function.comp, hg]

def updUnread (m : Msg) (p : Bytes) (flag : Bool) : Msg :=
  { m with fpath := some p, unread := if flag then some sTrue else none }

theorem setUnread_eq (C : Codec) (fs : FS) (m : Msg) (p : Bytes) (hp : p ≠ []) (flag : Bool) :
    setUnread C fs (m.setFilePath p) flag =
      if (!flag) = true ∧ hget m.unread = [] then (fs, .ok)
      else ((writeFileAtomic fs p (C.ser (updUnread m p flag))).1,
            if (writeFileAtomic fs p (C.ser (updUnread m p flag))).2 then .ok else .err) := by
  unfold setUnread
  by_cases hc : (!flag) = true ∧ hget m.unread = []
  · rw [if_pos hc, if_pos (by simpa [Msg.setFilePath] using hc)]
  · rw [if_neg hc, if_neg (by simpa [Msg.setFilePath] using hc)]
    have : hget ({ m.setFilePath p with unread := if flag = true then some sTrue else none } : Msg).fpath = p := rfl
    simp only [this, hp, if_false]
    rfl

theorem sim_setUnread {C root d s es} (hl : C.Lawful) (hr : NormalRoot root) (r : Rel C root d s es)
    (f : Folder) (mid : Bytes) (flag : Bool) : Sim C root d s (.setUnread f mid flag) := by
  unfold Sim
  simp only [step, Spec.step]
  rw [load_rel hl hr r]
  cases hrd : s.ready with
  | false => exact ⟨es, r, rfl⟩
  | true =>
    simp only [if_true, Bool.not_true, Bool.false_eq_true, if_false]
    rw [r.abs f, listing_absF, find_sorted (g := fun e => e.m.setFilePath (e.path root)) (fun _ => rfl),
      find_sorted (g := fun e => e.m.erasePath) (fun _ => rfl)]
    cases hfe : (sortedE es f).find? (fun e => e.m.mid = mid) with
    | none => exact ⟨es, r, rfl⟩
    | some e =>
      have hmem := mem_sortedE.mp (List.mem_of_find?_eq_some hfe)
      simp only [Option.map_some]
      rw [setUnread_eq C d.fs e.m (e.path root) (fp_ne_nil _ _ _) flag]
      have hun : hget e.m.erasePath.unread = hget e.m.unread := rfl
      rw [hun]
      by_cases hc : (!flag) = true ∧ hget e.m.unread = []
      · rw [if_pos hc, if_pos hc]
        exact ⟨es, r, rfl⟩
      · rw [if_neg hc, if_neg hc]
        let e' : Entry := ⟨f, updUnread e.m (e.path root) flag⟩
        have hpe : e.path root = e'.path root := by simp [Entry.path, e', updUnread, hmem.2]
        have hst : storable e'.m.mid = true := r.good.valid e hmem.1
        obtain ⟨fs', h1, h2⟩ := rel_store_ok r e' hst hrd
        have h1' : writeFileAtomic d.fs (e.path root) (C.ser (updUnread e.m (e.path root) flag)) = (fs', true) := by
          rw [← hpe] at h1; exact h1
        rw [h1']
        refine ⟨_, h2 _ ?_ ?_ ?_ ?_, rfl⟩
        · intro g; rw [get_set]
          by_cases hg : g = f
          · subst hg
            rw [if_pos rfl, if_pos rfl, r.abs g]; rfl
          · rw [if_neg hg, if_neg hg]
        · cases f <;> rfl
        · cases f <;> rfl
        · cases f <;> rfl

theorem sim_isUnread {C root d s es} (hl : C.Lawful) (hr : NormalRoot root) (r : Rel C root d s es)
    (f : Folder) (mid : Bytes) : Sim C root d s (.isUnread f mid) := by
  unfold Sim
  simp only [step, Spec.step]
  rw [load_rel hl hr r]
  cases hrd : s.ready with
  | false => exact ⟨es, r, rfl⟩
  | true =>
    simp only [if_true, Bool.not_true, Bool.false_eq_true, if_false]
    rw [r.abs f, listing_absF, find_sorted (g := fun e => e.m.setFilePath (e.path root)) (fun _ => rfl),
      find_sorted (g := fun e => e.m.erasePath) (fun _ => rfl)]
    cases hfe : (sortedE es f).find? (fun e => e.m.mid = mid) with
    | none => exact ⟨es, r, rfl⟩
    | some e => exact ⟨es, r, rfl⟩

theorem step_sim {C root d s es} (hl : C.Lawful) (hr : NormalRoot root) (r : Rel C root d s es) (op : Op) :
    Sim C root d s op := by
  cases op with
  | newHandler so => exact sim_newHandler r so
  | prepare => exact sim_prepare hr r
  | addOut m => exact sim_addOut hr r m
  | processInbound ms => exact sim_processInbound hr ms r
  | getInboundAnswer mid => exact sim_getInboundAnswer hr r mid
  | setSent mid => exact sim_setSent hr r mid
  | setDeferred mid => exact sim_setDeferred r mid
  | getOutbound fws => exact sim_getOutbound hl hr r fws
  | list f => exact sim_list hl hr r f
  | count f => exact sim_count hr r f
  | setUnread f mid flag => exact sim_setUnread hl hr r f mid flag
  | isUnread f mid => exact sim_isUnread hl hr r f mid

theorem run_sim {C root} (hl : C.Lawful) (hr : NormalRoot root) (ops : List Op) :
    ∀ {d s es}, Rel C root d s es →
      ∃ es', Rel C root (run C d ops).1 (Spec.run s ops).1 es' ∧
        (run C d ops).2.map observe = (Spec.run s ops).2 := by
  induction ops with
  | nil => intro d s es r; exact ⟨es, r, rfl⟩
  | cons op rest ih =>
    intro d s es r
    obtain ⟨es1, r1, o1⟩ := step_sim hl hr r op
    obtain ⟨es2, r2, o2⟩ := ih r1
    refine ⟨es2, ?_, ?_⟩
    · simpa [run, Spec.run] using r2
    · simp only [run, Spec.run, List.map_cons, o1, o2]

theorem rel_init (C : Codec) (root : FPath) (so : Bool) : Rel C root (DState.init root so) { sendOnly := so } [] :=
  ⟨⟨rfl, by simp, by simp, by simp [DState.init]⟩, fun f => by cases f <;> rfl, by simp, fun _ => ⟨rfl, rfl⟩, rfl, rfl, rfl⟩

end Wl2k.Mbox
