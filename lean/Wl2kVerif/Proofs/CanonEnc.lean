import Wl2kVerif.Proofs.CanonWin
/-
C07 (reverse direction) — the driver loops of the CANONICAL encoder (`Lzhuf.Canon.encodeBody`, transcription of
LZHUF.C `Encode()`): as long as no Huffman code exceeds the 16 bits of LZHUF.C's code accumulator, the body it
emits spells `encTokens Huff.init ts` (plus fewer than 8 zero padding bits) for a list `ts` of well-formed
tokens with `lzDecode ts = x` (`canon_stream`).
Structure: `emit` (the output step of the main loop), `cIn` / `cOut` (one iteration of the read / flush
loop), `iter` (one iteration of the main loop); `CLoop` = invariant between iterations (window `CSt` +
bit/Huffman part `CBits`).
-/
namespace Wl2k.Lzhuf
open Wl2k.Bits Wl2k.Lzhuf.Canon

/-! ### the loops, re-expressed -/

/-- `DeleteNode(s); text_buf[s] = c; s++; r++; InsertNode(r)` -/
def cIn (w : Writer) (c : UInt8) : Writer :=
  { w with z := insertNode { deleteNode w.z w.s with textBuf := storeByte (deleteNode w.z w.s).textBuf w.s c } ((w.r + 1) % N),
           s := (w.s + 1) % N, r := (w.r + 1) % N }

/-- `DeleteNode(s); s++; r++; if (--len) InsertNode(r)` -/
def cOut (w : Writer) : Writer :=
  { w with z := if w.len - 1 ≠ 0 then insertNode (deleteNode w.z w.s) ((w.r + 1) % N) else deleteNode w.z w.s,
           s := (w.s + 1) % N, r := (w.r + 1) % N, len := w.len - 1 }

theorem shiftIn_succ (e : Enc) (last i fuel : Nat) :
    shiftIn e last i (fuel + 1) =
      if i < last ∧ e.ipos < e.inp.size then
        shiftIn { e with w := cIn e.w (e.inp.getD e.ipos 0), ipos := e.ipos + 1 } last (i + 1) fuel
      else (e, i) := rfl

theorem shiftOut_succ (e : Enc) (last i fuel : Nat) :
    shiftOut e last i (fuel + 1) =
      if i < last then shiftOut { e with w := cOut e.w } last (i + 1) fuel else e := rfl

/-- the output step of the canonical main loop → (state, `last_match_length`) -/
def emit (e : Enc) : Enc × Nat :=
    let w := e.w
    let ml := if w.z.matchLength > w.len then w.len else w.z.matchLength
      if ml ≤ THRESHOLD then
        ((({ e with w := { w with z := { w.z with matchLength := 1 } } } : Enc).encodeChar (w.z.tb w.r).toNat), 1)
      else
        let e := ({ e with w := { w with z := { w.z with matchLength := ml } } } : Enc).encodeChar (255 - THRESHOLD + ml)
        ({ e with w := e.w.encodePosition e.w.z.matchPosition }, ml)

/-- one iteration of the canonical main loop -/
def iter (e : Enc) : Enc :=
  shiftOut (shiftIn (emit e).1 (emit e).2 0 (F + 1)).1 (emit e).2 (shiftIn (emit e).1 (emit e).2 0 (F + 1)).2 (F + 1)

theorem mainLoop_succ (e : Enc) (fuel : Nat) :
    mainLoop e (fuel + 1) = if (iter e).w.len > 0 then mainLoop (iter e) fuel else iter e := by
  conv => lhs; unfold mainLoop
  rfl

theorem mainLoop_zero (e : Enc) : mainLoop e 0 = e := by
  unfold mainLoop; rfl

theorem Enc.encodeChar_eq (e : Enc) (c : Nat) :
    e.encodeChar c = { e with w := e.w.encodeCharOld c, maxLen := max e.maxLen (codeLen16 e.w.h c) } := rfl

theorem emit_lit (e : Enc) (h : e.w.ml ≤ THRESHOLD) :
    emit e = (({ e with w := e.w.setML 1 } : Enc).encodeChar (e.w.z.tb e.w.r).toNat, 1) := by
  unfold emit
  unfold Writer.ml at h
  simp only
  rw [if_pos h]
  rfl

theorem emit_mat (e : Enc) (h : ¬ e.w.ml ≤ THRESHOLD) :
    emit e = (({ (({ e with w := e.w.setML e.w.ml } : Enc).encodeChar (255 - THRESHOLD + e.w.ml)) with
        w := (({ e with w := e.w.setML e.w.ml } : Enc).encodeChar (255 - THRESHOLD + e.w.ml)).w.encodePosition
          (({ e with w := e.w.setML e.w.ml } : Enc).encodeChar (255 - THRESHOLD + e.w.ml)).w.z.matchPosition } : Enc),
     e.w.ml) := by
  unfold emit
  unfold Writer.ml at h
  simp only
  rw [if_neg h]
  rfl

theorem tokOf_eq (w : Writer) :
    tokOf w.z w.len w.r = if w.ml ≤ THRESHOLD then .lit (w.z.tb w.r) else .mat w.ml w.z.matchPosition := rfl

/-! ### the bit/Huffman part of the invariant -/

structure CBits (w : Writer) (ts : List Token) : Prop where
  bits : bitsOf w = encTokens Huff.init ts
  h : w.h = (ts.map Token.sym).foldl update Huff.init
  wf : HuffWF w.h
  binv : BitsInv w
  ok : ∀ t ∈ ts, t.ok

theorem CBits.frame {w w' : Writer} {ts : List Token} (i : CBits w ts)
    (h1 : w'.out = w.out) (h2 : w'.putbuf = w.putbuf) (h3 : w'.putlen = w.putlen) (h4 : w'.h = w.h) :
    CBits w' ts :=
  ⟨by rw [← i.bits]; unfold bitsOf; rw [h1, h2, h3], by rw [h4]; exact i.h, by rw [h4]; exact i.wf,
   ⟨by rw [h3]; exact i.binv.len_lt, by rw [h2, h3]; exact i.binv.low_zero⟩, i.ok⟩

theorem CBits.snoc {w w' : Writer} {ts : List Token} (i : CBits w ts) (t : Token) (ok : t.ok)
    (h1 : bitsOf w' = bitsOf w ++ tokBits w.h t) (h2 : BitsInv w') (h3 : w'.h = update w.h t.sym) :
    CBits w' (ts ++ [t]) := by
  refine ⟨?_, ?_, ?_, h2, ?_⟩
  · rw [h1, encTokens_append, ← i.h, i.bits, encTokens, encTokens, List.append_nil]
  · rw [h3, List.map_append, List.foldl_append, ← i.h, List.map_cons, List.map_nil, List.foldl_cons, List.foldl_nil]
  · rw [h3]; exact update_preserves i.wf _ (t.sym_lt ok)
  · intro t' ht'
    rcases List.mem_append.mp ht' with h | h
    · exact i.ok t' h
    · rw [List.mem_singleton.mp h]; exact ok

/-! ### the output step -/

theorem emit_maxLen (e : Enc) : e.maxLen ≤ (emit e).1.maxLen := by
  by_cases hc : e.w.ml ≤ THRESHOLD
  · rw [emit_lit e hc, Enc.encodeChar_eq]
    exact Nat.le_max_left _ _
  · rw [emit_mat e hc, Enc.encodeChar_eq]
    exact Nat.le_max_left _ _

theorem emit_maxLen_eq (e : Enc) :
    (emit e).1.maxLen = max e.maxLen (codeLen16 e.w.h (tokOf e.w.z e.w.len e.w.r).sym) := by
  rw [tokOf_eq]
  by_cases hc : e.w.ml ≤ THRESHOLD
  · rw [emit_lit e hc, Enc.encodeChar_eq, if_pos hc]; rfl
  · rw [emit_mat e hc, Enc.encodeChar_eq, if_neg hc]; rfl

/-- what the output step does: the token `tokOf` is appended to the bit stream (provided its code fits the
16-bit accumulator); the tree arrays, the text and the window pointers are untouched -/
theorem emit_spec (e : Enc) (ts : List Token) (b : CBits e.w ts) (hok : (tokOf e.w.z e.w.len e.w.r).ok)
    (hl : (emit e).1.maxLen ≤ 16) :
    CBits (emit e).1.w (ts ++ [tokOf e.w.z e.w.len e.w.r]) ∧ (emit e).2 = (tokOf e.w.z e.w.len e.w.r).len ∧
    SameArr e.w.z (emit e).1.w.z ∧ (emit e).1.w.z.matchPosition = e.w.z.matchPosition ∧
    ((emit e).1.w.z.matchLength ≤ e.w.z.matchLength ∨ (emit e).1.w.z.matchLength = 1) ∧
    (emit e).1.w.len = e.w.len ∧ (emit e).1.w.r = e.w.r ∧ (emit e).1.w.s = e.w.s ∧
    (emit e).1.inp = e.inp ∧ (emit e).1.ipos = e.ipos := by
  have hle := e.w.ml_le
  rw [tokOf_eq] at hok ⊢
  by_cases hc : e.w.ml ≤ THRESHOLD
  · rw [if_pos hc] at hok ⊢
    rw [emit_lit e hc, Enc.encodeChar_eq] at hl ⊢
    dsimp only at hl ⊢
    have hj : codeLen16 (e.w.setML 1).h (e.w.z.tb e.w.r).toNat ≤ 16 :=
      Nat.le_trans (Nat.le_max_right _ _) hl
    obtain ⟨a1, a2, a3, a4, a5⟩ := encodeCharOld_frame (e.w.setML 1) (e.w.z.tb e.w.r).toNat
    obtain ⟨c1, c2⟩ := encodeCharOld_code (e.w.setML 1) (e.w.z.tb e.w.r).toNat
      ⟨b.binv.len_lt, b.binv.low_zero⟩ hj
    generalize (e.w.setML 1).encodeCharOld (e.w.z.tb e.w.r).toNat = w2 at *
    refine ⟨b.snoc (.lit (e.w.z.tb e.w.r)) trivial c1 ⟨c2.len_lt, c2.low_zero⟩ a5, rfl, ?_, ?_, ?_, a2, a3, a4,
      rfl, rfl⟩
    · rw [a1]; exact ⟨rfl, rfl, rfl, rfl⟩
    · rw [a1]; rfl
    · rw [a1]; exact Or.inr rfl
  · rw [if_neg hc] at hok ⊢
    obtain ⟨o1, o2, o3⟩ := hok
    rw [emit_mat e hc] at hl ⊢
    dsimp only at hl ⊢
    rw [Enc.encodeChar_eq] at hl ⊢
    dsimp only at hl ⊢
    have hj : codeLen16 (e.w.setML e.w.ml).h (255 - THRESHOLD + e.w.ml) ≤ 16 :=
      Nat.le_trans (Nat.le_max_right _ _) hl
    obtain ⟨a1, a2, a3, a4, a5⟩ := encodeCharOld_frame (e.w.setML e.w.ml) (255 - THRESHOLD + e.w.ml)
    obtain ⟨c1, c2⟩ := encodeCharOld_code (e.w.setML e.w.ml) (255 - THRESHOLD + e.w.ml)
      ⟨b.binv.len_lt, b.binv.low_zero⟩ hj
    generalize (e.w.setML e.w.ml).encodeCharOld (255 - THRESHOLD + e.w.ml) = w2 at *
    have hpos : w2.z.matchPosition = e.w.z.matchPosition := by rw [a1]; rfl
    obtain ⟨p1, p2⟩ := encodePosition_posBits w2 w2.z.matchPosition c2 (by rw [hpos]; exact o3)
    obtain ⟨b1, b2, b3, b4, b5, -⟩ := encodePosition_frame w2 w2.z.matchPosition
    generalize w2.encodePosition w2.z.matchPosition = w3 at *
    refine ⟨b.snoc (.mat e.w.ml e.w.z.matchPosition) ⟨o1, o2, o3⟩ ?_ ⟨p2.len_lt, p2.low_zero⟩ ?_, rfl, ?_, ?_, ?_,
      b3.trans a2, b4.trans a3, b5.trans a4, rfl, rfl⟩
    · show bitsOf w3 = _
      rw [p1, c1, tokBits, hpos, List.append_assoc]; rfl
    · show w3.h = _
      rw [b2, a5]; rfl
    · rw [b1, a1]; exact ⟨rfl, rfl, rfl, rfl⟩
    · rw [b1, a1]; rfl
    · rw [b1, a1]; exact Or.inl hle.1

/-! ### the invariant between the steps of the driver -/

/-- lowering `matchLength` (or setting it to 1) keeps the tree-level invariant -/
theorem CSt.shrink {x : Bytes} {m a : Nat} {z z' : Tree} (st : CSt x m a z) (sa : SameArr z z')
    (hp : z'.matchPosition = z.matchPosition) (hl : z'.matchLength ≤ z.matchLength ∨ z'.matchLength = 1) :
    CSt x m a z' := by
  obtain ⟨rank, tr⟩ := st.tree
  refine ⟨st.text.congr sa.textBuf, by rw [sa.dad]; exact st.range, ⟨rank, tr.ofSame sa⟩, ?_, ?_⟩
  · refine ⟨?_, by rw [hp]; exact st.mok.pos_lt, ?_⟩
    · rcases hl with h | h
      · exact Nat.le_trans h st.mok.len_le
      · rw [h]; decide
    · intro ht
      rcases hl with h | h
      · obtain ⟨q, g, e, v⟩ := st.mok.valid (Nat.lt_of_lt_of_le ht h)
        refine ⟨q, g, by rw [hp]; exact e, ?_⟩
        intro i i1 i2
        rw [sa.tb, sa.tb]
        exact v i i1 (Nat.lt_of_lt_of_le i2 h)
      · rw [h] at ht; simp only [THRESHOLD_eq] at ht; omega
  · rw [sa.tb]; exact st.cur

structure CLoop (x : Bytes) (m a : Nat) (e : Enc) (ts : List Token) : Prop where
  inp : e.inp = x.toArray
  ipos : e.ipos = m
  hr : e.w.r = (1988 + a) % 2048
  hs : e.w.s = a % 2048
  hlen : e.w.len + a = m
  hlen60 : e.w.len ≤ 60
  hm : m ≤ x.length
  full : e.w.len < 60 → m = x.length
  st : 1 ≤ e.w.len → CSt x m a e.w.z
  bits : CBits e.w ts

theorem masterH_input (x : Bytes) (m : Nat) : (masterH x).getD (2048 + m) 0 = x.toArray.getD m 0 := by
  rw [masterH, lgetD_append_right _ _ _ (by rw [initHist_length]; simp only [N_eq]; omega), initHist_length]
  have : 2048 + m - N = m := by simp only [N_eq]; omega
  rw [this]
  simp [List.getD_eq_getElem?_getD]

/-- the read loop `for (i = 0; i < last && (c = getc()) != EOF; i++) { … }` -/
theorem shiftIn_inv {x : Bytes} (last : Nat) : ∀ (fuel i m a : Nat) (e : Enc) (ts : List Token),
    CLoop x m a e ts → last - i < fuel → i ≤ last →
    ∃ m' a', CLoop x m' a' (shiftIn e last i fuel).1 ts ∧ a' + i = a + (shiftIn e last i fuel).2 ∧
      i ≤ (shiftIn e last i fuel).2 ∧ (shiftIn e last i fuel).2 ≤ last ∧
      ((shiftIn e last i fuel).2 < last → m' = x.length) ∧
      (shiftIn e last i fuel).1.maxLen = e.maxLen ∧ (shiftIn e last i fuel).1.w.len = e.w.len := by
  intro fuel
  induction fuel with
  | zero => intro i m a e ts _ hf _; omega
  | succ fuel ih =>
    intro i m a e ts c hf hi
    rw [shiftIn_succ]
    by_cases hc : i < last ∧ e.ipos < e.inp.size
    · rw [if_pos hc]
      have hsz : e.inp.size = x.length := by rw [c.inp]; simp
      have hmx : m < x.length := by have := hc.2; rw [c.ipos, hsz] at this; exact this
      have hlen := c.hlen
      have hlen60 := c.hlen60
      have hfull := c.full
      have h60 : e.w.len = 60 := by
        apply Decidable.byContradiction
        intro h
        have := hfull (by omega)
        omega
      have hma : m = a + 60 := by omega
      have hr' : (e.w.r + 1) % N = (1988 + (a + 1)) % 2048 := by rw [c.hr]; simp only [N_eq]; omega
      have hs' : (e.w.s + 1) % N = (a + 1) % 2048 := by rw [c.hs]; simp only [N_eq]; omega
      have c' : CLoop x (m + 1) (a + 1) { e with w := cIn e.w (e.inp.getD e.ipos 0), ipos := e.ipos + 1 } ts := by
        refine ⟨c.inp, by show e.ipos + 1 = m + 1; rw [c.ipos], hr', hs', ?_, hlen60, by omega, ?_, ?_,
          c.bits.frame rfl rfl rfl rfl⟩
        · show e.w.len + (a + 1) = m + 1
          omega
        · intro h
          have : e.w.len < 60 := h
          omega
        · intro _
          show CSt x (m + 1) (a + 1) (cIn e.w (e.inp.getD e.ipos 0)).z
          unfold cIn
          dsimp only
          rw [hr', c.hs]
          exact cstepIn (c.st (by omega)) hma _ (by rw [c.ipos, c.inp, masterH_input])
      obtain ⟨m', a', r1, r2, r3, r4, r5, r6, r7⟩ := ih (i + 1) (m + 1) (a + 1) _ ts c' (by omega) (by omega)
      exact ⟨m', a', r1, by omega, by omega, r4, r5, r6, r7⟩
    · rw [if_neg hc]
      refine ⟨m, a, c, rfl, Nat.le_refl _, hi, ?_, rfl, rfl⟩
      intro h
      have hsz : e.inp.size = x.length := by rw [c.inp]; simp
      have : ¬ e.ipos < e.inp.size := fun h' => hc ⟨h, h'⟩
      rw [c.ipos, hsz] at this
      have := c.hm
      omega

/-- the flush loop `while (i++ < last) { DeleteNode(s); s++; r++; if (--len) InsertNode(r); }` -/
theorem shiftOut_inv {x : Bytes} (last : Nat) : ∀ (fuel i m a : Nat) (e : Enc) (ts : List Token),
    CLoop x m a e ts → (i < last → m = x.length) → last - i < fuel → last - i ≤ e.w.len → i ≤ last →
    CLoop x m (a + (last - i)) (shiftOut e last i fuel) ts ∧ (shiftOut e last i fuel).maxLen = e.maxLen := by
  intro fuel
  induction fuel with
  | zero => intro i m a e ts _ _ hf _ _; omega
  | succ fuel ih =>
    intro i m a e ts c hmx hf hl hi
    rw [shiftOut_succ]
    by_cases hc : i < last
    · rw [if_pos hc]
      have hmx' := hmx hc
      have hlen := c.hlen
      have hlen60 := c.hlen60
      have hr' : (e.w.r + 1) % N = (1988 + (a + 1)) % 2048 := by rw [c.hr]; simp only [N_eq]; omega
      have hs' : (e.w.s + 1) % N = (a + 1) % 2048 := by rw [c.hs]; simp only [N_eq]; omega
      have c' : CLoop x m (a + 1) { e with w := cOut e.w } ts := by
        refine ⟨c.inp, c.ipos, hr', hs', ?_, ?_, c.hm, fun _ => hmx', ?_, c.bits.frame rfl rfl rfl rfl⟩
        · show e.w.len - 1 + (a + 1) = m
          omega
        · show e.w.len - 1 ≤ 60
          omega
        · intro h1
          have h1' : 1 ≤ e.w.len - 1 := h1
          show CSt x m (a + 1) (cOut e.w).z
          unfold cOut
          dsimp only
          rw [if_pos (by omega), hr', c.hs]
          exact cstepOut (c.st (by omega)) (by omega) (by omega)
      obtain ⟨r1, r2⟩ := ih (i + 1) m (a + 1) _ ts c' (fun _ => hmx') (by omega)
        (by show last - (i + 1) ≤ e.w.len - 1; omega) (by omega)
      have e1 : a + 1 + (last - (i + 1)) = a + (last - i) := by omega
      rw [e1] at r1
      exact ⟨r1, r2⟩
    · rw [if_neg hc]
      have : last - i = 0 := by omega
      rw [this]
      exact ⟨c, rfl⟩

/-! ### one iteration of the main loop, and the main loop -/

theorem shiftIn_maxLen (last : Nat) : ∀ (fuel i : Nat) (e : Enc), (shiftIn e last i fuel).1.maxLen = e.maxLen := by
  intro fuel
  induction fuel with
  | zero => intro i e; rfl
  | succ fuel ih =>
    intro i e
    rw [shiftIn_succ]
    split
    · rw [ih]
    · rfl

theorem shiftOut_maxLen (last : Nat) : ∀ (fuel i : Nat) (e : Enc), (shiftOut e last i fuel).maxLen = e.maxLen := by
  intro fuel
  induction fuel with
  | zero => intro i e; rfl
  | succ fuel ih =>
    intro i e
    rw [shiftOut_succ]
    split
    · rw [ih]
    · rfl

theorem iter_maxLen (e : Enc) : (iter e).maxLen = (emit e).1.maxLen := by
  unfold iter
  rw [shiftOut_maxLen, shiftIn_maxLen]

theorem mainLoop_maxLen : ∀ (fuel : Nat) (e : Enc), e.maxLen ≤ (mainLoop e fuel).maxLen := by
  intro fuel
  induction fuel with
  | zero => intro e; rw [mainLoop_zero]; exact Nat.le_refl _
  | succ fuel ih =>
    intro e
    have h1 : e.maxLen ≤ (iter e).maxLen := by rw [iter_maxLen]; exact emit_maxLen e
    rw [mainLoop_succ]
    split
    · exact Nat.le_trans h1 (ih _)
    · exact h1

/-- **one iteration of the canonical main loop**: one well-formed token is emitted; it extends the decoded
prefix by its length `L ≥ 1`; the window moves on by `L`.  The code fits the 16-bit accumulator either because
the run's longest code does (`maxLen`), or because fewer than 3867 tokens have been coded so far. -/
theorem iter_inv {x : Bytes} {m a : Nat} {e : Enc} {ts : List Token} (c : CLoop x m a e ts) (h1 : 1 ≤ e.w.len)
    (toks : ts.foldl lzStep initHist = (masterH x).take (2048 + a))
    (hl : (iter e).maxLen ≤ 16 ∨ (x.length ≤ 3866 ∧ ts.length ≤ a ∧ e.maxLen ≤ 16)) :
    ∃ t m' a', a < a' ∧ CLoop x m' a' (iter e) (ts ++ [t]) ∧
      (ts ++ [t]).foldl lzStep initHist = (masterH x).take (2048 + a') ∧ (iter e).maxLen ≤ 16 := by
  have hlen := c.hlen
  have hlen60 := c.hlen60
  have hmx := c.hm
  have st := c.st h1
  have hma : m - a = e.w.len := by omega
  obtain ⟨v1, v2, v3, v4⟩ := ctoken_valid st (by omega) (by omega) c.hm
  rw [hma, ← c.hr] at v1 v2 v3 v4
  rw [iter_maxLen] at hl ⊢
  have hl' : (emit e).1.maxLen ≤ 16 := by
    rcases hl with h | ⟨g1, g2, g3⟩
    · exact h
    · rw [emit_maxLen_eq]
      have := codeLen16_le_of_few ts c.bits.ok (by omega) _ ((tokOf e.w.z e.w.len e.w.r).sym_lt v3)
      rw [← c.bits.h] at this
      exact Nat.max_le.mpr ⟨g3, this⟩
  obtain ⟨s1, s2, s3, s4, s5, s6, s7, s8, s9, s10⟩ := emit_spec e ts c.bits v3 hl'
  generalize tokOf e.w.z e.w.len e.w.r = t at *
  have c1 : CLoop x m a (emit e).1 (ts ++ [t]) :=
    ⟨s9.trans c.inp, s10.trans c.ipos, s7.trans c.hr, s8.trans c.hs, by rw [s6]; exact hlen, by rw [s6]; exact hlen60,
     c.hm, by rw [s6]; exact c.full, fun _ => st.shrink s3 s4 s5, s1⟩
  unfold iter
  rw [s2]
  obtain ⟨m', a', r1, r2, r3, r4, r5, r6, r7⟩ := shiftIn_inv (x := x) t.len (F + 1) 0 m a (emit e).1 (ts ++ [t]) c1
    (by simp only [F_eq]; omega) (Nat.zero_le _)
  generalize shiftIn (emit e).1 t.len 0 (F + 1) = si at *
  obtain ⟨q1, q2⟩ := shiftOut_inv (x := x) t.len (F + 1) si.2 m' a' si.1 (ts ++ [t]) r1 r5
    (by simp only [F_eq]; omega) (by rw [r7, s6]; omega) r4
  refine ⟨t, m', a' + (t.len - si.2), by omega, q1, ?_, hl'⟩
  rw [List.foldl_append, toks, List.foldl_cons, List.foldl_nil, v4]
  congr 1
  omega

/-- **the canonical main loop** ends with all of `x` covered by well-formed tokens whose encoding is the bit
stream written, provided every code fitted the 16-bit accumulator — which is the case when the longest code of
the run (`maxLen`) has at most 16 bits, and always when `|x| ≤ 3866`. -/
theorem mainLoop_inv {x : Bytes} : ∀ (fuel : Nat) (e : Enc) (m a : Nat) (ts : List Token),
    CLoop x m a e ts → 1 ≤ e.w.len → ts.foldl lzStep initHist = (masterH x).take (2048 + a) →
    x.length - a < fuel →
    ((mainLoop e fuel).maxLen ≤ 16 ∨ (x.length ≤ 3866 ∧ ts.length ≤ a ∧ e.maxLen ≤ 16)) →
    (mainLoop e fuel).maxLen ≤ 16 ∧
    ∃ ts', CBits (mainLoop e fuel).w ts' ∧ ts'.foldl lzStep initHist = masterH x := by
  intro fuel
  induction fuel with
  | zero => intro e m a ts _ _ _ hf _; omega
  | succ fuel ih =>
    intro e m a ts c h1 toks hf hl
    rw [mainLoop_succ] at hl ⊢
    have hl' : (iter e).maxLen ≤ 16 ∨ (x.length ≤ 3866 ∧ ts.length ≤ a ∧ e.maxLen ≤ 16) := by
      rcases hl with h | h
      · left
        split at h
        · exact Nat.le_trans (mainLoop_maxLen _ _) h
        · exact h
      · exact Or.inr h
    obtain ⟨t, m', a', g1, g2, g3, g4⟩ := iter_inv c h1 toks hl'
    by_cases hc : (iter e).w.len > 0
    · rw [if_pos hc] at hl ⊢
      have := c.hlen
      have := c.hm
      refine ih (iter e) m' a' _ g2 hc g3 (by omega) ?_
      rcases hl with h | ⟨k1, k2, k3⟩
      · exact Or.inl h
      · exact Or.inr ⟨k1, by rw [List.length_append, List.length_singleton]; omega, g4⟩
    · rw [if_neg hc]
      refine ⟨g4, _, g2.bits, ?_⟩
      have h0 : (iter e).w.len = 0 := by omega
      have := g2.hlen
      have := g2.full (by omega)
      rw [g3, List.take_of_length_le (by rw [masterH_length]; omega)]

end Wl2k.Lzhuf
