import Wl2kVerif.Telnet.Sched
import Wl2kVerif.Proofs.TelnetMono
/-
Invariants of the scheduler model `Telnet/Sched.lean`:
  * `Inv`: what has been delivered is a prefix of what has been written (both directions), and every
    effective delivery handed over at least one byte - preserved by every step (`inv_step`), which
    is where the prefix-monotonicity of `dial`/`accept` (`Proofs/TelnetMono.lean`) is needed;
  * what a side has written only grows along a schedule (`wrote_mono_runFrom`);
  * the listener never writes more than its two prompts and its payload (`wroteS_prefix_full`); the
    dialler, fed a prefix of that stream, never writes more than callsign, password and its payload
    (`wroteC_prefix_full`) - hence the bound on the number of deliveries;
  * from every reachable state a quiescent state is reached within `bound - delivered` further
    deliveries (`exists_quiescent_extension`).
-/
namespace Wl2k.Telnet.Sched
open Wl2k Wl2k.Str Wl2k.Telnet

theorem wroteC_eq (S : Sys) (st : St) :
    wroteC S st = (dial S.classify S.cfg none none S.call S.pw 0 st.toClient).out S.payloadC := rfl

theorem wroteS_eq (S : Sys) (st : St) :
    wroteS S st = (accept S.trim S.cfg none st.toServer).out S.payloadS := rfl

theorem wroteC_congr (S : Sys) {st st' : St} (h : st'.toClient = st.toClient) :
    wroteC S st' = wroteC S st := by rw [wroteC_eq, wroteC_eq, h]

theorem wroteS_congr (S : Sys) {st st' : St} (h : st'.toServer = st.toServer) :
    wroteS S st' = wroteS S st := by rw [wroteS_eq, wroteS_eq, h]

theorem wroteC_append (S : Sys) {st st' : St} {cs' : Chunks} (h : st'.toClient = st.toClient ++ cs') :
    wroteC S st <+: wroteC S st' := by
  rw [wroteC_eq, wroteC_eq, h]
  exact dial_out_mono _ _ _ _ _ _ _ _ _ _

theorem wroteS_append (S : Sys) {st st' : St} {cs' : Chunks} (h : st'.toServer = st.toServer ++ cs') :
    wroteS S st <+: wroteS S st' := by
  rw [wroteS_eq, wroteS_eq, h]
  exact accept_out_mono _ _ _ _ _ _

/-! ### One step -/

/-- The three things a step can be. -/
theorem step_cases (S : Sys) (st : St) (c : Choice) :
    step S st c = st ∨
    (∃ chunk, chunk ≠ [] ∧ chunk <+: flightToClient S st ∧
      step S st c = { st with toClient := st.toClient ++ [(0, chunk)], steps := st.steps + 1 }) ∨
    (∃ chunk, chunk ≠ [] ∧ chunk <+: flightToServer S st ∧
      step S st c = { st with toServer := st.toServer ++ [(0, chunk)], steps := st.steps + 1 }) := by
  obtain ⟨d, n⟩ := c
  cases d with
  | toClient =>
    simp only [step]
    by_cases h : (n = 0 || (flightToClient S st).isEmpty) = true
    · rw [if_pos h]; exact Or.inl rfl
    · rw [if_neg h]
      simp only [Bool.or_eq_true, decide_eq_true_eq, List.isEmpty_iff, not_or] at h
      refine Or.inr (Or.inl ⟨(flightToClient S st).take n, ?_, List.take_prefix _ _, rfl⟩)
      intro e
      have := congrArg List.length e
      simp only [List.length_take, List.length_nil] at this
      have : 0 < (flightToClient S st).length := List.length_pos_iff.mpr h.2
      omega
  | toServer =>
    simp only [step]
    by_cases h : (n = 0 || (flightToServer S st).isEmpty) = true
    · rw [if_pos h]; exact Or.inl rfl
    · rw [if_neg h]
      simp only [Bool.or_eq_true, decide_eq_true_eq, List.isEmpty_iff, not_or] at h
      refine Or.inr (Or.inr ⟨(flightToServer S st).take n, ?_, List.take_prefix _ _, rfl⟩)
      intro e
      have := congrArg List.length e
      simp only [List.length_take, List.length_nil] at this
      have : 0 < (flightToServer S st).length := List.length_pos_iff.mpr h.2
      omega

/-- **What a side has written only grows in a step** (any state, reachable or not). -/
theorem wrote_mono_step (S : Sys) (st : St) (c : Choice) :
    wroteC S st <+: wroteC S (step S st c) ∧ wroteS S st <+: wroteS S (step S st c) := by
  rcases step_cases S st c with h | ⟨chunk, _, _, h⟩ | ⟨chunk, _, _, h⟩
  · rw [h]; exact ⟨List.prefix_refl _, List.prefix_refl _⟩
  · rw [h]
    exact ⟨wroteC_append S (cs' := [(0, chunk)]) rfl, by rw [wroteS_congr S rfl]; exact List.prefix_refl _⟩
  · rw [h]
    exact ⟨by rw [wroteC_congr S rfl]; exact List.prefix_refl _, wroteS_append S (cs' := [(0, chunk)]) rfl⟩

/-- "In flight" is well defined: what has been delivered is a prefix of what has been written, in
both directions; and each effective delivery handed over at least one byte. -/
structure Inv (S : Sys) (st : St) : Prop where
  toClient_prefix : flat st.toClient <+: wroteS S st
  toServer_prefix : flat st.toServer <+: wroteC S st
  steps_le : st.steps ≤ (flat st.toClient).length + (flat st.toServer).length

theorem inv_init (S : Sys) : Inv S init :=
  ⟨by simp [init, flat], by simp [init, flat], by simp [init]⟩

theorem flat_snoc (cs : Chunks) (t : Nat) (c : Bytes) : flat (cs ++ [(t, c)]) = flat cs ++ c := by
  simp [flat]

theorem prefix_extend {p w chunk : Bytes} (hp : p <+: w) (hc : chunk <+: w.drop p.length) :
    p ++ chunk <+: w := by
  have := List.prefix_iff_eq_append.mp hp
  rw [← this]
  exact (List.prefix_append_right_inj p).mpr hc

theorem inv_step (S : Sys) (st : St) (c : Choice) (h : Inv S st) : Inv S (step S st c) := by
  have hm := wrote_mono_step S st c
  rcases step_cases S st c with e | ⟨chunk, hne, hpre, e⟩ | ⟨chunk, hne, hpre, e⟩
  · rw [e]; exact h
  · have hlen : 0 < chunk.length := List.length_pos_iff.mpr hne
    have hm1 := hm.1
    have hs := h.steps_le
    rw [e] at hm1 ⊢
    refine ⟨?_, List.IsPrefix.trans h.toServer_prefix hm1, ?_⟩
    · rw [wroteS_congr S rfl]
      simp only [flat_snoc]
      exact prefix_extend h.toClient_prefix hpre
    · simp only [flat_snoc, List.length_append]
      omega
  · have hlen : 0 < chunk.length := List.length_pos_iff.mpr hne
    have hm2 := hm.2
    have hs := h.steps_le
    rw [e] at hm2 ⊢
    refine ⟨List.IsPrefix.trans h.toClient_prefix hm2, ?_, ?_⟩
    · rw [wroteC_congr S rfl]
      simp only [flat_snoc]
      exact prefix_extend h.toServer_prefix hpre
    · simp only [flat_snoc, List.length_append]
      omega

/-! ### Schedules -/

@[simp] theorem runFrom_nil (S : Sys) (st : St) : runFrom S st [] = st := rfl
@[simp] theorem runFrom_cons (S : Sys) (st : St) (c : Choice) (cs : Schedule) :
    runFrom S st (c :: cs) = runFrom S (step S st c) cs := rfl

theorem runFrom_append (S : Sys) (st : St) (a b : Schedule) :
    runFrom S st (a ++ b) = runFrom S (runFrom S st a) b := by
  simp [runFrom, List.foldl_append]

theorem run_append (S : Sys) (a b : Schedule) : run S (a ++ b) = runFrom S (run S a) b :=
  runFrom_append S init a b

theorem inv_runFrom (S : Sys) : ∀ (sched : Schedule) (st : St), Inv S st → Inv S (runFrom S st sched)
  | [], _, h => h
  | c :: cs, st, h => inv_runFrom S cs _ (inv_step S st c h)

theorem inv_run (S : Sys) (sched : Schedule) : Inv S (run S sched) := inv_runFrom S sched init (inv_init S)

theorem wrote_mono_runFrom (S : Sys) : ∀ (sched : Schedule) (st : St),
    wroteC S st <+: wroteC S (runFrom S st sched) ∧ wroteS S st <+: wroteS S (runFrom S st sched)
  | [], _ => ⟨List.prefix_refl _, List.prefix_refl _⟩
  | c :: cs, st => by
    have h1 := wrote_mono_step S st c
    have h2 := wrote_mono_runFrom S cs (step S st c)
    exact ⟨List.IsPrefix.trans h1.1 h2.1, List.IsPrefix.trans h1.2 h2.2⟩

theorem steps_mono_step (S : Sys) (st : St) (c : Choice) : st.steps ≤ (step S st c).steps := by
  rcases step_cases S st c with e | ⟨_, _, _, e⟩ | ⟨_, _, _, e⟩ <;> rw [e] <;> simp

/-- In a state with nothing in flight every choice is skipped. -/
theorem step_of_quiescent (S : Sys) (st : St) (c : Choice) (h : quiescent S st = true) :
    step S st c = st := by
  simp only [quiescent, Bool.and_eq_true] at h
  obtain ⟨d, n⟩ := c
  cases d <;> simp [step, h.1, h.2]

theorem runFrom_of_quiescent (S : Sys) : ∀ (sched : Schedule) (st : St), quiescent S st = true →
    runFrom S st sched = st
  | [], _, _ => rfl
  | c :: cs, st, h => by
    rw [runFrom_cons, step_of_quiescent S st c h]
    exact runFrom_of_quiescent S cs st h

/-- Quiescent + invariant = everything written has been delivered. -/
theorem quiescent_iff (S : Sys) (st : St) (h : Inv S st) :
    quiescent S st = true ↔ flat st.toClient = wroteS S st ∧ flat st.toServer = wroteC S st := by
  simp only [quiescent, flightToClient, flightToServer, Bool.and_eq_true, List.isEmpty_iff,
    List.drop_eq_nil_iff]
  constructor
  · rintro ⟨h1, h2⟩
    exact ⟨h.toClient_prefix.eq_of_length_le h1, h.toServer_prefix.eq_of_length_le h2⟩
  · rintro ⟨h1, h2⟩
    rw [← h1, ← h2]
    exact ⟨Nat.le_refl _, Nat.le_refl _⟩

/-! ### How much is ever written -/

/-- The listener writes its two prompts and then its payload - never anything else. -/
theorem accept_out_prefix_full (trim : Bytes → Bytes) (cfg : Cfg) (close : Option Nat) (payload : Bytes)
    (cs : Chunks) : (accept trim cfg close cs).out payload <+: callPrompt ++ pwPrompt ++ payload := by
  simp only [accept]
  cases h1 : readLine none close ⟨[], cs, 0⟩ with
  | ok line r =>
    cases h2 : readLine none close r <;>
      simp [h2, Accept.out, Accept.writes, Accept.loggedIn, List.append_assoc]
  | _ => simp [Accept.out, Accept.writes, Accept.loggedIn, List.append_assoc]

theorem wroteS_prefix_full (S : Sys) (st : St) : wroteS S st <+: callPrompt ++ pwPrompt ++ S.payloadS :=
  accept_out_prefix_full _ _ _ _ _

/-- Nothing with a CR delivered yet: the dialler is blocked in its first `ReadString`, nothing
written. -/
theorem dial_before_cr (classify : Bytes → Kind) (cfg : Cfg) (call pw : Bytes) (cs : Chunks)
    (h : (13 : UInt8) ∉ flat cs) : dial classify cfg none none call pw 0 cs = .hang [] := by
  have h1 : readLine none none ⟨[], cs, 0⟩ = .hang := readLine_hang (by simpa [Rd.stream] using h)
  have hD : (if cfg.loginDeadline = true then (none : Option Nat) else none) = none := by split <;> rfl
  simp only [dial, hD, clientLoop, h1]

/-- The callsign prompt and an unfinished second line delivered: the dialler has answered with the
callsign and is blocked waiting for the rest of the line. -/
theorem dial_after_callPrompt' (classify : Bytes → Kind) (cfg : Cfg) (call pw : Bytes) (cs : Chunks)
    (x : Bytes) (hk : classify callPrompt = .callsign) (hflat : flat cs = callPrompt ++ x)
    (hx : (13 : UInt8) ∉ x) :
    dial classify cfg none none call pw 0 cs = .hang [call ++ [13]] := by
  have hcp : Line callPrompt := ⟨callPrompt.dropLast, by decide, by decide⟩
  obtain ⟨r1, h1, hs1⟩ := readLine_line' (close := none) (r := ⟨[], cs, 0⟩) hcp (rest := x)
    (by simp [Rd.stream, hflat])
  have h2 : readLine none none r1 = .hang := readLine_hang (by simpa [hs1] using hx)
  obtain ⟨f, hf⟩ : ∃ f, (flat cs).length + 1 = f + 1 + 1 :=
    ⟨10 + x.length, by rw [hflat]; simp [callPrompt]; omega⟩
  have hD : (if cfg.loginDeadline = true then (none : Option Nat) else none) = none := by split <;> rfl
  simp only [dial, hD]
  rw [hf]
  simp only [clientLoop, h1, hk, h2, List.nil_append]

/-- Both prompts delivered (and possibly more): the dialler is through, having written the callsign
and the password once each. -/
theorem dial_both_prompts (classify : Bytes → Kind) (cfg : Cfg) (call pw : Bytes) (cs : Chunks)
    (y : Bytes) (hk1 : classify callPrompt = .callsign) (hk2 : classify pwPrompt = .password)
    (hflat : flat cs = callPrompt ++ pwPrompt ++ y) :
    ∃ c t, dial classify cfg none none call pw 0 cs = .conn c [call ++ [13], pw ++ [13]] t := by
  have hcp : Line callPrompt := ⟨callPrompt.dropLast, by decide, by decide⟩
  have hpp : Line pwPrompt := ⟨pwPrompt.dropLast, by decide, by decide⟩
  obtain ⟨r', hloop, _, _⟩ := clientLoop_lines classify none none call pw [callPrompt] pwPrompt y
    ((flat cs).length + 1) [] ⟨[], cs, 0⟩
    (by intro l hl
        simp only [List.mem_singleton] at hl
        subst hl
        exact ⟨hcp, by rw [hk1]; decide⟩)
    hpp hk2 (by simpa [Rd.stream] using hflat)
    (by rw [hflat]; simp [callPrompt]) rfl (fun _ _ => rfl)
  have hD : (if cfg.loginDeadline = true then (none : Option Nat) else none) = none := by split <;> rfl
  refine ⟨⟨cfg.clientDrains, r'.buf, r'.chunks, cmsTargetCall⟩, r'.now, ?_⟩
  simp only [dial, hD, hloop, due, replies, hk1]
  simp

theorem prefix_append_cases {α : Type} {p a b : List α} (h : p <+: a ++ b) :
    (p <+: a ∧ p ≠ a) ∨ ∃ q, p = a ++ q ∧ q <+: b := by
  rcases List.prefix_or_prefix_of_prefix h (List.prefix_append a b) with h1 | ⟨q, rfl⟩
  · by_cases e : p = a
    · subst e
      exact Or.inr ⟨[], by simp, List.nil_prefix⟩
    · exact Or.inl ⟨h1, e⟩
  · exact Or.inr ⟨q, rfl, (List.prefix_append_right_inj a).mp h⟩

/-- A proper prefix of a line (CR-free text + CR) has no CR. -/
theorem no_cr_of_proper_prefix {p l : Bytes} (hl : Line l) (h : p <+: l) (hne : p ≠ l) :
    (13 : UInt8) ∉ p := by
  obtain ⟨x, rfl, hx⟩ := hl
  rcases List.prefix_concat_iff.mp h with e | h'
  · exact absurd e hne
  · exact fun hm => hx (h'.subset hm)

/-- Fed any prefix of what the listener ever writes, the dialler writes its callsign, its password
and then its payload - never anything else. -/
theorem dial_out_prefix_full (classify : Bytes → Kind) (cfg : Cfg) (call pw payloadC payloadS : Bytes)
    (cs : Chunks) (hk1 : classify callPrompt = .callsign) (hk2 : classify pwPrompt = .password)
    (h : flat cs <+: callPrompt ++ pwPrompt ++ payloadS) :
    (dial classify cfg none none call pw 0 cs).out payloadC <+:
      call ++ [13] ++ (pw ++ [13]) ++ payloadC := by
  have hcp : Line callPrompt := ⟨callPrompt.dropLast, by decide, by decide⟩
  have hpp : Line pwPrompt := ⟨pwPrompt.dropLast, by decide, by decide⟩
  rw [List.append_assoc] at h
  rcases prefix_append_cases h with ⟨h1, hne⟩ | ⟨q, hq, hq'⟩
  · rw [dial_before_cr classify cfg call pw cs (no_cr_of_proper_prefix hcp h1 hne)]
    simp [Dial.out, Dial.writes, Dial.loggedIn]
  · rcases prefix_append_cases hq' with ⟨h2, hne2⟩ | ⟨y, hy, _⟩
    · rw [dial_after_callPrompt' classify cfg call pw cs q hk1 hq (no_cr_of_proper_prefix hpp h2 hne2)]
      simp [Dial.out, Dial.writes, Dial.loggedIn, List.append_assoc]
    · obtain ⟨c, t, hd⟩ := dial_both_prompts classify cfg call pw cs y hk1 hk2
        (by rw [hq, hy, List.append_assoc])
      rw [hd]
      simp [Dial.out, Dial.writes, Dial.loggedIn]

theorem wroteC_prefix_full (S : Sys) (st : St) (hk1 : S.classify callPrompt = .callsign)
    (hk2 : S.classify pwPrompt = .password) (h : Inv S st) :
    wroteC S st <+: S.call ++ [13] ++ (S.pw ++ [13]) ++ S.payloadC :=
  dial_out_prefix_full _ _ _ _ _ S.payloadS _ hk1 hk2
    (List.IsPrefix.trans h.toClient_prefix (wroteS_prefix_full S st))

/-- Number of bytes delivered so far. -/
def delivered (st : St) : Nat := (flat st.toClient).length + (flat st.toServer).length

/-- Delivered bytes never exceed the total ever written. -/
theorem delivered_le_bound (S : Sys) (st : St) (hk1 : S.classify callPrompt = .callsign)
    (hk2 : S.classify pwPrompt = .password) (h : Inv S st) : delivered st ≤ bound S := by
  have h1 := (List.IsPrefix.trans h.toClient_prefix (wroteS_prefix_full S st)).length_le
  have h2 := (List.IsPrefix.trans h.toServer_prefix (wroteC_prefix_full S st hk1 hk2 h)).length_le
  simp only [List.length_append, List.length_cons, List.length_nil] at h1 h2
  simp only [delivered, bound]
  omega

theorem steps_le_bound (S : Sys) (st : St) (hk1 : S.classify callPrompt = .callsign)
    (hk2 : S.classify pwPrompt = .password) (h : Inv S st) : st.steps ≤ bound S :=
  Nat.le_trans h.steps_le (delivered_le_bound S st hk1 hk2 h)

/-- A state that is not quiescent has an effective step, which delivers at least one byte. -/
theorem exists_effective_step (S : Sys) (st : St) (h : quiescent S st = false) :
    ∃ c : Choice, delivered st < delivered (step S st c) := by
  simp only [quiescent, Bool.and_eq_false_iff] at h
  rcases h with h | h
  · refine ⟨(.toClient, 1), ?_⟩
    have hne : flightToClient S st ≠ [] := by simpa using h
    have : 0 < (flightToClient S st).length := List.length_pos_iff.mpr hne
    have e : step S st (.toClient, 1) = { st with
        toClient := st.toClient ++ [(0, (flightToClient S st).take 1)], steps := st.steps + 1 } := by
      simp [step, h]
    rw [e]
    simp only [delivered, flat_snoc, List.length_append, List.length_take]
    omega
  · refine ⟨(.toServer, 1), ?_⟩
    have hne : flightToServer S st ≠ [] := by simpa using h
    have : 0 < (flightToServer S st).length := List.length_pos_iff.mpr hne
    have e : step S st (.toServer, 1) = { st with
        toServer := st.toServer ++ [(0, (flightToServer S st).take 1)], steps := st.steps + 1 } := by
      simp [step, h]
    rw [e]
    simp only [delivered, flat_snoc, List.length_append, List.length_take]
    omega

/-- From every state satisfying the invariant a quiescent state is reached by at most
`bound - delivered` further choices. -/
theorem exists_quiescent_extension_from (S : Sys) (hk1 : S.classify callPrompt = .callsign)
    (hk2 : S.classify pwPrompt = .password) :
    ∀ (k : Nat) (st : St), Inv S st → bound S - delivered st ≤ k →
      ∃ sched' : Schedule, sched'.length ≤ k ∧ quiescent S (runFrom S st sched') = true
  | 0, st, hinv, hk => by
    refine ⟨[], Nat.le_refl _, ?_⟩
    cases hq : quiescent S st with
    | true => exact hq
    | false =>
      obtain ⟨c, hc⟩ := exists_effective_step S st hq
      have := delivered_le_bound S _ hk1 hk2 (inv_step S st c hinv)
      omega
  | k + 1, st, hinv, hk => by
    cases hq : quiescent S st with
    | true => exact ⟨[], Nat.zero_le _, hq⟩
    | false =>
      obtain ⟨c, hc⟩ := exists_effective_step S st hq
      obtain ⟨s', hl, hq'⟩ := exists_quiescent_extension_from S hk1 hk2 k (step S st c)
        (inv_step S st c hinv) (by omega)
      exact ⟨c :: s', by simp only [List.length_cons]; omega, hq'⟩

/-! ### Greedy schedules -/

/-- A schedule that keeps delivering while something is in flight either reaches a quiescent state
or has made as many effective steps as it has choices. -/
theorem greedyFrom_spec (S : Sys) : ∀ (sched : Schedule) (st : St), greedyFrom S st sched = true →
    quiescent S (runFrom S st sched) = true ∨ (runFrom S st sched).steps = st.steps + sched.length
  | [], _, _ => Or.inr rfl
  | c :: cs, st, h => by
    simp only [greedyFrom, Bool.and_eq_true, Bool.or_eq_true, decide_eq_true_eq] at h
    obtain ⟨h1, h2⟩ := h
    rcases h1 with hq | hs
    · left
      rw [runFrom_of_quiescent S _ st hq]
      exact hq
    · rcases greedyFrom_spec S cs _ h2 with hq | hs'
      · exact Or.inl hq
      · right
        rw [runFrom_cons, hs', hs]
        simp only [List.length_cons]
        omega

/-- As many effective deliveries as bytes ever written: everything has been delivered. -/
theorem quiescent_of_steps_ge (S : Sys) (st : St) (hk1 : S.classify callPrompt = .callsign)
    (hk2 : S.classify pwPrompt = .password) (h : Inv S st) (hs : bound S ≤ st.steps) :
    quiescent S st = true := by
  have h1 := (List.IsPrefix.trans h.toClient_prefix (wroteS_prefix_full S st)).length_le
  have h2 := (List.IsPrefix.trans h.toServer_prefix (wroteC_prefix_full S st hk1 hk2 h)).length_le
  have h3 := h.toClient_prefix.length_le
  have h4 := h.toServer_prefix.length_le
  have h5 := (wroteS_prefix_full S st).length_le
  have h6 := (wroteC_prefix_full S st hk1 hk2 h).length_le
  have h7 := h.steps_le
  simp only [List.length_append, List.length_cons, List.length_nil] at h1 h2 h5 h6
  simp only [bound] at hs
  simp only [quiescent, flightToClient, flightToServer, Bool.and_eq_true, List.isEmpty_iff,
    List.drop_eq_nil_iff]
  constructor <;> omega

end Wl2k.Telnet.Sched
