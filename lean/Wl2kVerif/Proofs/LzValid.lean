import Wl2kVerif.Proofs.LzTree2
import Wl2kVerif.Proofs.LzEnc
/-
C06 — token validity: `lzDecode (tokensOf crc16 x) = x`.
`H = initHist ++ x` is the master text (what the decoder's history will be); byte `j` of `H` lives at
`textBuf[(j + 1988) mod N]` while it is in the encoder's window.  After `a` calls of `advance` the node at
index `p` stands for the string starting at `H[gpos a p]`.  `WInv` is the invariant of the compressor state
between two input bytes (or two drain steps): window contents, mirror region, which nodes may be live, the
forest invariant with class ghost `klOf H a`, and "the tokens emitted so far decode to a prefix of `H`".
-/
namespace Wl2k.Lzhuf
open Wl2k.Forest

/-- the position in `H` of the string node `p` stands for, after `a` advances -/
def gpos (a p : Nat) : Nat := a + 60 + (p + 2048 - a % 2048) % 2048

/-- class ghost: first byte of the node's string; roots carry their own byte -/
def klOf (H : Bytes) (a : Nat) : Nat → Nat :=
  fun p => if p < 2048 then (H.getD (gpos a p) 0).toNat else p - 2049

/-! ### text lookup -/

/-- the window and the mirror region (`m` bytes of `x` consumed) -/
structure TextInv (H : Bytes) (m : Nat) (z : Tree) : Prop where
  tbsz : z.textBuf.size = 2107
  win : ∀ j, m ≤ j → j < 2048 + m → z.tb ((j + 1988) % 2048) = H.getD j 0
  mirror : ∀ i, i < 59 → i + 60 < m → z.tb (2048 + i) = z.tb i

theorem TextInv.lookup {H : Bytes} {m : Nat} {z : Tree} (t : TextInv H m z) (j idx : Nat)
    (h1 : m ≤ j) (h2 : j < 2048 + m) (h3 : idx < 2048 + 59) (h4 : idx % 2048 = (j + 1988) % 2048)
    (h5 : 2048 ≤ idx → idx - 2048 + 60 < m) : z.tb idx = H.getD j 0 := by
  by_cases h : idx < 2048
  · have : idx = (j + 1988) % 2048 := by omega
    rw [this]; exact t.win j h1 h2
  · have e : idx = 2048 + (idx - 2048) := by omega
    rw [e, t.mirror (idx - 2048) (by omega) (by omega)]
    have : idx - 2048 = (j + 1988) % 2048 := by omega
    rw [this]; exact t.win j h1 h2

theorem TextInv.congr {H : Bytes} {m : Nat} {z z' : Tree} (t : TextInv H m z) (h : z'.textBuf = z.textBuf) :
    TextInv H m z' := by
  have e : ∀ i, z'.tb i = z.tb i := fun i => by unfold Tree.tb; rw [h]
  exact ⟨by rw [h]; exact t.tbsz, fun j a b => by rw [e]; exact t.win j a b,
    fun i a b => by rw [e, e]; exact t.mirror i a b⟩

/-! ### a valid token extends the decoded prefix -/

theorem take_succ_getD (H : Bytes) (n : Nat) (h : n < H.length) : H.take (n + 1) = H.take n ++ [H.getD n 0] := by
  rw [List.take_add_one, List.getD_eq_getElem?_getD, List.getElem?_eq_getElem h]
  rfl

theorem lit_step (H : Bytes) (n : Nat) (h : n < H.length) :
    lzStep (H.take n) (.lit (H.getD n 0)) = H.take (n + 1) := by
  rw [lzStep, take_succ_getD H n h]

/-- copying `len` bytes from distance `dist` reproduces `H` when `H[n − dist + k] = H[n + k]` for `k < len` -/
theorem lzCopy_take (H : Bytes) (pos dist : Nat) (hpos : pos % N + 1 = dist) : ∀ (len n : Nat),
    dist ≤ n → n + len ≤ H.length →
    (∀ k, k < len → H.getD (n - dist + k) 0 = H.getD (n + k) 0) →
    lzCopy (H.take n) pos len = H.take (n + len) := by
  intro len
  induction len with
  | zero => intro n _ _ _; rfl
  | succ len ih =>
    intro n h1 h2 h3
    have hl : (H.take n).length = n := by rw [List.length_take]; omega
    have hb : (H.take n).getD ((H.take n).length - 1 - pos % N) 0 = H.getD n 0 := by
      have := h3 0 (by omega)
      rw [Nat.add_zero, Nat.add_zero] at this
      rw [hl, ← this, List.getD_eq_getElem?_getD, List.getD_eq_getElem?_getD, List.getElem?_take]
      have e : n - 1 - pos % N = n - dist := by omega
      rw [e, if_pos (by omega)]
    rw [lzCopy, hb, ← take_succ_getD H n (by omega)]
    have := ih (n + 1) (by omega) (by omega) (by
      intro k hk
      have := h3 (k + 1) (by omega)
      have e1 : n + 1 - dist + k = n - dist + (k + 1) := by omega
      have e2 : n + 1 + k = n + (k + 1) := by omega
      rw [e1, e2]; exact this)
    rw [this]
    congr 1; omega

/-! ### storing one byte -/

/-- the text after `advance` stored `b` at `s` (and in the mirror region when `s < F − 1`) -/
def storeByte (tb : Array UInt8) (s : Nat) (b : UInt8) : Array UInt8 :=
  if s < 59 then (tb.setIfInBounds s b).setIfInBounds (s + 2048) b else tb.setIfInBounds s b

theorem storeByte_size (tb : Array UInt8) (s : Nat) (b : UInt8) : (storeByte tb s b).size = tb.size := by
  unfold storeByte; split <;> simp

theorem storeByte_hit (tb : Array UInt8) (s : Nat) (b : UInt8) (hs : s < 2048) (hsz : tb.size = 2107) (i : Nat)
    (h : i = s ∨ (s < 59 ∧ i = s + 2048)) : (storeByte tb s b).getD i 0 = b := by
  unfold storeByte
  by_cases h59 : s < 59
  · rw [if_pos h59, getD_set, getD_set]
    simp only [Array.size_setIfInBounds, hsz]
    rcases h with h | h
    · rw [if_neg (by omega), if_pos ⟨h.symm, by omega⟩]
    · rw [if_pos ⟨h.2.symm, by omega⟩]
  · rw [if_neg h59, getD_set, if_pos ⟨by omega, by omega⟩]

theorem storeByte_miss (tb : Array UInt8) (s : Nat) (b : UInt8) (i : Nat)
    (h1 : i ≠ s) (h2 : i ≠ s + 2048) : (storeByte tb s b).getD i 0 = tb.getD i 0 := by
  unfold storeByte
  by_cases h59 : s < 59
  · rw [if_pos h59, getD_set, getD_set, if_neg (by omega), if_neg (by omega)]
  · rw [if_neg h59, getD_set, if_neg (by omega)]

theorem store_text {H : Bytes} {m a : Nat} {z : Tree} (t : TextInv H m z) (b : UInt8)
    (hb : b = H.getD (2048 + m) 0) (hma : m = a + 60) :
    TextInv H (m + 1) { z with textBuf := storeByte z.textBuf (a % 2048) b } := by
  have hs : a % 2048 < 2048 := Nat.mod_lt _ (by decide)
  have hit : ∀ i, (i = a % 2048 ∨ (a % 2048 < 59 ∧ i = a % 2048 + 2048)) →
      ({ z with textBuf := storeByte z.textBuf (a % 2048) b } : Tree).tb i = b := fun i h =>
    storeByte_hit z.textBuf (a % 2048) b hs t.tbsz i h
  have miss : ∀ i, i ≠ a % 2048 → i ≠ a % 2048 + 2048 →
      ({ z with textBuf := storeByte z.textBuf (a % 2048) b } : Tree).tb i = z.tb i := fun i h1 h2 =>
    storeByte_miss z.textBuf (a % 2048) b i h1 h2
  refine ⟨by rw [← t.tbsz]; exact storeByte_size _ _ _, ?_, ?_⟩
  · intro j h1 h2
    by_cases hj : j = 2048 + m
    · rw [hit _ (by omega), hb, hj]
    · rw [miss _ (by omega) (by omega)]
      exact t.win j (by omega) (by omega)
  · intro i h1 h2
    by_cases hi : i = a % 2048
    · rw [hit _ (by omega), hit _ (by omega)]
    · rw [miss _ (by omega) (by omega), miss _ (by omega) (by omega)]
      exact t.mirror i h1 (by omega)

/-! ### the match found by `insertNode(r)` is valid in `H` -/

theorem match_valid {H : Bytes} {m' a : Nat} {z : Tree} (text : TextInv H m' z) (q ml : Nat)
    (hq : q < 2048) (hd : (q + 2048 - a % 2048) % 2048 < 1988)
    (hml : a + ml ≤ m') (hml60 : ml ≤ 60) (hm' : m' ≤ a + 61)
    (hk : H.getD (gpos a q) 0 = H.getD (2048 + a) 0)
    (hv : ∀ i, 1 ≤ i → i < ml → z.tb ((1988 + a) % 2048 + i) = z.tb (q + i)) :
    1 ≤ ((1988 + a) % 2048 + 2048 - q) % 2048 ∧ ((1988 + a) % 2048 + 2048 - q) % 2048 ≤ 2048 + a ∧
    ∀ k, k < ml → H.getD (2048 + a - ((1988 + a) % 2048 + 2048 - q) % 2048 + k) 0 = H.getD (2048 + a + k) 0 := by
  have hg : 2048 + a - ((1988 + a) % 2048 + 2048 - q) % 2048 = gpos a q := by unfold gpos; omega
  refine ⟨by omega, by omega, ?_⟩
  intro k hk'
  rw [hg]
  by_cases h0 : k = 0
  · rw [h0, Nat.add_zero, Nat.add_zero]; exact hk
  · have e1 := text.lookup (2048 + a + k) ((1988 + a) % 2048 + k) (by omega) (by omega) (by omega) (by omega)
      (by omega)
    have e2 := text.lookup (gpos a q + k) (q + k) (by unfold gpos; omega) (by unfold gpos; omega) (by omega)
      (by unfold gpos; omega) (by omega)
    rw [← e1, ← e2]
    exact (hv k (by omega) hk').symm

/-! ### the invariant between two steps of the compressor -/

/-- the master text: the decoder's initial history followed by the input -/
def masterH (x : Bytes) : Bytes := initHist ++ x

theorem masterH_length (x : Bytes) : (masterH x).length = 2048 + x.length := by
  rw [masterH, List.length_append, initHist_length]; rfl

structure WInv (x : Bytes) (m a : Nat) (w : Writer) (ts : List Token) : Prop where
  hr : w.r = (1988 + a) % 2048
  hs : w.s = a % 2048
  hlen : w.len + a = m
  hlen60 : w.len ≤ 60
  hm : m ≤ x.length
  text : TextInv (masterH x) m w.z
  range : ∀ p, p < 2048 → rd w.z.dad p ≠ 2048 →
    (p + 2048 - a % 2048) % 2048 < 1988 ∧ 2048 ≤ gpos a p + m
  tree : ∃ rank, TreeInv w.z (klOf (masterH x) a) rank
  mp : w.z.matchPosition < N
  toks : ts.foldl lzStep initHist = (masterH x).take (2048 + (a + (w.lastMatchLength - 1).toNat))
  cov : a + (w.lastMatchLength - 1).toNat ≤ m
  lml : 0 < m → 1 ≤ w.lastMatchLength

/-- the state inside `advance`, after `insertNode(r)` and the decrement of `lastMatchLength` -/
structure PreInv (x : Bytes) (m' a : Nat) (w1 : Writer) (ts : List Token) : Prop where
  hr : w1.r = (1988 + a) % 2048
  hs : w1.s = a % 2048
  hlen : w1.len + a = m'
  hlen1 : 1 ≤ w1.len
  hlen61 : w1.len ≤ 61
  hm : m' ≤ x.length
  text : TextInv (masterH x) m' w1.z
  range : ∀ p, p < 2048 → rd w1.z.dad p ≠ 2048 →
    (p + 2048 - a % 2048) % 2048 ≤ 1988 ∧ 2048 ≤ gpos a p + m'
  tree : ∃ rank, TreeInv w1.z (klOf (masterH x) a) rank
  mok : MatchOK ((1988 + a) % 2048)
    (fun q => q < 2048 ∧ (q + 2048 - a % 2048) % 2048 < 1988 ∧
      (masterH x).getD (gpos a q) 0 = (masterH x).getD (2048 + a) 0) w1.z
  cur : w1.z.tb ((1988 + a) % 2048) = (masterH x).getD (2048 + a) 0
  lml0 : 0 ≤ w1.lastMatchLength
  toks : ts.foldl lzStep initHist = (masterH x).take (2048 + (a + w1.lastMatchLength.toNat))
  cov : a + w1.lastMatchLength.toNat ≤ m'

theorem storeByte_eq (tb : Array UInt8) (s : Nat) (b : UInt8) :
    (if s < F - 1 then (tb.setIfInBounds s b).setIfInBounds (s + N) b else tb.setIfInBounds s b) =
      storeByte tb s b := rfl

theorem preEncode_z_some (w : Writer) (b : UInt8) :
    (w.preEncode (some b)).z = insertNode { w.z with textBuf := storeByte w.z.textBuf w.s b } w.r := by
  unfold Writer.preEncode
  dsimp only
  rw [storeByte_eq]

theorem preEncode_z_none (w : Writer) : (w.preEncode none).z = insertNode w.z w.r := by
  unfold Writer.preEncode
  dsimp only

theorem klOf_root (H : Bytes) (a c : Nat) : klOf H a (2049 + c) = c := by
  unfold klOf
  rw [if_neg (by omega)]; omega

/-- `insertNode(r)` on a tree whose text is up to date -/
theorem insert_stage {x : Bytes} {m m' a : Nat} {z0 : Tree}
    (text0 : TextInv (masterH x) m' z0)
    (range : ∀ p, p < 2048 → rd z0.dad p ≠ 2048 →
      (p + 2048 - a % 2048) % 2048 < 1988 ∧ 2048 ≤ gpos a p + m)
    (tree : ∃ rank, TreeInv z0 (klOf (masterH x) a) rank) (mp : z0.matchPosition < N)
    (hmm : m ≤ m') (ham : a < m') (hm61 : m' ≤ a + 61) :
    TextInv (masterH x) m' (insertNode z0 ((1988 + a) % 2048)) ∧
    (∀ p, p < 2048 → rd (insertNode z0 ((1988 + a) % 2048)).dad p ≠ 2048 →
      (p + 2048 - a % 2048) % 2048 ≤ 1988 ∧ 2048 ≤ gpos a p + m') ∧
    (∃ rank, TreeInv (insertNode z0 ((1988 + a) % 2048)) (klOf (masterH x) a) rank) ∧
    MatchOK ((1988 + a) % 2048)
      (fun q => q < 2048 ∧ (q + 2048 - a % 2048) % 2048 < 1988 ∧
        (masterH x).getD (gpos a q) 0 = (masterH x).getD (2048 + a) 0) (insertNode z0 ((1988 + a) % 2048)) ∧
    (insertNode z0 ((1988 + a) % 2048)).tb ((1988 + a) % 2048) = (masterH x).getD (2048 + a) 0 := by
  obtain ⟨rank, t0⟩ := tree
  have hr : (1988 + a) % 2048 < 2048 := Nat.mod_lt _ (by decide)
  have hdr : rd z0.dad ((1988 + a) % 2048) = 2048 := by
    apply Decidable.byContradiction
    intro h
    have := (range _ hr h).1
    omega
  have hcur : z0.tb ((1988 + a) % 2048) = (masterH x).getD (2048 + a) 0 :=
    text0.lookup (2048 + a) _ (by omega) (by omega) (by omega) (by omega) (by omega)
  obtain ⟨rank', t1, live, tbe, mok⟩ := insertNode_inv t0 _ hr hdr mp (fun c _ => klOf_root _ a c)
  have hkl : (fun y => if y = (1988 + a) % 2048 then (z0.tb ((1988 + a) % 2048)).toNat else klOf (masterH x) a y)
      = klOf (masterH x) a := by
    funext y
    by_cases hy : y = (1988 + a) % 2048
    · rw [if_pos hy, hy, hcur]
      unfold klOf
      rw [if_pos hr]
      have : gpos a ((1988 + a) % 2048) = 2048 + a := by unfold gpos; omega
      rw [this]
    · rw [if_neg hy]
  rw [hkl] at t1
  have text1 := text0.congr tbe
  refine ⟨text1, ?_, ⟨rank', t1⟩, ?_, ?_⟩
  · intro p hp hl
    by_cases hpr : p = (1988 + a) % 2048
    · rw [hpr]; unfold gpos; omega
    · have := range p hp (live p hp hpr hl)
      omega
  · refine mok.mono ?_
    intro q hq
    obtain ⟨q1, q2, q3⟩ := hq
    have := range q q1 q2
    refine ⟨q1, this.1, ?_⟩
    unfold klOf at q3
    rw [if_pos q1, hcur] at q3
    exact UInt8.toNat_inj.mp q3
  · have : (insertNode z0 ((1988 + a) % 2048)).tb ((1988 + a) % 2048) = z0.tb ((1988 + a) % 2048) := by
      unfold Tree.tb; rw [tbe]
    rw [this, hcur]

/-- what `advance` is given: the next input byte (main loop: the look-ahead is full), or nothing (drain) -/
def StepIn (x : Bytes) (m a : Nat) (c : Option UInt8) (m' : Nat) : Prop :=
  (∃ b, c = some b ∧ m' = m + 1 ∧ m < x.length ∧ b = (masterH x).getD (2048 + m) 0 ∧ m = a + 60) ∨
  (c = none ∧ m' = m ∧ a < m)

theorem pre_stage {x : Bytes} {m a : Nat} {w : Writer} {ts : List Token} (i : WInv x m a w ts)
    (c : Option UInt8) (m' : Nat) (hc : StepIn x m a c m') : PreInv x m' a (w.preEncode c) ts := by
  obtain ⟨-, -, -, -, f5, f6, f7, f8, f9, f10, f11⟩ := preEncode_fields w c
  have hlen := i.hlen
  have hlen60 := i.hlen60
  have hm := i.hm
  have hmpos : 0 < m := by
    rcases hc with ⟨b, -, -, -, -, h⟩ | ⟨-, -, h⟩ <;> omega
  have hl := i.lml hmpos
  have hcov := i.cov
  have facts : m ≤ m' ∧ a < m' ∧ m' ≤ a + 61 ∧ m' ≤ x.length ∧ (w.preEncode c).len + a = m' ∧
      ∃ z0 : Tree, (w.preEncode c).z = insertNode z0 ((1988 + a) % 2048) ∧ TextInv (masterH x) m' z0 ∧
        z0.dad = w.z.dad ∧ z0.lson = w.z.lson ∧ z0.rson = w.z.rson ∧ z0.matchPosition = w.z.matchPosition := by
    rcases hc with ⟨b, h1, h2, h3, h4, h5⟩ | ⟨h1, h2, h3⟩
    · subst h1
      refine ⟨by omega, by omega, by omega, by omega, by rw [f11]; simp; omega,
        { w.z with textBuf := storeByte w.z.textBuf w.s b }, ?_, ?_, rfl, rfl, rfl, rfl⟩
      · rw [preEncode_z_some, i.hr]
      · rw [i.hs, h2]; exact store_text i.text b h4 h5
    · subst h1
      refine ⟨by omega, by omega, by omega, by omega, by rw [f11]; simp; omega, w.z, ?_, ?_, rfl, rfl, rfl, rfl⟩
      · rw [preEncode_z_none, i.hr]
      · rw [h2]; exact i.text
  obtain ⟨g1, g2, g3, g4, g5, z0, e0, text0, d1, d2, d3, d4⟩ := facts
  obtain ⟨rank, t⟩ := i.tree
  have t0 : TreeInv z0 (klOf (masterH x) a) rank :=
    ⟨by rw [d1]; exact t.sz_dad, by rw [d2]; exact t.sz_lson, by rw [d3]; exact t.sz_rson,
     by rw [d1, d2, d3]; exact t.f⟩
  obtain ⟨s1, s2, s3, s4, s5⟩ := insert_stage (m := m) text0 (by rw [d1]; exact i.range) ⟨rank, t0⟩
    (by rw [d4]; exact i.mp) g1 g2 g3
  rw [← e0] at s1 s2 s3 s4 s5
  have hl1 : (w.preEncode c).lastMatchLength = w.lastMatchLength - 1 := f10
  refine ⟨f7.trans i.hr, f8.trans i.hs, g5, by omega, by omega, g4, s1, s2, s3, s4, s5, by omega, ?_, ?_⟩
  · rw [hl1]; exact i.toks
  · rw [hl1]; omega

/-- the state inside `advance` after the optional `encode()` -/
structure MidInv (x : Bytes) (m' a : Nat) (w2 : Writer) (ts : List Token) : Prop where
  hr : w2.r = (1988 + a) % 2048
  hs : w2.s = a % 2048
  hlen : w2.len + a = m'
  hlen1 : 1 ≤ w2.len
  hlen61 : w2.len ≤ 61
  hm : m' ≤ x.length
  text : TextInv (masterH x) m' w2.z
  range : ∀ p, p < 2048 → rd w2.z.dad p ≠ 2048 →
    (p + 2048 - a % 2048) % 2048 ≤ 1988 ∧ 2048 ≤ gpos a p + m'
  tree : ∃ rank, TreeInv w2.z (klOf (masterH x) a) rank
  mp : w2.z.matchPosition < N
  lml1 : 1 ≤ w2.lastMatchLength
  toks : ts.foldl lzStep initHist = (masterH x).take (2048 + (a + w2.lastMatchLength.toNat))
  cov : a + w2.lastMatchLength.toNat ≤ m'

/-- the token `encode` emits extends the decoded prefix by its length, which fits the look-ahead -/
theorem token_valid {x : Bytes} {m' a : Nat} {w1 : Writer} {ts : List Token} (p : PreInv x m' a w1 ts) :
    ∃ t, w1.encodeTok = some t ∧ 1 ≤ t.len ∧ a + t.len ≤ m' ∧
      lzStep ((masterH x).take (2048 + a)) t = (masterH x).take (2048 + a + t.len) := by
  have hlen := p.hlen
  have hlen1 := p.hlen1
  have hlen61 := p.hlen61
  have hm := p.hm
  have hHl := masterH_length x
  have hle := w1.ml_le
  rw [Writer.encodeTok_eq, if_neg (by omega)]
  by_cases hc : w1.ml ≤ THRESHOLD
  · rw [if_pos hc]
    refine ⟨_, rfl, Nat.le_refl _, by simp only [Token.len]; omega, ?_⟩
    rw [p.hr, p.cur]
    exact lit_step _ _ (by omega)
  · rw [if_neg hc]
    simp only [THRESHOLD_eq] at hc
    have hF := p.mok.len_le
    simp only [F_eq] at hF
    obtain ⟨q, ⟨q1, q2, q3⟩, e, v⟩ := p.mok.valid (by simp only [THRESHOLD_eq]; omega)
    obtain ⟨v1, v2, v3⟩ := match_valid p.text q w1.ml q1 q2 (by omega) (by omega) (by omega) q3
      (fun i i1 i2 => v i i1 (by omega))
    refine ⟨_, rfl, by simp only [Token.len]; omega, by simp only [Token.len]; omega, ?_⟩
    simp only [Token.len, lzStep]
    have hmod : ((1988 + a) % 2048 + N - q) % N = ((1988 + a) % 2048 + 2048 - q) % 2048 := rfl
    have hfit : 2048 + a + w1.ml ≤ (masterH x).length := by rw [hHl]; omega
    refine lzCopy_take (masterH x) _ (((1988 + a) % 2048 + 2048 - q) % 2048) ?_ w1.ml (2048 + a) v2
      hfit v3
    rw [e, hmod]
    simp only [N_eq]
    omega

theorem TreeInv.ofArrays {z z' : Tree} {kl rank : Nat → Nat} (t : TreeInv z kl rank)
    (h1 : z'.dad = z.dad) (h2 : z'.lson = z.lson) (h3 : z'.rson = z.rson) : TreeInv z' kl rank :=
  ⟨by rw [h1]; exact t.sz_dad, by rw [h2]; exact t.sz_lson, by rw [h3]; exact t.sz_rson,
   by rw [h1, h2, h3]; exact t.f⟩

theorem enc_stage {x : Bytes} {m' a : Nat} {w1 : Writer} {ts : List Token} (p : PreInv x m' a w1 ts) :
    MidInv x m' a w1.midEncode (ts ++ (if w1.lastMatchLength = 0 then w1.encodeTok.toList else [])) := by
  have hl0 := p.lml0
  by_cases h0 : w1.lastMatchLength = 0
  · -- a token is emitted
    obtain ⟨t, e1, e2, e3, e4⟩ := token_valid p
    obtain ⟨a1, a2, a3, a4, a5, a6, a7, a8, a9⟩ := encode_shape w1
    rw [e1] at a9
    have hmid : w1.midEncode = w1.encode := by unfold Writer.midEncode; rw [if_pos h0]
    rw [hmid, if_pos h0, e1]
    obtain ⟨rank, tr⟩ := p.tree
    have hl2 : w1.encode.lastMatchLength = (t.len : Int) := a9
    refine ⟨a4.trans p.hr, a5.trans p.hs, by rw [a3]; exact p.hlen, by rw [a3]; exact p.hlen1,
      by rw [a3]; exact p.hlen61, p.hm, p.text.congr a1.textBuf, by rw [a1.dad]; exact p.range,
      ⟨rank, tr.ofArrays a1.dad a1.lson a1.rson⟩, by rw [a2]; exact p.mok.pos_lt, by rw [hl2]; omega, ?_, ?_⟩
    · have := p.toks
      rw [h0] at this
      simp only [Int.toNat_zero, Nat.add_zero] at this
      rw [Option.toList_some, List.foldl_append, this, List.foldl_cons, List.foldl_nil, e4, hl2]
      simp only [Int.toNat_natCast]
      congr 1
      omega
    · rw [hl2]; simp only [Int.toNat_natCast]; exact e3
  · have hmid : w1.midEncode = w1 := by unfold Writer.midEncode; rw [if_neg h0]
    rw [hmid, if_neg h0, List.append_nil]
    exact ⟨p.hr, p.hs, p.hlen, p.hlen1, p.hlen61, p.hm, p.text, p.range, p.tree, p.mok.pos_lt, by omega,
      p.toks, p.cov⟩

theorem gpos_succ (a p : Nat) (hp : p < 2048) (h : p ≠ a % 2048) : gpos (a + 1) p = gpos a p := by
  unfold gpos; omega

theorem post_stage {x : Bytes} {m' a : Nat} {w2 : Writer} {ts : List Token} (p : MidInv x m' a w2 ts) :
    WInv x m' (a + 1) w2.postEncode ts := by
  obtain ⟨-, -, -, -, -, -, -, b8, b9, b10, b11, b12⟩ := postEncode_fields w2
  obtain ⟨d1, d2, d3⟩ := deleteNode_frame w2.z w2.s
  obtain ⟨rank, tr⟩ := p.tree
  have hs : w2.s < 2048 := by rw [p.hs]; exact Nat.mod_lt _ (by decide)
  obtain ⟨rank', tr', dead, live⟩ := deleteNode_inv tr w2.s hs
  have hlen := p.hlen
  have hlen1 := p.hlen1
  have hlen61 := p.hlen61
  have hl1 := p.lml1
  have hcov := p.cov
  refine ⟨?_, ?_, by rw [b9]; omega, by rw [b9]; omega, p.hm, ?_, ?_, ?_, ?_, ?_, ?_, fun _ => ?_⟩
  · rw [b10, p.hr]; simp only [N_eq]; omega
  · rw [b11, p.hs]; simp only [N_eq]; omega
  · rw [b12]; exact p.text.congr d1
  · intro q hq hl
    rw [b12] at hl
    have hqs : q ≠ w2.s := fun h => by rw [h] at hl; exact hl dead
    have hl' : rd w2.z.dad q ≠ 2048 := fun h => hl ((live q hq hqs).mpr h)
    have := p.range q hq hl'
    rw [p.hs] at hqs
    rw [gpos_succ a q hq hqs]
    omega
  · refine ⟨rank', ?_⟩
    rw [b12]
    refine ⟨tr'.sz_dad, tr'.sz_lson, tr'.sz_rson, ?_⟩
    refine tr'.f.dead_irrel w2.s hs dead _ _ _ _ (fun _ _ => rfl) (fun _ _ => rfl) ?_ (fun _ _ => rfl)
    intro y hy
    unfold klOf
    by_cases hy2 : y < 2048
    · rw [if_pos hy2, if_pos hy2, gpos_succ a y hy2 (by rw [← p.hs]; exact hy)]
    · rw [if_neg hy2, if_neg hy2]
  · rw [b12, d3]; exact p.mp
  · rw [b8]
    have e : a + 1 + (w2.lastMatchLength - 1).toNat = a + w2.lastMatchLength.toNat := by omega
    rw [e]; exact p.toks
  · rw [b8]; omega
  · rw [b8]; exact hl1

/-- **one `advance`** keeps the invariant; the tokens it emits are appended -/
theorem advance_winv {x : Bytes} {m a : Nat} {w : Writer} {ts : List Token} (i : WInv x m a w ts)
    (c : Option UInt8) (m' : Nat) (hc : StepIn x m a c m') :
    WInv x m' (a + 1) (w.advance c) (ts ++ w.advanceTok c) := by
  rw [Writer.advance_eq, Writer.advanceTok]
  exact post_stage (enc_stage (pre_stage i c m' hc))

/-! ### the initial state -/

theorem init_dad : Tree.init.dad = fillFrom (Array.replicate (N + 1) 0) NIL 0 N := by
  rw [Tree.init]
theorem init_lson : Tree.init.lson = Array.replicate (N + 1) 0 := by
  rw [Tree.init]
theorem init_rson : Tree.init.rson = fillFrom (Array.replicate (N + 257) 0) NIL (N + 1) 256 := by
  rw [Tree.init]
theorem init_tb : Tree.init.textBuf = Array.replicate (N + F - 1) 0 := by
  rw [Tree.init]
theorem init_mp : Tree.init.matchPosition = 0 := by
  rw [Tree.init]
theorem new_z (crc16 : Bool) :
    (Writer.new crc16).z = { Tree.init with textBuf := fillBytes Tree.init.textBuf 32 (N - F) } := by
  rw [Writer.new]
theorem new_fields_w (crc16 : Bool) :
    (Writer.new crc16).r = N - F ∧ (Writer.new crc16).s = 0 ∧ (Writer.new crc16).len = 0 ∧
    (Writer.new crc16).lastMatchLength = 0 ∧ (Writer.new crc16).preFilled = false := by
  rw [Writer.new]; exact ⟨rfl, rfl, rfl, rfl, rfl⟩

theorem fillFrom_size (a : Array Nat) (v start n : Nat) : (fillFrom a v start n).size = a.size := by
  induction n with
  | zero => rfl
  | succ n ih => simp [fillFrom, ih]

theorem rd_fillFrom (a : Array Nat) (v start n x : Nat) (h : start + n ≤ a.size) :
    rd (fillFrom a v start n) x = if start ≤ x ∧ x < start + n then v else rd a x := by
  induction n with
  | zero => rw [fillFrom, if_neg (by omega)]
  | succ n ih =>
    rw [fillFrom, rd_wr' _ _ _ _ (by rw [fillFrom_size]; omega), ih (by omega)]
    by_cases h1 : x = start + n
    · rw [if_pos h1, if_pos (by omega)]
    · rw [if_neg h1]
      by_cases h2 : start ≤ x ∧ x < start + n
      · rw [if_pos h2, if_pos (by omega)]
      · rw [if_neg h2, if_neg (by omega)]

theorem init_treeInv (kl rank : Nat → Nat) :
    TreeInv Tree.init kl rank ∧ ∀ p, p < 2048 → rd Tree.init.dad p = 2048 := by
  have hd : ∀ p, p < 2048 → rd Tree.init.dad p = 2048 := by
    intro p hp
    rw [init_dad, rd_fillFrom _ _ _ _ _ (by simp), if_pos (by simp only [N_eq]; omega)]; rfl
  have hr : ∀ a, 2048 < a → a < 2048 + 257 → rd Tree.init.rson a = 2048 := by
    intro a h1 h2
    rw [init_rson, rd_fillFrom _ _ _ _ _ (by simp), if_pos (by simp only [N_eq]; omega)]; rfl
  refine ⟨⟨?_, ?_, ?_, ?_, ?_, ?_, ?_⟩, hd⟩
  · rw [init_dad, fillFrom_size]; simp [N]
  · rw [init_lson]; simp [N]
  · rw [init_rson, fillFrom_size]; simp [N]
  · intro a ha hne
    rcases ha with h | h
    · exact absurd (hr a h.1 h.2) hne
    · exact absurd (hd a h.1) h.2
  · intro a ha hl; exact absurd (hd a ha) hl
  · intro p hp hl; exact absurd (hd p hp) hl
  · intro a ha hl; exact absurd (hd a ha) hl

theorem initHist_getD (j : Nat) (hj : j < 2048) : initHist.getD j 0 = if j < 60 then 0 else 32 := by
  unfold initHist
  by_cases h : j < 60
  · rw [if_pos h, lgetD_append_left _ _ _ (by simp [F]; exact h), lgetD_replicate, if_pos (by simp [F]; exact h)]
  · rw [if_neg h, lgetD_append_right _ _ _ (by simp [F]; omega), lgetD_replicate]
    simp only [List.length_replicate, F_eq, N_eq]
    rw [if_pos (by omega)]

theorem new_winv (crc16 : Bool) (x : Bytes) : WInv x 0 0 (Writer.new crc16) [] := by
  obtain ⟨f1, f2, f3, f4, f5⟩ := new_fields_w crc16
  obtain ⟨ti, hd⟩ := init_treeInv (klOf (masterH x) 0) (fun _ => 0)
  have hz := new_z crc16
  have htb0 := init_tb
  have hmp0 := init_mp
  generalize Tree.init = z0 at ti hd hz htb0 hmp0
  generalize (Writer.new crc16) = w at f1 f2 f3 f4 f5 hz ⊢
  have htb : ∀ i, w.z.tb i = (fillBytes (Array.replicate (N + F - 1) 0) 32 (N - F)).getD i 0 := by
    intro i
    rw [hz]
    unfold Tree.tb
    dsimp only
    rw [htb0]
  refine ⟨f1, f2, by rw [f3], by rw [f3]; omega, Nat.zero_le _, ⟨?_, ?_, ?_⟩, ?_, ⟨fun _ => 0, ?_⟩, ?_, ?_, ?_,
    fun h => absurd h (Nat.lt_irrefl 0)⟩
  · rw [hz]
    dsimp only
    rw [htb0, fillBytes_size]; simp [N, F]
  · intro j _ h2
    rw [htb, fillBytes_getD, masterH, lgetD_append_left _ _ _ (by rw [initHist_length]; simp only [N_eq]; omega),
      initHist_getD j (by omega)]
    simp only [Array.size_replicate, N_eq, F_eq, Array.getD_eq_getD_getElem?, Array.getElem?_replicate]
    by_cases h : j < 60
    · rw [if_pos h, if_neg (by omega)]
      split <;> rfl
    · rw [if_neg h, if_pos (by omega)]
  · intro i _ h2; omega
  · intro p hp hl
    rw [hz] at hl
    exact absurd (hd p hp) hl
  · rw [hz]; exact ti.ofArrays rfl rfl rfl
  · rw [hz]
    dsimp only
    rw [hmp0]; decide
  · rw [f4]
    have : ((0 : Int) - 1).toNat = 0 := by decide
    rw [this, masterH]
    have := initHist_length
    simp only [N_eq] at this
    rw [List.foldl_nil, List.take_left' this]
  · rw [f4]; decide

/-! ### `Write`: the pre-fill loop and the main loop -/

/-- where `Write` stands: still filling the look-ahead (no `advance` yet), or look-ahead full -/
def WPhase (w : Writer) (m a : Nat) : Prop :=
  (w.preFilled = false ∧ a = 0 ∧ m < 60 ∧ w.lastMatchLength ≤ 1) ∨ (w.preFilled = true ∧ m = a + 60)

theorem writeByte_prefill (w : Writer) (b : UInt8) (h : w.preFilled = false) :
    (w.writeByte b).z = insertNode { w.z with textBuf := w.z.textBuf.setIfInBounds (w.r + w.len) b } (w.r - (w.len + 1)) ∧
    (w.writeByte b).r = w.r ∧ (w.writeByte b).s = w.s ∧ (w.writeByte b).len = w.len + 1 ∧
    (w.writeByte b).lastMatchLength = 1 ∧ (w.writeByte b).preFilled = decide (w.len + 1 = F) ∧
    w.writeByteTok b = [] := by
  have hc : (!w.preFilled) = true := by rw [h]; rfl
  unfold Writer.writeByte Writer.writeByteTok
  rw [if_pos hc, if_pos hc]
  exact ⟨rfl, rfl, rfl, rfl, rfl, rfl, rfl⟩

theorem prefill_winv {x : Bytes} {m : Nat} {w : Writer} {ts : List Token} (i : WInv x m 0 w ts)
    (hpf : w.preFilled = false) (hm60 : m < 60) (hl : w.lastMatchLength ≤ 1) (hmx : m < x.length) (b : UInt8)
    (hb : b = (masterH x).getD (2048 + m) 0) :
    WInv x (m + 1) 0 (w.writeByte b) (ts ++ w.writeByteTok b) ∧ WPhase (w.writeByte b) (m + 1) 0 := by
  obtain ⟨e1, e2, e3, e4, e5, e6, e7⟩ := writeByte_prefill w b hpf
  have hlen := i.hlen
  have hr := i.hr
  simp only [Nat.add_zero] at hlen hr
  have hr' : w.r = 1988 := by rw [hr]
  rw [hr', hlen] at e1
  -- the text after the store
  have text0 : TextInv (masterH x) (m + 1) { w.z with textBuf := w.z.textBuf.setIfInBounds (1988 + m) b } := by
    have tb : ∀ k, ({ w.z with textBuf := w.z.textBuf.setIfInBounds (1988 + m) b } : Tree).tb k =
        if 1988 + m = k ∧ 1988 + m < w.z.textBuf.size then b else w.z.tb k := fun k => getD_set _ _ _ _
    have hsz := i.text.tbsz
    refine ⟨by rw [← hsz]; simp, ?_, ?_⟩
    · intro j h1 h2
      rw [tb]
      by_cases hj : j = 2048 + m
      · rw [if_pos ⟨by omega, by omega⟩, hb, hj]
      · rw [if_neg (by omega)]
        exact i.text.win j (by omega) (by omega)
    · intro k _ h2; omega
  obtain ⟨rank, t⟩ := i.tree
  have hdead : rd w.z.dad (1988 - (m + 1)) = 2048 := by
    apply Decidable.byContradiction
    intro h
    have := (i.range _ (by omega) h).2
    unfold gpos at this
    omega
  have hcur : ({ w.z with textBuf := w.z.textBuf.setIfInBounds (1988 + m) b } : Tree).tb (1988 - (m + 1)) =
      (masterH x).getD (2047 - m) 0 :=
    text0.lookup (2047 - m) _ (by omega) (by omega) (by omega) (by omega) (by omega)
  obtain ⟨rank', t1, live, tbe, mok⟩ := insertNode_inv
    (z := { w.z with textBuf := w.z.textBuf.setIfInBounds (1988 + m) b }) (t.ofArrays rfl rfl rfl)
    (1988 - (m + 1)) (by omega) hdead i.mp (fun c _ => klOf_root _ 0 c)
  have hkl : (fun y => if y = 1988 - (m + 1) then
        (({ w.z with textBuf := w.z.textBuf.setIfInBounds (1988 + m) b } : Tree).tb (1988 - (m + 1))).toNat
        else klOf (masterH x) 0 y) = klOf (masterH x) 0 := by
    funext y
    by_cases hy : y = 1988 - (m + 1)
    · rw [if_pos hy, hy, hcur]
      unfold klOf
      rw [if_pos (by omega)]
      have : gpos 0 (1988 - (m + 1)) = 2047 - m := by unfold gpos; omega
      rw [this]
    · rw [if_neg hy]
  rw [hkl] at t1
  rw [← e1] at t1 live tbe mok
  have hcov := i.cov
  refine ⟨⟨by rw [e2, hr], e3.trans i.hs, by rw [e4]; omega, by rw [e4]; omega, by omega,
    text0.congr tbe, ?_, ⟨rank', t1⟩, mok.pos_lt, ?_, ?_, fun _ => by rw [e5]; decide⟩, ?_⟩
  · intro p hp hlv
    by_cases hpr : p = 1988 - (m + 1)
    · rw [hpr]; unfold gpos; omega
    · have := i.range p hp (live p hp hpr hlv)
      omega
  · rw [e7, List.append_nil, e5]
    have h1 : ((1 : Int) - 1).toNat = 0 := by decide
    have h2 : (w.lastMatchLength - 1).toNat = 0 := by omega
    rw [h1]
    have := i.toks
    rw [h2] at this
    exact this
  · rw [e5]
    have h1 : ((1 : Int) - 1).toNat = 0 := by decide
    rw [h1]; omega
  · by_cases h60 : m + 1 = 60
    · right
      refine ⟨by rw [e6, hlen]; simp only [F_eq]; exact decide_eq_true h60, by omega⟩
    · left
      refine ⟨by rw [e6, hlen]; simp only [F_eq]; exact decide_eq_false h60, rfl, by omega, by rw [e5]; decide⟩

theorem WInv.congr {x : Bytes} {m a : Nat} {w w' : Writer} {ts : List Token} (i : WInv x m a w ts)
    (h1 : w'.z = w.z) (h2 : w'.r = w.r) (h3 : w'.s = w.s) (h4 : w'.len = w.len)
    (h5 : w'.lastMatchLength = w.lastMatchLength) : WInv x m a w' ts :=
  ⟨h2.trans i.hr, h3.trans i.hs, by rw [h4]; exact i.hlen, by rw [h4]; exact i.hlen60, i.hm,
   by rw [h1]; exact i.text, by rw [h1]; exact i.range, by rw [h1]; exact i.tree, by rw [h1]; exact i.mp,
   by rw [h5]; exact i.toks, by rw [h5]; exact i.cov, by rw [h5]; exact i.lml⟩

theorem writeByte_main (w : Writer) (b : UInt8) (h : w.preFilled = true) :
    (w.writeByte b).z = (w.advance (some b)).z ∧ (w.writeByte b).r = (w.advance (some b)).r ∧
    (w.writeByte b).s = (w.advance (some b)).s ∧ (w.writeByte b).len = (w.advance (some b)).len ∧
    (w.writeByte b).lastMatchLength = (w.advance (some b)).lastMatchLength ∧
    (w.writeByte b).preFilled = (w.advance (some b)).preFilled ∧
    w.writeByteTok b = w.advanceTok (some b) := by
  have hc : ¬ (!w.preFilled) = true := by rw [h]; decide
  unfold Writer.writeByte Writer.writeByteTok
  rw [if_neg hc, if_neg hc]
  exact ⟨rfl, rfl, rfl, rfl, rfl, rfl, rfl⟩

/-- one input byte -/
theorem writeByte_winv {x : Bytes} {m a : Nat} {w : Writer} {ts : List Token} (i : WInv x m a w ts)
    (ph : WPhase w m a) (hmx : m < x.length) (b : UInt8) (hb : b = (masterH x).getD (2048 + m) 0) :
    ∃ a', WInv x (m + 1) a' (w.writeByte b) (ts ++ w.writeByteTok b) ∧ WPhase (w.writeByte b) (m + 1) a' := by
  rcases ph with ⟨p1, p2, p3, p4⟩ | ⟨p1, p2⟩
  · subst p2
    exact ⟨0, prefill_winv i p1 p3 p4 hmx b hb⟩
  · obtain ⟨e1, e2, e3, e4, e5, e6, e7⟩ := writeByte_main w b p1
    have ia := advance_winv i (some b) (m + 1) (Or.inl ⟨b, rfl, rfl, hmx, hb, p2⟩)
    refine ⟨a + 1, ?_, Or.inr ⟨?_, by omega⟩⟩
    · rw [e7]; exact ia.congr e1 e2 e3 e4 e5
    · rw [e6, (advance_size w (some b)).2.2.2]; exact p1

theorem masterH_getD (x : Bytes) (m : Nat) (b : UInt8) (t : Bytes) (h : x.drop m = b :: t) :
    b = (masterH x).getD (2048 + m) 0 ∧ m < x.length := by
  have hm : m < x.length := by
    apply Decidable.byContradiction
    intro hn
    rw [List.drop_eq_nil_of_le (by omega)] at h
    cases h
  refine ⟨?_, hm⟩
  have e : x[m]'hm = b := by
    have := List.drop_eq_getElem_cons hm
    rw [h] at this
    exact (List.cons.inj this).1.symm
  rw [masterH, lgetD_append_right _ _ _ (by rw [initHist_length]; simp only [N_eq]; omega), initHist_length]
  have : 2048 + m - N = m := by simp only [N_eq]; omega
  rw [this, List.getD_eq_getElem?_getD, List.getElem?_eq_getElem hm, e]
  rfl

/-- **`Write`** -/
theorem write_winv (x : Bytes) : ∀ (bs : Bytes) (m a : Nat) (w : Writer) (ts : List Token),
    WInv x m a w ts → WPhase w m a → x.drop m = bs →
    ∃ a', WInv x x.length a' (w.write bs) (ts ++ w.writeTok bs) := by
  intro bs
  induction bs with
  | nil =>
    intro m a w ts i _ hd
    have hm := i.hm
    have : m = x.length := by
      have := congrArg List.length hd
      simp at this; omega
    subst this
    exact ⟨a, by simpa [Writer.write, Writer.writeTok] using i⟩
  | cons b bs ih =>
    intro m a w ts i ph hd
    obtain ⟨hb, hmx⟩ := masterH_getD x m b bs hd
    obtain ⟨a', i', ph'⟩ := writeByte_winv i ph hmx b hb
    have hd' : x.drop (m + 1) = bs := by
      have := congrArg (List.drop 1) hd
      simpa [List.drop_drop, Nat.add_comm] using this
    obtain ⟨a'', i''⟩ := ih (m + 1) a' (w.writeByte b) _ i' ph' hd'
    refine ⟨a'', ?_⟩
    have e : w.write (b :: bs) = (w.writeByte b).write bs := rfl
    rw [e, Writer.writeTok, ← List.append_assoc]
    exact i''

/-- **the drain loop of `Close`** -/
theorem drain_winv (x : Bytes) : ∀ (fuel a : Nat) (w : Writer) (ts : List Token),
    WInv x x.length a w ts → w.len ≤ fuel →
    ∃ a', WInv x x.length a' (w.drain fuel) (ts ++ w.drainTok fuel) ∧ (w.drain fuel).len = 0 := by
  intro fuel
  induction fuel with
  | zero =>
    intro a w ts i hl
    exact ⟨a, by simpa [Writer.drain, Writer.drainTok] using i, by simp only [Writer.drain]; omega⟩
  | succ fuel ih =>
    intro a w ts i hl
    unfold Writer.drain Writer.drainTok
    by_cases h : w.len > 0
    · rw [if_pos h, if_pos h]
      have hlen := i.hlen
      have ia := advance_winv i none x.length (Or.inr ⟨rfl, rfl, by omega⟩)
      have hl' : (w.advance none).len ≤ fuel := by
        rw [(advance_size w none).2.2.1]; simp; omega
      obtain ⟨a', i', z'⟩ := ih (a + 1) (w.advance none) _ ia hl'
      rw [← List.append_assoc]
      exact ⟨a', i', z'⟩
    · rw [if_neg h, if_neg h, List.append_nil]
      exact ⟨a, i, by omega⟩

/-- **Token validity**: the tokens the compressor emits for `x` decode to `x`. -/
theorem tokens_valid (crc16 : Bool) (x : Bytes) : lzDecode (tokensOf crc16 x) = x := by
  obtain ⟨f1, f2, f3, f4, f5⟩ := new_fields_w crc16
  obtain ⟨a1, i1⟩ := write_winv x x 0 0 (Writer.new crc16) [] (new_winv crc16 x)
    (Or.inl ⟨f5, rfl, by decide, by rw [f4]; decide⟩) rfl
  rw [List.nil_append] at i1
  obtain ⟨a2, i2, hz⟩ := drain_winv x (F + 1) a1 _ _ i1 (by have := i1.hlen60; simp only [F_eq]; omega)
  have htok : tokensOf crc16 x = (Writer.new crc16).writeTok x ++ ((Writer.new crc16).write x).drainTok (F + 1) := by
    unfold tokensOf
    rw [Writer.encodeTok_eq, if_pos hz]
    simp
  have hlen := i2.hlen
  have hcov := i2.cov
  have ht := i2.toks
  have e : a2 + (((Writer.new crc16).write x).drain (F + 1)).lastMatchLength.toNat =
      a2 + (((Writer.new crc16).write x).drain (F + 1)).lastMatchLength.toNat := rfl
  have hcv : a2 + ((((Writer.new crc16).write x).drain (F + 1)).lastMatchLength - 1).toNat = x.length := by omega
  rw [hcv] at ht
  rw [lzDecode, htok, ht, List.take_of_length_le (by rw [masterH_length]; omega), masterH]
  have := initHist_length
  rw [List.drop_left' this]

end Wl2k.Lzhuf
