import Wl2kVerif.B2F.InGrammar
import Wl2kVerif.Proofs.PairFrame
import Wl2kVerif.Proofs.EmitAccept
/-
Acceptance half of C05, the unfinished last unit: a connection that ends inside a transfer frame — at ANY
cut position (`InGrammar.cutFrame`), the one between the EOT and its checksum byte included — is reported by
`readCompressed` as a lost connection (`.error .eof`), with all input consumed and nothing written / called.
(Before the repair of fbb/b2f.go `readCompressed` the cut between the EOT and its checksum byte was an
exception: the missing byte read as 0; `run_readBlocks_eot_eof` states the new behaviour.)
-/
namespace Wl2k.B2F
open Wl2k Wl2k.Str Wl2k.Strconv Wl2k.B2F.InGrammar

variable {H : Type} (hstep : H → Call → H × Reply)

/-! ### the block loop -/

/-- unfolding of `cutBlocks` on an STX block head -/
theorem cutBlocks_stx (f : Nat) (l : UInt8) (d : Bytes) :
    cutBlocks (f + 1) (2 :: l :: d) =
      (if d.length < (if l = 0 then 256 else l.toNat) then true
       else cutBlocks f (d.drop (if l = 0 then 256 else l.toNat))) := by
  simp only [cutBlocks]

/-- a non-empty cut block sequence starts with STX, or is the lone EOT -/
theorem cutBlocks_head (f : Nat) (c : UInt8) (d : Bytes) (hc : cutBlocks (f + 1) (c :: d) = true) :
    c = 2 ∨ (c = 4 ∧ d = []) := by
  unfold cutBlocks at hc
  split at hc
  · simp at *
  · simp at *
  · rename_i heq; simp at heq; exact Or.inl heq.1
  · rename_i heq; simp at heq; exact Or.inr heq
  · rename_i heq; simp at heq; exact Or.inl heq.1
  · simp at hc

/-- the cut between the EOT and its checksum byte: the read error of the checksum byte is returned — a lost
connection, whatever the running data sum is -/
theorem run_readBlocks_eot_eof (csize : Int) (fuel : Nat) (buf : Bytes) (sum : Nat) (h : H) (tr : List Ev) :
    Proc.run hstep (readBlocks csize (fuel + 1) buf sum) [4] h tr = (.done (.error .eof), [], h, tr) := by
  have h42 : ¬ ((4 : UInt8) = 2) := by decide
  simp only [readBlocks, Proc.run, h42, if_false, if_true]

/-- **the block loop on a cut block sequence**: complete blocks, then a cut one (or nothing) — EOF -/
theorem run_readBlocks_cut (csize : Int) : ∀ (f : Nat) (d : Bytes), cutBlocks f d = true →
    ∀ (fuel : Nat) (buf : Bytes) (sum : Nat) (h : H) (tr : List Ev), d.length < fuel →
      Proc.run hstep (readBlocks csize fuel buf sum) d h tr = (.done (.error .eof), [], h, tr) := by
  intro f
  induction f with
  | zero => intro d hc; simp [cutBlocks] at hc
  | succ f ih =>
    intro d hc fuel buf sum h tr hf
    cases fuel with
    | zero => simp at hf
    | succ fuel =>
      cases d with
      | nil => simp only [readBlocks, Proc.run]
      | cons c d =>
        rcases cutBlocks_head f c d hc with h2 | ⟨h4, hd⟩
        · subst h2
          cases d with
          | nil =>
            simp only [readBlocks, Proc.run, if_true]
            rw [run_bind, run_readN_short hstep [] 256 [] h tr (by simp)]
            simp only [Proc.run]
          | cons l d =>
            rw [cutBlocks_stx] at hc
            simp only [readBlocks, Proc.run, if_true]
            generalize hn : (if l = 0 then 256 else l.toNat) = n at hc ⊢
            by_cases hlt : d.length < n
            · rw [run_bind, run_readN_short hstep d n [] h tr hlt]
              simp only [Proc.run]
            · simp only [hlt, if_false] at hc
              have hsplit : d = d.take n ++ d.drop n := (List.take_append_drop n d).symm
              have hlen : (d.take n).length = n := by rw [List.length_take]; omega
              have hrun := run_readN hstep (d.take n) [] (d.drop n) h tr
              rw [hlen, ← hsplit] at hrun
              rw [run_bind, hrun]
              simp only
              exact ih (d.drop n) hc fuel _ _ h tr (by
                simp only [List.length_cons] at hf
                rw [List.length_drop]; omega)
        · subst h4; subst hd
          exact run_readBlocks_eot_eof hstep csize fuel buf sum h tr

/-! ### the header -/

/-- the text before the first `z`: `r` splits there -/
theorem takeWhile_ne_split (z : UInt8) : ∀ (r : Bytes),
    z ∉ r.takeWhile (· != z) ∧
      (r.drop (r.takeWhile (· != z)).length = [] ∧ r = r.takeWhile (· != z) ∨
        ∃ r2, r.drop (r.takeWhile (· != z)).length = z :: r2 ∧ r = r.takeWhile (· != z) ++ z :: r2) := by
  intro r
  induction r with
  | nil => simp
  | cons a t ih =>
    by_cases ha : a = z
    · subst ha
      simp
    · have hne : (a != z) = true := by simp [ha]
      simp only [List.takeWhile_cons, hne, if_true, List.length_cons, List.drop_succ_cons, List.mem_cons, not_or]
      obtain ⟨h1, h2⟩ := ih
      refine ⟨⟨fun e => ha e.symm, h1⟩, ?_⟩
      rcases h2 with ⟨h2, h3⟩ | ⟨r2, h2, h3⟩
      · left; exact ⟨h2, by rw [← h3]⟩
      · right; exact ⟨r2, h2, by rw [List.cons_append, ← h3]⟩

/-- **A connection that ends inside a transfer frame is reported as a lost connection**, for every cut the
input grammar allows (`cutFrame`): all input is consumed, nothing is written, the handler is not called. -/
theorem run_readCompressed_cut (tail : Bytes) (hc : cutFrame tail = true) (p : Proposal) (hoff : p.offset = 0)
    (fuel : Nat) (hf : tail.length < fuel) (h : H) (tr : List Ev) :
    Proc.run hstep (readCompressed fuel p) tail h tr = (.done (.error .eof), [], h, tr) := by
  have h1 : ¬ ((1 : UInt8) = 42) := by decide
  have h2 : ¬ ((1 : UInt8) ≠ 1) := by decide
  cases tail with
  | nil => simp only [readCompressed, Proc.run]
  | cons c t =>
    have hc1 : c = 1 := by
      by_cases e : c = 1
      · exact e
      · exfalso
        unfold cutFrame at hc
        split at hc
        · simp at *
        · rename_i heq; simp at heq; exact e heq.1
        · rename_i heq; simp at heq; exact e heq.1
        · simp at hc
    subst hc1
    cases t with
    | nil => simp only [readCompressed, Proc.run, h1, h2, if_false]
    | cons len r =>
      simp only [cutFrame] at hc
      unfold readCompressed
      simp only [Proc.run, h1, h2, if_false, bind_eq, pure_eq]
      obtain ⟨hz, hsp⟩ := takeWhile_ne_split 0 r
      generalize htitle : r.takeWhile (· != 0) = title at hc hz hsp
      simp only [List.length_cons] at hf
      rcases hsp with ⟨hd, hr⟩ | ⟨r2, hd, hr⟩
      · -- cut inside the title
        rw [hr, run_bind, run_readString_eof hstep 0 title fuel [] h tr hz (by rw [hr] at hf; omega)]
        simp only [if_true, Proc.run]
      · rw [hd] at hc
        simp only at hc
        have hlr : r.length = title.length + 1 + r2.length := by
          rw [hr]; simp only [List.length_append, List.length_cons]; omega
        rw [hr, run_bind, run_readString hstep 0 title fuel [] r2 h tr hz (by omega)]
        simp only [List.reverse_nil, List.nil_append, Bool.false_eq_true, if_false]
        cases r2 with
        | nil =>
          rw [run_bind, run_readString_eof hstep 0 [] fuel [] h tr (by simp) (by omega)]
          simp only [if_true, Proc.run]
        | cons a r2 =>
          have ha : a = 48 := by
            by_cases e : a = 48
            · exact e
            · exfalso
              split at hc
              · simp at *
              · rename_i heq; simp at heq; exact e heq.1
              · rename_i heq; simp at heq; exact e heq.1
              · simp at hc
          subst ha
          cases r2 with
          | nil =>
            rw [run_bind, run_readString_eof hstep 0 [48] fuel [] h tr (by decide) (by omega)]
            simp only [if_true, Proc.run]
          | cons b r3 =>
            have hb : b = 0 := by
              by_cases e : b = 0
              · exact e
              · exfalso
                split at hc
                · simp at *
                · simp at *
                · rename_i heq; simp at heq; exact e heq.1
                · simp at hc
            subst hb
            simp only [Bool.and_eq_true, beq_iff_eq] at hc
            obtain ⟨hlen, hcb⟩ := hc
            simp only [List.length_cons] at hlr
            have e2 := run_readString hstep 0 [48] fuel [] r3 h tr (by decide) (by simp; omega)
            simp only [List.cons_append, List.nil_append] at e2
            rw [run_bind, e2]
            simp only [List.reverse_nil, List.nil_append, Bool.false_eq_true, if_false]
            rw [stripDelimC_eq _ (by simp), stripDelimC_eq _ (by simp)]
            have hat : atoi [48] = (0, false) := by decide
            have hblk := run_readBlocks_cut hstep p.csize (r3.length + 1) r3 hcb fuel [] 0 h tr (by omega)
            simp [hat, hlen, hoff, hblk]

/-! ### the cut between the EOT and its checksum byte is one of the cuts -/

/-- complete blocks followed by the lone EOT are a cut block sequence -/
theorem cutBlocks_eot : ∀ (chunks : List Bytes) (f : Nat), (chunks.map InGrammar.blockBytes).flatten.length < f →
    (∀ c ∈ chunks, 1 ≤ c.length ∧ c.length ≤ 256) →
    cutBlocks f ((chunks.map InGrammar.blockBytes).flatten ++ [4]) = true := by
  intro chunks
  induction chunks with
  | nil =>
    intro f hf _
    cases f with
    | zero => simp at hf
    | succ f => simp [cutBlocks]
  | cons c cs ih =>
    intro f hf hwf
    cases f with
    | zero => simp at hf
    | succ f =>
      have hc := hwf c (by simp)
      simp only [List.map_cons, List.flatten_cons, InGrammar.blockBytes, List.cons_append, List.nil_append, List.append_assoc,
        List.length_cons, List.length_append] at hf ⊢
      rw [cutBlocks_stx]
      have hn : (if UInt8.ofNat (c.length % 256) = 0 then 256 else (UInt8.ofNat (c.length % 256)).toNat) = c.length := by
        by_cases h256 : c.length = 256
        · rw [h256]; decide
        · have hl : (UInt8.ofNat (c.length % 256)) ≠ 0 := by
            intro e
            have := congrArg UInt8.toNat e
            simp at this
            omega
          rw [if_neg hl]
          simp; omega
      rw [hn]
      have hlt : ¬ (c ++ ((cs.map InGrammar.blockBytes).flatten ++ [4])).length < c.length := by
        simp only [List.length_append]; omega
      rw [if_neg hlt, List.drop_left]
      exact ih f (by omega) (fun x hx => hwf x (by simp [hx]))

/-- the title field ends at the first NUL -/
theorem takeWhile_title (z : UInt8) : ∀ (title X : Bytes), z ∉ title →
    (title ++ z :: X).takeWhile (· != z) = title := by
  intro title
  induction title with
  | nil => intro X _; simp
  | cons a t ih =>
    intro X hz
    simp only [List.mem_cons, not_or] at hz
    have hne : (a != z) = true := by simp; exact fun e => hz.1 e.symm
    simp only [List.cons_append, List.takeWhile_cons, hne, if_true, ih X hz.2]

/-- a well-formed transfer without its last byte (the checksum byte) is an unfinished transfer the input grammar
allows -/
theorem cutFrame_dropLast (title : Bytes) (chunks : List Bytes) (ck : UInt8) (hz : (0 : UInt8) ∉ title)
    (hlen : title.length + 3 < 256) (hwf : ∀ c ∈ chunks, 1 ≤ c.length ∧ c.length ≤ 256) :
    cutFrame (RUnit.frame title chunks ck).bytes.dropLast = true := by
  have hb : (RUnit.frame title chunks ck).bytes.dropLast =
      1 :: UInt8.ofNat (title.length + 3) :: (title ++ 0 :: 48 :: 0 :: ((chunks.map InGrammar.blockBytes).flatten ++ [4])) := by
    have : (RUnit.frame title chunks ck).bytes =
        (1 :: UInt8.ofNat (title.length + 3) :: (title ++ 0 :: 48 :: 0 :: ((chunks.map InGrammar.blockBytes).flatten ++ [4]))) ++ [ck] := by
      simp [RUnit.bytes]
    rw [this, List.dropLast_concat]
  rw [hb]
  simp only [cutFrame, takeWhile_title 0 title _ hz, List.drop_left]
  have h1 : (UInt8.ofNat (title.length + 3)).toNat = title.length + 3 := by simp; omega
  rw [h1, cutBlocks_eot chunks _ (by simp only [List.length_append, List.length_cons, List.length_nil]; omega) hwf]
  simp

/-- **the cut between the EOT and its checksum byte, whole transfer**: a well-formed transfer (any title, any
blocks, any data sum) whose checksum byte never arrives ends `readCompressed` with a lost connection -/
theorem run_readCompressed_eot_eof (title : Bytes) (chunks : List Bytes) (ck : UInt8) (hz : (0 : UInt8) ∉ title)
    (hlen : title.length + 3 < 256) (hwf : ∀ c ∈ chunks, 1 ≤ c.length ∧ c.length ≤ 256)
    (p : Proposal) (hoff : p.offset = 0) (fuel : Nat) (hf : (RUnit.frame title chunks ck).bytes.length ≤ fuel)
    (h : H) (tr : List Ev) :
    Proc.run hstep (readCompressed fuel p) (RUnit.frame title chunks ck).bytes.dropLast h tr =
      (.done (.error .eof), [], h, tr) := by
  refine run_readCompressed_cut hstep _ (cutFrame_dropLast title chunks ck hz hlen hwf) p hoff fuel ?_ h tr
  have : 0 < (RUnit.frame title chunks ck).bytes.length := by simp [RUnit.bytes]
  rw [List.length_dropLast]; omega

end Wl2k.B2F
