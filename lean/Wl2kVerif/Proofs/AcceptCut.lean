import Wl2kVerif.B2F.InGrammar
import Wl2kVerif.Proofs.PairFrame
import Wl2kVerif.Proofs.EmitAccept
/-
Acceptance half of C05, the unfinished last unit: a connection that ends inside a transfer frame — at any
of the cuts the input grammar's `InGrammar.cutFrame` allows — is reported by `readCompressed` as a lost
connection (`.error .eof`), with all input consumed and nothing written / called.
FINDING (also proved here): the one cut `cutFrame` excludes, between the EOT and its checksum byte, is NOT
reported as a lost connection in general: the missing byte reads as 0, so unless the running data sum is
0 mod 256 the answer is the protocol error "bad-checksum".
-/
namespace Wl2k.B2F
open Wl2k Wl2k.Str Wl2k.Strconv Wl2k.B2F.InGrammar

variable {H : Type} (hstep : H → Call → H × Reply)

/-! ### the block loop -/

/-- unfolding of `cutBlocks` on an STX block head -/
theorem cutBlocks_stx (f : Nat) (l : UInt8) (d : Bytes) :
    cutBlocks (f + 1) (2 :: l :: d) =
      (if d.length < (if l = 0 then 256 else l.toNat) then true
       else cutBlocks f (d.drop (if l = 0 then 256 else l.toNat))) := by
  simp only [cutBlocks]

/-- a non-empty cut block sequence starts with STX -/
theorem cutBlocks_head (f : Nat) (c : UInt8) (d : Bytes) (hc : cutBlocks (f + 1) (c :: d) = true) : c = 2 := by
  by_cases h2 : c = 2
  · exact h2
  · exfalso
    unfold cutBlocks at hc
    split at hc
    · simp at *
    · simp at *
    · rename_i heq; simp at heq; exact h2 heq.1
    · rename_i heq; simp at heq; exact h2 heq.1
    · simp at hc

/-- **the block loop on a cut block sequence**: complete blocks, then a cut one (or nothing) — EOF -/
theorem run_readBlocks_cut (csize : Int) : ∀ (f : Nat) (d : Bytes), cutBlocks f d = true →
    ∀ (fuel : Nat) (buf : Bytes) (sum : Nat) (h : H) (tr : List Ev), d.length < fuel →
      Proc.run hstep (readBlocks csize fuel buf sum) d h tr = (.done (.error .eof), [], h, tr) := by
  intro f
  induction f with
  | zero => intro d hc; simp [cutBlocks] at hc
  | succ f ih =>
    intro d hc fuel buf sum h tr hf
    cases fuel with
    | zero => simp at hf
    | succ fuel =>
      cases d with
      | nil => simp only [readBlocks, Proc.run]
      | cons c d =>
        have h2 := cutBlocks_head f c d hc
        subst h2
        cases d with
        | nil =>
          simp only [readBlocks, Proc.run, if_true]
          rw [run_bind, run_readN_short hstep [] 256 [] h tr (by simp)]
          simp only [Proc.run]
        | cons l d =>
          rw [cutBlocks_stx] at hc
          simp only [readBlocks, Proc.run, if_true]
          generalize hn : (if l = 0 then 256 else l.toNat) = n at hc ⊢
          by_cases hlt : d.length < n
          · rw [run_bind, run_readN_short hstep d n [] h tr hlt]
            simp only [Proc.run]
          · simp only [hlt, if_false] at hc
            have hsplit : d = d.take n ++ d.drop n := (List.take_append_drop n d).symm
            have hlen : (d.take n).length = n := by rw [List.length_take]; omega
            have hrun := run_readN hstep (d.take n) [] (d.drop n) h tr
            rw [hlen, ← hsplit] at hrun
            rw [run_bind, hrun]
            simp only
            exact ih (d.drop n) hc fuel _ _ h tr (by
              simp only [List.length_cons] at hf
              rw [List.length_drop]; omega)

/-- **FINDING**: the cut between the EOT and its checksum byte. The missing checksum byte reads as 0; unless
the running data sum happens to be 0 mod 256, the answer is the protocol error "bad-checksum", not a lost
connection. (This is why `cutFrame` excludes this cut.) -/
theorem run_readBlocks_eot_eof (csize : Int) (fuel : Nat) (buf : Bytes) (sum : Nat) (hs : sum % 256 ≠ 0)
    (h : H) (tr : List Ev) :
    Proc.run hstep (readBlocks csize (fuel + 1) buf sum) [4] h tr =
      (.done (.error (.proto "bad-checksum")), [], h, tr) := by
  have h42 : ¬ ((4 : UInt8) = 2) := by decide
  simp only [readBlocks, Proc.run, h42, if_false, if_true, Nat.add_zero]
  simp only [ne_eq, hs, not_false_eq_true, if_true, Proc.run]

/-! ### the header -/

/-- the text before the first `z`: `r` splits there -/
theorem takeWhile_ne_split (z : UInt8) : ∀ (r : Bytes),
    z ∉ r.takeWhile (· != z) ∧
      (r.drop (r.takeWhile (· != z)).length = [] ∧ r = r.takeWhile (· != z) ∨
        ∃ r2, r.drop (r.takeWhile (· != z)).length = z :: r2 ∧ r = r.takeWhile (· != z) ++ z :: r2) := by
  intro r
  induction r with
  | nil => simp
  | cons a t ih =>
    by_cases ha : a = z
    · subst ha
      simp
    · have hne : (a != z) = true := by simp [ha]
      simp only [List.takeWhile_cons, hne, if_true, List.length_cons, List.drop_succ_cons, List.mem_cons, not_or]
      obtain ⟨h1, h2⟩ := ih
      refine ⟨⟨fun e => ha e.symm, h1⟩, ?_⟩
      rcases h2 with ⟨h2, h3⟩ | ⟨r2, h2, h3⟩
      · left; exact ⟨h2, by rw [← h3]⟩
      · right; exact ⟨r2, h2, by rw [List.cons_append, ← h3]⟩

/-- **A connection that ends inside a transfer frame is reported as a lost connection**, for every cut the
input grammar allows (`cutFrame`): all input is consumed, nothing is written, the handler is not called. -/
theorem run_readCompressed_cut (tail : Bytes) (hc : cutFrame tail = true) (p : Proposal) (hoff : p.offset = 0)
    (fuel : Nat) (hf : tail.length < fuel) (h : H) (tr : List Ev) :
    Proc.run hstep (readCompressed fuel p) tail h tr = (.done (.error .eof), [], h, tr) := by
  have h1 : ¬ ((1 : UInt8) = 42) := by decide
  have h2 : ¬ ((1 : UInt8) ≠ 1) := by decide
  cases tail with
  | nil => simp only [readCompressed, Proc.run]
  | cons c t =>
    have hc1 : c = 1 := by
      by_cases e : c = 1
      · exact e
      · exfalso
        unfold cutFrame at hc
        split at hc
        · simp at *
        · rename_i heq; simp at heq; exact e heq.1
        · rename_i heq; simp at heq; exact e heq.1
        · simp at hc
    subst hc1
    cases t with
    | nil => simp only [readCompressed, Proc.run, h1, h2, if_false]
    | cons len r =>
      simp only [cutFrame] at hc
      unfold readCompressed
      simp only [Proc.run, h1, h2, if_false, bind_eq, pure_eq]
      obtain ⟨hz, hsp⟩ := takeWhile_ne_split 0 r
      generalize htitle : r.takeWhile (· != 0) = title at hc hz hsp
      simp only [List.length_cons] at hf
      rcases hsp with ⟨hd, hr⟩ | ⟨r2, hd, hr⟩
      · -- cut inside the title
        rw [hr, run_bind, run_readString_eof hstep 0 title fuel [] h tr hz (by rw [hr] at hf; omega)]
        simp only [if_true, Proc.run]
      · rw [hd] at hc
        simp only at hc
        have hlr : r.length = title.length + 1 + r2.length := by
          rw [hr]; simp only [List.length_append, List.length_cons]; omega
        rw [hr, run_bind, run_readString hstep 0 title fuel [] r2 h tr hz (by omega)]
        simp only [List.reverse_nil, List.nil_append, Bool.false_eq_true, if_false]
        cases r2 with
        | nil =>
          rw [run_bind, run_readString_eof hstep 0 [] fuel [] h tr (by simp) (by omega)]
          simp only [if_true, Proc.run]
        | cons a r2 =>
          have ha : a = 48 := by
            by_cases e : a = 48
            · exact e
            · exfalso
              split at hc
              · simp at *
              · rename_i heq; simp at heq; exact e heq.1
              · rename_i heq; simp at heq; exact e heq.1
              · simp at hc
          subst ha
          cases r2 with
          | nil =>
            rw [run_bind, run_readString_eof hstep 0 [48] fuel [] h tr (by decide) (by omega)]
            simp only [if_true, Proc.run]
          | cons b r3 =>
            have hb : b = 0 := by
              by_cases e : b = 0
              · exact e
              · exfalso
                split at hc
                · simp at *
                · simp at *
                · rename_i heq; simp at heq; exact e heq.1
                · simp at hc
            subst hb
            simp only [Bool.and_eq_true, beq_iff_eq] at hc
            obtain ⟨hlen, hcb⟩ := hc
            simp only [List.length_cons] at hlr
            have e2 := run_readString hstep 0 [48] fuel [] r3 h tr (by decide) (by simp; omega)
            simp only [List.cons_append, List.nil_append] at e2
            rw [run_bind, e2]
            simp only [List.reverse_nil, List.nil_append, Bool.false_eq_true, if_false]
            rw [stripDelimC_eq _ (by simp), stripDelimC_eq _ (by simp)]
            have hat : atoi [48] = (0, false) := by decide
            have hblk := run_readBlocks_cut hstep p.csize (r3.length + 1) r3 hcb fuel [] 0 h tr (by omega)
            simp [hat, hlen, hoff, hblk]

end Wl2k.B2F
