import Wl2kVerif.Std.Path
import Wl2kVerif.Mbox.Dir
import Wl2kVerif.Proofs.Strings
/-
Path algebra for the mailbox proofs: `Clean`/`Join` on paths built from plain elements.
-/
namespace Wl2k.Path
open Wl2k Wl2k.Str

/-- A plain path element: non-empty, no slash, not `.` or `..`. -/
def Elem (c : Bytes) : Prop := c ≠ [] ∧ (47 : UInt8) ∉ c ∧ c ≠ [46] ∧ c ≠ [46, 46]

/-- `"/c1/c2/…"`. -/
def slashCat (cs : List Bytes) : Bytes := (cs.map (fun c => (47 : UInt8) :: c)).flatten

@[simp] theorem slashCat_nil : slashCat [] = [] := rfl
@[simp] theorem slashCat_cons (c : Bytes) (cs : List Bytes) : slashCat (c :: cs) = 47 :: c ++ slashCat cs := by
  simp [slashCat]
theorem slashCat_append (a b : List Bytes) : slashCat (a ++ b) = slashCat a ++ slashCat b := by
  simp [slashCat]

theorem splitOn_elem_slashCat (c : Bytes) (cs : List Bytes) (hc : (47 : UInt8) ∉ c)
    (h : ∀ x ∈ cs, (47 : UInt8) ∉ x) : splitOn 47 (c ++ slashCat cs) = c :: cs := by
  induction cs generalizing c with
  | nil => simpa using splitOn_nosep 47 c hc
  | cons d r ih =>
    rw [slashCat_cons]
    have : c ++ (47 :: d ++ slashCat r) = c ++ 47 :: (d ++ slashCat r) := by simp
    rw [this, splitOn_append 47 c _ hc, ih d (h d (by simp)) (fun x hx => h x (by simp [hx]))]

theorem splitOn_slashCat (cs : List Bytes) (h : ∀ x ∈ cs, (47 : UInt8) ∉ x) (hne : cs ≠ []) :
    splitOn 47 (slashCat cs) = [] :: cs := by
  cases cs with
  | nil => exact absurd rfl hne
  | cons c r =>
    rw [slashCat_cons]
    have : (47 : UInt8) :: c ++ slashCat r = [] ++ 47 :: (c ++ slashCat r) := by simp
    rw [this, splitOn_append 47 [] _ (by simp),
      splitOn_elem_slashCat c r (h c (by simp)) (fun x hx => h x (by simp [hx]))]

/-- Pushing plain elements onto the (rooted) output buffer. -/
def pushAll (out : Bytes) (ys : List Bytes) : Bytes :=
  ys.foldl (fun o c => (if o.length != 1 then o ++ [47] else o) ++ c) out

theorem stepComp_elem (st : Bytes × Nat) (c : Bytes) (h : Elem c) :
    stepComp true st c = ((if st.1.length != 1 then st.1 ++ [47] else st.1) ++ c, st.2) := by
  unfold stepComp
  simp [h.1, h.2.2.1, h.2.2.2]

theorem stepComp_nil (r : Bool) (st : Bytes × Nat) : stepComp r st [] = st := by simp [stepComp]

theorem fold_elems (xs : List Bytes) (h : ∀ x ∈ xs, Elem x ∨ x = []) (out : Bytes) (dd : Nat) :
    xs.foldl (stepComp true) (out, dd) = (pushAll out (xs.filter (· ≠ [])), dd) := by
  induction xs generalizing out with
  | nil => rfl
  | cons x r ih =>
    have hr : ∀ y ∈ r, Elem y ∨ y = [] := fun y hy => h y (by simp [hy])
    rcases h x (by simp) with hx | hx
    · simp only [List.foldl_cons, stepComp_elem _ _ hx]
      rw [ih hr]
      simp [List.filter, hx.1, pushAll]
    · subst hx
      simp only [List.foldl_cons, stepComp_nil]
      rw [ih hr]
      simp [List.filter]

theorem pushAll_long (out : Bytes) (ys : List Bytes) (h : 2 ≤ out.length) :
    pushAll out ys = out ++ slashCat ys := by
  induction ys generalizing out with
  | nil => simp [pushAll]
  | cons y r ih =>
    have h1 : out.length ≠ 1 := by omega
    have : pushAll out (y :: r) = pushAll (out ++ [47] ++ y) r := by simp [pushAll, h1]
    rw [this, ih _ (by simp; omega)]
    simp

theorem pushAll_root (ys : List Bytes) (h : ∀ y ∈ ys, y ≠ []) (hne : ys ≠ []) :
    pushAll [47] ys = slashCat ys := by
  cases ys with
  | nil => exact absurd rfl hne
  | cons y r =>
    have hy := h y (by simp)
    have : pushAll [47] (y :: r) = pushAll ([47] ++ y) r := by simp [pushAll]
    rw [this, pushAll_long _ _ (by cases y with | nil => exact absurd rfl hy | cons a t => simp)]
    simp

/-- **`Clean("/x1/x2/…")` for elements that are plain or empty drops the empty ones.** -/
theorem clean_slashCat (xs : List Bytes) (h : ∀ x ∈ xs, Elem x ∨ x = [])
    (hne : xs.filter (· ≠ []) ≠ []) : clean (slashCat xs) = slashCat (xs.filter (· ≠ [])) := by
  have hxs : xs ≠ [] := by intro e; subst e; simp at hne
  have hsl : ∀ x ∈ xs, (47 : UInt8) ∉ x := by
    intro x hx; rcases h x hx with hh | hh
    · exact hh.2.1
    · subst hh; simp
  have hnil : slashCat xs ≠ [] := by
    cases xs with
    | nil => exact absurd rfl hxs
    | cons a t => simp
  have hroot : isRooted (slashCat xs) = true := by
    cases xs with
    | nil => exact absurd rfl hxs
    | cons a t => simp [isRooted]
  unfold clean cleanState
  rw [if_neg hnil, hroot, splitOn_slashCat xs hsl hxs]
  simp only [List.foldl_cons, stepComp_nil, cleanInit, if_true]
  rw [fold_elems xs h]
  have hf : ∀ y ∈ xs.filter (· ≠ []), y ≠ [] := by
    intro y hy; simpa using (List.mem_filter.mp hy).2
  rw [pushAll_root _ hf hne]
  have : slashCat (xs.filter (· ≠ [])) ≠ [] := by
    cases hc : xs.filter (· ≠ []) with
    | nil => exact absurd hc hne
    | cons a t => simp
  dsimp only
  rw [if_neg this]

theorem joinBuf3 (a b c : Bytes) (ha : a ≠ []) : joinBuf [a, b, c] = a ++ 47 :: b ++ 47 :: c := by
  simp [joinBuf, ha]

theorem joinBuf2 (a b : Bytes) (ha : a ≠ []) : joinBuf [a, b] = a ++ 47 :: b := by
  simp [joinBuf, ha]

theorem join_ne (l : List Bytes) (a : Bytes) (ha : a ≠ []) (hm : a ∈ l) : join l = clean (joinBuf l) := by
  unfold join
  rw [if_neg]
  simp only [List.all_eq_true, decide_eq_true_eq]
  intro hall
  exact ha (hall a hm)

end Wl2k.Path

namespace Wl2k.Mbox
open Wl2k Wl2k.Str Wl2k.Path

/-- The configured mailbox path is an absolute clean path `"/c1/…/cn"`, n ≥ 1. -/
def NormalRoot (root : FPath) : Prop := ∃ cs : List Bytes, cs ≠ [] ∧ (∀ c ∈ cs, Elem c) ∧ root = slashCat cs

/-- Folder name without slashes. -/
def Folder.name : Folder → Bytes
  | .inbox => [105, 110] | .outbox => [111, 117, 116] | .sent => [115, 101, 110, 116]
  | .archive => [97, 114, 99, 104, 105, 118, 101]

theorem Folder.dir_eq (f : Folder) : f.dir = 47 :: f.name ++ [47] := by cases f <;> rfl

theorem Folder.name_elem (f : Folder) : Elem f.name := by
  cases f <;> refine ⟨by decide, by decide, by decide, by decide⟩

/-- Directory of a folder: `root/in`. -/
def dp (root : FPath) (f : Folder) : FPath := root ++ 47 :: f.name
/-- File of a folder: `root/in/name`. -/
def fp (root : FPath) (f : Folder) (n : Bytes) : FPath := root ++ 47 :: f.name ++ 47 :: n

theorem NormalRoot.ne_nil {root : FPath} (h : NormalRoot root) : root ≠ [] := by
  obtain ⟨cs, hne, _, rfl⟩ := h
  cases cs with
  | nil => exact absurd rfl hne
  | cons a t => simp

theorem folderPath_eq {root : FPath} (h : NormalRoot root) (f : Folder) : folderPath root f = dp root f := by
  obtain ⟨cs, hne, hel, rfl⟩ := h
  have hr : slashCat cs ≠ [] := NormalRoot.ne_nil ⟨cs, hne, hel, rfl⟩
  unfold folderPath
  rw [join_ne _ _ hr (by simp), joinBuf2 _ _ hr, Folder.dir_eq]
  have e : slashCat cs ++ 47 :: (47 :: f.name ++ [47]) = slashCat (cs ++ [[], f.name, []]) := by
    simp [slashCat_append]
  rw [e, clean_slashCat]
  · have : (cs ++ [[], f.name, []]).filter (· ≠ []) = cs ++ [f.name] := by
      rw [List.filter_append]
      have h1 : cs.filter (· ≠ []) = cs := by
        apply List.filter_eq_self.mpr; intro c hc; simpa using (hel c hc).1
      rw [h1]; simp [List.filter, (Folder.name_elem f).1]
    rw [this, slashCat_append]; simp [dp]
  · intro x hx
    simp only [List.mem_append, List.mem_cons, List.mem_nil_iff, or_false] at hx
    rcases hx with hx | hx | hx | hx
    · exact Or.inl (hel x hx)
    · exact Or.inr hx
    · exact Or.inl (hx ▸ Folder.name_elem f)
    · exact Or.inr hx
  · rw [List.filter_append]
    cases cs with
    | nil => exact absurd rfl hne
    | cons a t => simp [List.filter, (hel a (by simp)).1]

theorem join3_eq {root : FPath} (h : NormalRoot root) (f : Folder) (n : Bytes) (hn : Elem n) :
    Path.join [root, f.dir, n] = fp root f n := by
  obtain ⟨cs, hne, hel, rfl⟩ := h
  have hr : slashCat cs ≠ [] := NormalRoot.ne_nil ⟨cs, hne, hel, rfl⟩
  rw [join_ne _ _ hr (by simp), joinBuf3 _ _ _ hr, Folder.dir_eq]
  have e : slashCat cs ++ 47 :: (47 :: f.name ++ [47]) ++ 47 :: n = slashCat (cs ++ [[], f.name, [], n]) := by
    simp [slashCat_append]
  rw [e, clean_slashCat]
  · have : (cs ++ [[], f.name, [], n]).filter (· ≠ []) = cs ++ [f.name, n] := by
      rw [List.filter_append]
      have h1 : cs.filter (· ≠ []) = cs := by
        apply List.filter_eq_self.mpr; intro c hc; simpa using (hel c hc).1
      rw [h1]; simp [List.filter, (Folder.name_elem f).1, hn.1]
    rw [this, slashCat_append]; simp [fp]
  · intro x hx
    simp only [List.mem_append, List.mem_cons, List.mem_nil_iff, or_false] at hx
    rcases hx with hx | hx | hx | hx | hx
    · exact Or.inl (hel x hx)
    · exact Or.inr hx
    · exact Or.inl (hx ▸ Folder.name_elem f)
    · exact Or.inr hx
    · exact Or.inl (hx ▸ hn)
  · rw [List.filter_append]
    cases cs with
    | nil => exact absurd rfl hne
    | cons a t => simp [List.filter, (hel a (by simp)).1]

theorem join_dp {root : FPath} (h : NormalRoot root) (f : Folder) (n : Bytes) (hn : Elem n) :
    Path.join [dp root f, n] = fp root f n := by
  obtain ⟨cs, hne, hel, rfl⟩ := h
  have hr : dp (slashCat cs) f ≠ [] := by simp [dp]
  rw [join_ne _ _ hr (by simp), joinBuf2 _ _ hr]
  have e : dp (slashCat cs) f ++ 47 :: n = slashCat (cs ++ [f.name, n]) := by
    simp [slashCat_append, dp]
  have hall : ∀ x ∈ cs ++ [f.name, n], Elem x := by
    intro x hx
    simp only [List.mem_append, List.mem_cons, List.mem_nil_iff, or_false] at hx
    rcases hx with hx | hx | hx
    · exact hel x hx
    · exact hx ▸ Folder.name_elem f
    · exact hx ▸ hn
  have hf : (cs ++ [f.name, n]).filter (· ≠ []) = cs ++ [f.name, n] := by
    apply List.filter_eq_self.mpr; intro c hc; simpa using (hall c hc).1
  rw [e, clean_slashCat _ (fun x hx => Or.inl (hall x hx)) (by rw [hf]; simp), hf]
  simp [slashCat_append, fp]

theorem msgPath2_eq {root : FPath} (h : NormalRoot root) (f : Folder) (n : Bytes) (hn : Elem n) :
    msgPath2 root f n = fp root f n := by
  unfold msgPath2; rw [folderPath_eq h, join_dp h f n hn]

theorem parentOf_fp (root : FPath) (f : Folder) (n : Bytes) (hn : (47 : UInt8) ∉ n) :
    parentOf (fp root f n) = dp root f ∧ baseOf (fp root f n) = n := by
  have e : fp root f n = dp root f ++ 47 :: n := by simp [fp, dp]
  unfold parentOf baseOf
  rw [e, pathSplit_append _ _ hn]
  have h1 : dp root f ++ [47] ≠ [] := by simp
  have h2 : dp root f ++ [47] ≠ [47] := by
    intro h
    have := congrArg List.length h
    simp [dp] at this
    omega
  simp [h1, h2]

theorem fp_inj (root : FPath) (f g : Folder) (n m : Bytes) (h : fp root f n = fp root g m) : f = g ∧ n = m := by
  unfold fp at h
  have h' := List.append_cancel_left (as := root) (by simpa using h)
  cases f <;> cases g <;> simp [Folder.name] at h' <;> simp_all

theorem fp_ne_dp (root : FPath) (f g : Folder) (n : Bytes) : fp root f n ≠ dp root g := by
  intro h
  unfold fp dp at h
  have h' := List.append_cancel_left (as := root) (by simpa using h)
  cases f <;> cases g <;> simp [Folder.name] at h'

theorem dp_inj (root : FPath) (f g : Folder) (h : dp root f = dp root g) : f = g := by
  unfold dp at h
  have h' := List.append_cancel_left h
  cases f <;> cases g <;> simp [Folder.name] at h' <;> rfl

end Wl2k.Mbox
