import Wl2kVerif.Proofs.Builder
namespace Wl2k.Msg
open Wl2k Wl2k.Textproto Wl2k.Fmt

/-! ### decimal numbers: `Atoi(Itoa n) = n` -/

theorem dec_digits : ∀ (n : Nat), ∀ c ∈ dec n, isDigit c = true := by
  intro n
  induction n using Nat.strongRecOn with
  | _ n ih =>
    by_cases h : n < 10
    · rw [dec_lt n h]; intro c hc; simp at hc; subst hc; exact isDigit_digit n
    · rw [dec_ge n (by omega)]
      intro c hc
      simp only [List.mem_append, List.mem_singleton] at hc
      rcases hc with hc | rfl
      · exact ih (n / 10) (by omega) c hc
      · exact isDigit_digit n

theorem parseUint_step (acc n : Nat) (t : Bytes) (ha : acc < 1844674407370955161) (hn : acc * 10 + n % 10 = m) :
    parseUintLoop acc (digit n :: t) = parseUintLoop m t := by
  have h1 := isDigit_digit n
  have h2 := dval_digit n
  simp only [isDigit] at h1
  simp only [dval] at h2
  simp only [parseUintLoop, h1, if_true, h2]
  rw [if_neg (by omega), if_neg (by omega), hn]

theorem parseUint_dec : ∀ (n : Nat) (t : Bytes), n < 9223372036854775808 →
    parseUintLoop 0 (dec n ++ t) = parseUintLoop n t := by
  intro n
  induction n using Nat.strongRecOn with
  | _ n ih =>
    intro t hn
    by_cases h : n < 10
    · rw [dec_lt n h]
      exact parseUint_step 0 n t (by omega) (by omega)
    · rw [dec_ge n (by omega), List.append_assoc, List.singleton_append, ih (n / 10) (by omega) _ (by omega)]
      exact parseUint_step (n / 10) n t (by omega) (by omega)

theorem digit_not_sign {b : UInt8} (h : isDigit b = true) : b ≠ 45 ∧ b ≠ 43 ∧ b ≠ 32 := by
  refine ⟨?_, ?_, ?_⟩ <;> (intro e; subst e; revert h; decide)

theorem dec_cons (n : Nat) : ∃ d r, dec n = d :: r ∧ isDigit d = true := by
  have := dec_length_pos n
  cases hd : dec n with
  | nil => rw [hd] at this; simp at this
  | cons d r => exact ⟨d, r, rfl, dec_digits n d (by simp [hd])⟩

theorem atoi_dec (n : Nat) (hn : n < 9223372036854775808) : atoi (dec n) = (n : Int) := by
  obtain ⟨d, r, hd, hdd⟩ := dec_cons n
  have hs := digit_not_sign hdd
  have hp := parseUint_dec n [] hn
  simp only [List.append_nil, parseUintLoop] at hp
  rw [hd] at hp ⊢
  have h45 : ((d :: r).head? == some (45 : UInt8)) = false := by simp [hs.1]
  have h43 : ((d :: r).head? == some (43 : UInt8)) = false := by simp [hs.2.1]
  unfold atoi
  simp only [h45, h43, Bool.or_self, Bool.false_eq_true, if_false, List.isEmpty_cons, hp]
  rw [if_neg (by omega)]

theorem trimString_of_ends {s : Bytes} (h1 : ∀ b, s.head? = some b → isASCIISpace b = false)
    (h2 : ∀ b, s.getLast? = some b → isASCIISpace b = false) : trimString s = s := trimWith_id s h1 h2

theorem trimString_digits {s : Bytes} (h : ∀ c ∈ s, isDigit c = true) : trimString s = s := by
  apply trimString_of_ends
  · intro b hb; exact digit_not_space (h b (List.mem_of_mem_head? hb))
  · intro b hb; exact digit_not_space (h b (List.mem_of_mem_getLast? hb))

theorem trimString_dec (n : Nat) : trimString (dec n) = dec n := trimString_digits (dec_digits n)

theorem digit_value {b : UInt8} (h : isDigit b = true) : validValueByte b = true := by
  have : ∀ n, n < 256 → isDigit (UInt8.ofNat n) = true → validValueByte (UInt8.ofNat n) = true := by decide +kernel
  simpa using this b.toNat b.toNat_lt (by simpa using h)

theorem valueOK_digits {s : Bytes} (h : ∀ c ∈ s, isDigit c = true) : valueOK s = true := by
  simp only [valueOK, List.all_eq_true]; intro c hc; exact digit_value (h c hc)

theorem splitN2_append : ∀ (a r : Bytes), (32 : UInt8) ∉ a → splitN2 (a ++ 32 :: r) = some (a, r)
  | [], r, _ => by simp [splitN2]
  | b :: t, r, h => by
    have hb : b ≠ 32 := fun e => h (by simp [e])
    have ht : (32 : UInt8) ∉ t := fun e => h (by simp [e])
    simp [splitN2, hb, splitN2_append t r ht]

end Wl2k.Msg
