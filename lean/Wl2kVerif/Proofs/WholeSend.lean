import Wl2kVerif.Proofs.WholeGen
/-
The sender's turn inside the REAL rest of a session (`restOfSession c fuel (n+1) true st`), reference
handler: the complete trace on every input the receiver can have produced, with the residual program,
residual input and handler state when the turn completes.
-/
namespace Wl2k.B2F
open Wl2k Wl2k.Fmt Wl2k.Str Wl2k.Strconv

/-- what `turns` does with the result of `handleOutbound` -/
def afterOutbound (st : SState) (kOK : Bool → SState → Proc Result) : Except SErr (Bool × SState) → Proc Result
  | .error e => finish st false (some e)
  | .ok (q, st') => kOK q st'

/-- the rest of a session that starts with a sender turn is that turn followed by `afterOutbound` -/
theorem restOfSession_send (c : Cfg) (fuel n : Nat) (st : SState) (hq : st.quitReceived = false) (hs : st.quitSent = false) :
    restOfSession c fuel (n + 1) true st =
      (handleOutbound c fuel st).bind
        (afterOutbound st fun q st' => restOfSession c fuel n false { st' with quitSent := q }) := by
  unfold restOfSession
  conv => lhs; unfold turns
  simp only [hq, hs, Bool.false_eq_true, or_self, if_false, if_true, bind_eq, pure_eq]
  rw [Proc.bind_assoc]
  congr
  funext r
  cases r with
  | error e => rfl
  | ok v => obtain ⟨q, st'⟩ := v; rfl

theorem restOfSession_zero (c : Cfg) (fuel : Nat) (b : Bool) (st : SState) :
    restOfSession c fuel 0 b st = .panic "fuel" := rfl

theorem restOfSession_quit (c : Cfg) (fuel n : Nat) (b : Bool) (st : SState) (h : st.quitReceived = true ∨ st.quitSent = true) :
    restOfSession c fuel (n + 1) b st = .ret { err := .nil, sent := st.sent, received := st.received } := by
  unfold restOfSession
  conv => lhs; unfold turns
  have : (st.quitReceived = true ∨ st.quitSent = true) := h
  simp only [this, if_true]
  rfl

/-- the trace of `p.bind f` when `p` returns -/
theorem trace_bind_done {α : Type} (p : Proc α) (f : α → Proc Result) (J : Bytes) (h : HState) (a : α) (J' : Bytes)
    (h' : HState) (evs : List Ev) (hr : Proc.run hstep p J h [] = (.done a, J', h', evs)) :
    trOf (p.bind f) J h = trOf (f a) J' h' ++ evs := by
  unfold trOf
  rw [run_bind, hr]
  simp only
  rw [run_tr]

/-- the events `finish` adds after an error: at most one write, no call -/
theorem trOf_finish_err (st : SState) (e : SErr) (J : Bytes) (h : HState) :
    NoConf (trOf (finish st false (some e)) J h) := by
  intro m hm
  cases e <;> simp [trOf, finish, Proc.run] at hm

/-! ### nothing to send -/

theorem send_empty_run (c : Cfg) (fuel : Nat) (st : SState) (h : HState) (hh : c.hasHandler = true)
    (hE : sortProposals (((offered h).filter fun m : OutMsg => m.valid).map mkProp) = []) (J : Bytes) (tr : List Ev) :
    Proc.run hstep (handleOutbound c fuel st) J h tr =
      (.done (.ok (st.remoteNoMsgs, st)), J, h,
        .wrote (if st.remoteNoMsgs then sb "FQ\r" else sb "FF\r") :: .called (.getOutbound st.remoteFW) :: tr) := by
  unfold handleOutbound
  simp only [bind_eq, pure_eq]
  rw [run_bind]
  simp only [outbound, hh, Bool.not_true, Bool.false_eq_true, if_false, Proc.run, hstep_getOutbound, hE, List.isEmpty_nil,
    if_true]
  simp [Proc.bind, Proc.run]

/-- **The sender's turn with nothing to send**: `FF` (or `FQ`) is written without reading anything; the
session goes on (with the receiver turn) on the same input. -/
theorem trOf_send_empty (c : Cfg) (fuel n : Nat) (st : SState) (h : HState) (hh : c.hasHandler = true)
    (hq : st.quitReceived = false) (hs : st.quitSent = false)
    (hE : sortProposals (((offered h).filter fun m : OutMsg => m.valid).map mkProp) = []) (J : Bytes) :
    trOf (restOfSession c fuel (n + 1) true st) J h =
      trOf (restOfSession c fuel n false { st with quitSent := st.remoteNoMsgs }) J h ++
        [.wrote (if st.remoteNoMsgs then sb "FQ\r" else sb "FF\r"), .called (.getOutbound st.remoteFW)] := by
  rw [restOfSession_send c fuel n st hq hs,
    trace_bind_done _ _ J h _ _ _ _ (send_empty_run c fuel st h hh hE J [])]
  rfl

/-! ### a block to send -/

theorem block_ne_of_sorted {c : Cfg} {h : HState} (hmb : 1 ≤ c.maxBlock)
    (hE : sortProposals (((offered h).filter fun m : OutMsg => m.valid).map mkProp) ≠ []) : blockOf' c (offered h) ≠ [] := by
  unfold blockOf'
  cases hs : sortProposals (((offered h).filter fun m : OutMsg => m.valid).map mkProp) with
  | nil => exact absurd hs hE
  | cons a t =>
    cases hb : c.maxBlock with
    | zero => omega
    | succ k => simp

/-- whatever it reads, the session first writes the whole block -/
theorem send_out (c : Cfg) (fuel n : Nat) (st : SState) (h : HState) (hh : c.hasHandler = true)
    (hq : st.quitReceived = false) (hs : st.quitSent = false) (hne : blockOf' c (offered h) ≠ []) (J : Bytes) :
    ∃ Rr, outBytes (trOf (restOfSession c fuel (n + 1) true st) J h) = blockOut (blockOf' c (offered h)) ++ Rr := by
  rw [restOfSession_send c fuel n st hq hs]
  obtain ⟨evB, hB⟩ := run_bind_trace hstep (handleOutbound c fuel st)
    (afterOutbound st fun q st' => restOfSession c fuel n false { st' with quitSent := q }) J h []
  obtain ⟨ev1, R, w1, w2⟩ := handleOutbound_out hstep c fuel st (offered h) J h h [] hh (hstep_getOutbound h _) hne
  unfold trOf
  rw [hB, w1, List.append_nil, outBytes_append, w2]
  exact ⟨R ++ outBytes evB, by simp⟩

/-- the full run of `handleOutbound` when the first line of the input is incomplete -/
theorem handleOutbound_run_eof (c : Cfg) (fuel : Nat) (st : SState) (J : Bytes) (h : HState) (tr : List Ev)
    (hh : c.hasHandler = true) (hblock : blockOf' c (offered h) ≠ []) (h13 : (13 : UInt8) ∉ J) (hf : J.length < fuel) :
    ∃ evs, Proc.run hstep (handleOutbound c fuel st) J h tr = (.done (.error .eof), [], h, evs ++ tr) ∧
      outBytes evs = blockOut (blockOf' c (offered h)) ∧ ∀ e ∈ evs, e.isConfirm = false := by
  unfold handleOutbound
  simp only [bind_eq, pure_eq]
  rw [run_bind]
  have hne : (sortProposals (((offered h).filter fun m : OutMsg => m.valid).map mkProp)).isEmpty = false := by
    cases hs : sortProposals (((offered h).filter (·.valid)).map mkProp) with
    | nil => simp [blockOf', hs] at hblock
    | cons a t => rfl
  simp only [outbound, hh, Bool.not_true, Bool.false_eq_true, if_false, Proc.run, hstep_getOutbound, hne]
  rw [run_bind]
  obtain ⟨ev1, w1, w2, w3⟩ := run_sendOutbound_eof hstep c fuel
    (sortProposals (((offered h).filter fun m : OutMsg => m.valid).map mkProp)) J h
    (.called (.getOutbound st.remoteFW) :: tr) h13 hf
  rw [w1]
  refine ⟨ev1 ++ [.called (.getOutbound st.remoteFW)], by simp [Proc.run], ?_, ?_⟩
  · rw [outBytes_append, w2]; simp [outBytes, blockOf']
  · intro e he
    simp only [List.mem_append, List.mem_singleton] at he
    rcases he with he | rfl
    · exact w3 e he
    · rfl

/-- **The sender's turn when no complete line arrives**: the block is written, the connection is reported
lost, nothing is reported sent. -/
theorem send_eof (c : Cfg) (fuel n : Nat) (st : SState) (h : HState) (hh : c.hasHandler = true)
    (hq : st.quitReceived = false) (hs : st.quitSent = false) (hne : blockOf' c (offered h) ≠ []) (J : Bytes)
    (h13 : (13 : UInt8) ∉ J) (hf : J.length < fuel) :
    outBytes (trOf (restOfSession c fuel (n + 1) true st) J h) = blockOut (blockOf' c (offered h)) ∧
      NoConf (trOf (restOfSession c fuel (n + 1) true st) J h) := by
  obtain ⟨evs, h1, h2, h3⟩ := handleOutbound_run_eof c fuel st J h [] hh hne h13 hf
  rw [restOfSession_send c fuel n st hq hs, trace_bind_done _ _ J h _ _ _ _ h1]
  simp only [afterOutbound, List.append_nil]
  have : trOf (finish st false (some SErr.eof)) [] h = [] := rfl
  rw [this, List.nil_append]
  exact ⟨h2, noConf_of_isConfirm h3⟩

theorem outBytes_calls (l : List Call) : outBytes (l.map Ev.called) = [] := by
  induction l with
  | nil => rfl
  | cons x xs ih => simpa [outBytes] using ih

/-- the tail of `handleOutbound`: the peek that confirms, and what follows it -/
def outTail (fuel : Nat) (st : SState) (rest : List (Bytes × Bool)) : Proc (Except SErr (Bool × SState)) :=
  Proc.peek fun o =>
    match o with
    | none => .ret (.error .eof)
    | some b =>
      if b ≠ 70 ∧ b ≠ 59 then do
        match ← nextLine fuel with
        | .error e => return .error e
        | .ok _ => return .error (.proto "unexpected-response")
      else do
        callAll (rest.map fun (m, _) => .setSent m false)
        return .ok (false, { st with sent := st.sent ++ rest.map (·.1) })

theorem handleOutbound_eq (c : Cfg) (fuel : Nat) (st : SState) :
    handleOutbound c fuel st = (outbound c st).bind fun out =>
      if out.isEmpty then
        Proc.write (if st.remoteNoMsgs then sb "FQ\r" else sb "FF\r") (.ret (.ok (st.remoteNoMsgs, st)))
      else (sendOutbound c fuel out).bind fun r =>
        match r with
        | .error e => .ret (.error e)
        | .ok sent =>
          (callAll ((sent.filter (·.2)).map fun (m, _) => .setSent m true)).bind fun _ =>
            outTail fuel st (sent.filter (!·.2)) := rfl

theorem run_outTail_nil (fuel : Nat) (st : SState) (rest : List (Bytes × Bool)) (h : HState) (tr : List Ev) :
    Proc.run hstep (outTail fuel st rest) [] h tr = (.done (.error .eof), [], h, tr) := rfl

theorem run_outTail_nogo (fuel : Nat) (st : SState) (rest : List (Bytes × Bool)) (x : UInt8) (r : Bytes) (h : HState)
    (tr : List Ev) (hx : x ≠ 70 ∧ x ≠ 59) :
    ∃ res J', Proc.run hstep (outTail fuel st rest) (x :: r) h tr = (res, J', h, .peeked x :: tr) ∧
      ∀ v, res ≠ .done (.ok v) := by
  unfold outTail
  simp only [Proc.run, if_pos hx, bind_eq, pure_eq]
  rw [run_bind]
  have hsil := run_silent hstep (nextLine_shape (E := Silent) ⟨trivial, fun _ => trivial⟩ fuel) (x :: r) h (.peeked x :: tr)
  generalize Proc.run hstep (nextLine fuel) (x :: r) h (.peeked x :: tr) = g at hsil ⊢
  obtain ⟨res, J', h', tr'⟩ := g
  simp only [Prod.mk.injEq] at hsil
  obtain ⟨rfl, rfl⟩ := hsil
  cases res with
  | panicked s => exact ⟨_, J', rfl, by intro v hv; cases hv⟩
  | blocked => exact ⟨_, J', rfl, by intro v hv; cases hv⟩
  | done v =>
    cases v with
    | error e => exact ⟨_, J', rfl, by intro v hv; cases hv⟩
    | ok l => exact ⟨_, J', rfl, by intro v hv; cases hv⟩

theorem run_outTail_go (fuel : Nat) (st : SState) (rest : List (Bytes × Bool)) (x : UInt8) (r : Bytes) (h : HState)
    (tr : List Ev) (hx : ¬ (x ≠ 70 ∧ x ≠ 59)) :
    ∃ h', Proc.run hstep (outTail fuel st rest) (x :: r) h tr =
      (.done (.ok (false, { st with sent := st.sent ++ rest.map (·.1) })), x :: r, h',
        (rest.map fun y : Bytes × Bool => Call.setSent y.1 false).reverse.map Ev.called ++ .peeked x :: tr) := by
  unfold outTail
  simp only [Proc.run, if_neg hx, bind_eq, pure_eq]
  rw [run_bind]
  obtain ⟨h4, ec2⟩ := run_callAll hstep (x :: r) (rest.map fun y : Bytes × Bool => Call.setSent y.1 false) h (.peeked x :: tr)
  rw [ec2]
  exact ⟨h4, rfl⟩

/-- **The sender's turn when the `FS` line arrives** (one plain answer per proposal): block, frames of the
accepted proposals and the rejections are in `T1`; then either the input ends (connection lost), or the
next byte is not 'F' / ';' (protocol error, echoed by `finish`: `F`), or it is and the turn completes: the
accepted proposals are reported sent (`C`) and the session goes on with the receiver turn on the rest of
the input, which still starts with the byte just peeked. -/
theorem send_fs (c : Cfg) (fuel n : Nat) (st : SState) (h : HState) (hh : c.hasHandler = true)
    (hq : st.quitReceived = false) (hs : st.quitSent = false) (as : List UInt8) (J2 : Bytes)
    (hlen : as.length = (blockOf' c (offered h)).length) (hne : as ≠ []) (hpl : ∀ a ∈ as, PlainAnswer a)
    (hf : (fsLine as).length < fuel) (hbig : ∀ p ∈ blockOf' c (offered h), 6 ≤ p.csize) :
    ∃ T1, outBytes T1 = blockOut (blockOf' c (offered h)) ++ framesBytes c.maxMsgLen (blockOf' c (offered h)) as ∧
      NoConf T1 ∧
      ((J2 = [] ∧ trOf (restOfSession c fuel (n + 1) true st) (fsLine as ++ 13 :: J2) h = T1) ∨
       (∃ x r F, J2 = x :: r ∧ isGo x = false ∧ NoConf F ∧
          trOf (restOfSession c fuel (n + 1) true st) (fsLine as ++ 13 :: J2) h = F ++ .peeked x :: T1) ∨
       (∃ x r C h' st', J2 = x :: r ∧ isGo x = true ∧ HLe h' h ∧ outBytes C = [] ∧
          (∀ m, Ev.called (.setSent m false) ∈ C →
            ∃ p a, (p, a) ∈ (blockOf' c (offered h)).zip as ∧ a = ansAccept ∧ p.mid = m) ∧
          trOf (restOfSession c fuel (n + 1) true st) (fsLine as ++ 13 :: J2) h =
            trOf (restOfSession c fuel n false st') (x :: r) h' ++ (C ++ .peeked x :: T1))) := by
  have hblock : blockOf' c (offered h) ≠ [] := by
    intro e; rw [e] at hlen; simp at hlen; exact hne hlen
  have hne' : (sortProposals (((offered h).filter fun m : OutMsg => m.valid).map mkProp)).isEmpty = false := by
    cases hs : sortProposals (((offered h).filter (·.valid)).map mkProp) with
    | nil => simp [blockOf', hs] at hblock
    | cons a t => rfl
  obtain ⟨ev1, sent', h2, w1, w2, w3, w4, _⟩ := run_sendOutbound_fs hstep c fuel
    (sortProposals (((offered h).filter fun m : OutMsg => m.valid).map mkProp))
    as J2 h [.called (.getOutbound st.remoteFW)] hlen hne hpl hf hbig
  obtain ⟨h3, ec⟩ := run_callAll hstep J2 ((sent'.filter (·.2)).map fun x : Bytes × Bool => Call.setSent x.1 true) h2
    (ev1 ++ [.called (.getOutbound st.remoteFW)])
  have hle3 : HLe h3 h := by
    have e1 := run_hle (sendOutbound c fuel (sortProposals (((offered h).filter fun m : OutMsg => m.valid).map mkProp)))
      (fsLine as ++ 13 :: J2) h [.called (.getOutbound st.remoteFW)]
    rw [w1] at e1
    have e2 := run_hle (callAll ((sent'.filter (·.2)).map fun x : Bytes × Bool => Call.setSent x.1 true)) J2 h2
      (ev1 ++ [.called (.getOutbound st.remoteFW)])
    rw [ec] at e2
    exact e2.trans e1
  -- the common part of the trace
  refine ⟨((sent'.filter (·.2)).map fun x : Bytes × Bool => Call.setSent x.1 true).reverse.map Ev.called ++
      (ev1 ++ [.called (.getOutbound st.remoteFW)]), ?_, ?_, ?_⟩
  · rw [outBytes_append, outBytes_append, outBytes_calls, w2]
    simp [outBytes, blockOf']
  · apply noConf_of_isConfirm
    intro e he
    simp only [List.mem_append, List.mem_singleton] at he
    rcases he with he | he | rfl
    · exact setSent_true_evs _ e he
    · exact w3 e he
    · rfl
  · -- the run of `handleOutbound` up to the peek
    have hrun : ∀ (k : Except SErr (Bool × SState) → Proc Result),
        Proc.run hstep ((handleOutbound c fuel st).bind k) (fsLine as ++ 13 :: J2) h [] =
          Proc.run hstep ((outTail fuel st (sent'.filter (!·.2))).bind k) J2 h3
            (((sent'.filter (·.2)).map fun x : Bytes × Bool => Call.setSent x.1 true).reverse.map Ev.called ++
              (ev1 ++ [.called (.getOutbound st.remoteFW)])) := by
      intro k
      rw [handleOutbound_eq, Proc.bind_assoc, run_bind]
      simp only [outbound, hh, Bool.not_true, Bool.false_eq_true, if_false, Proc.run, hstep_getOutbound, hne']
      rw [Proc.bind_assoc, run_bind, w1]
      simp only
      rw [Proc.bind_assoc, run_bind, ec]
    rw [restOfSession_send c fuel n st hq hs]
    unfold trOf
    rw [hrun, run_bind]
    cases J2 with
    | nil =>
      left
      refine ⟨rfl, ?_⟩
      rw [run_outTail_nil]
      rfl
    | cons x r =>
      right
      by_cases hgo : x ≠ 70 ∧ x ≠ 59
      · left
        have hx : isGo x = false := by
          simp only [isGo, Bool.or_eq_false_iff, beq_eq_false_iff_ne]
          exact hgo
        obtain ⟨res, J', e1, e2⟩ := run_outTail_nogo fuel st (sent'.filter (!·.2)) x r h3
          (((sent'.filter (·.2)).map fun x : Bytes × Bool => Call.setSent x.1 true).reverse.map Ev.called ++
            (ev1 ++ [.called (.getOutbound st.remoteFW)])) hgo
        rw [e1]
        cases res with
        | panicked s => exact ⟨x, r, [], rfl, hx, noConf_nil, rfl⟩
        | blocked => exact ⟨x, r, [], rfl, hx, noConf_nil, rfl⟩
        | done v =>
          cases v with
          | ok v' => exact absurd rfl (e2 v')
          | error e =>
            simp only [afterOutbound]
            refine ⟨x, r, trOf (finish st false (some e)) J' h3, rfl, hx, trOf_finish_err st e J' h3, ?_⟩
            rw [run_tr]
            rfl
      · right
        have hx : isGo x = true := by
          simp only [isGo, Bool.or_eq_true, beq_iff_eq]
          by_cases h70 : x = 70
          · exact Or.inl h70
          · by_cases h59 : x = 59
            · exact Or.inr h59
            · exact absurd ⟨h70, h59⟩ hgo
        obtain ⟨h4, e1⟩ := run_outTail_go fuel st (sent'.filter (!·.2)) x r h3
          (((sent'.filter (·.2)).map fun x : Bytes × Bool => Call.setSent x.1 true).reverse.map Ev.called ++
            (ev1 ++ [.called (.getOutbound st.remoteFW)])) hgo
        have hle4 : HLe h4 h := by
          have e2 := run_hle (outTail fuel st (sent'.filter (!·.2))) (x :: r) h3
            (((sent'.filter (·.2)).map fun x : Bytes × Bool => Call.setSent x.1 true).reverse.map Ev.called ++
              (ev1 ++ [.called (.getOutbound st.remoteFW)]))
          rw [e1] at e2
          exact e2.trans hle3
        rw [e1]
        simp only [afterOutbound]
        refine ⟨x, r, ((sent'.filter (!·.2)).map fun x : Bytes × Bool => Call.setSent x.1 false).reverse.map Ev.called, h4,
          { st with sent := st.sent ++ (sent'.filter (!·.2)).map (·.1), quitSent := false },
          rfl, hx, hle4, outBytes_calls _, ?_, ?_⟩
        · intro m hm
          simp only [List.mem_map, List.mem_reverse, List.mem_filter] at hm
          obtain ⟨cc, ⟨y, ⟨hy, hy2⟩, rfl⟩, hcc⟩ := hm
          simp only [Ev.called.injEq, Call.setSent.injEq] at hcc
          obtain ⟨y1, y2⟩ := y
          simp only [Bool.not_eq_true'] at hy2
          simp only at hcc hy2
          subst hy2
          rw [← hcc.1]
          exact w4 y1 hy
        · rw [run_tr]

theorem sb_FF : sb "FF\r" = [70, 70, 13] := by decide +kernel
theorem sb_FQ : sb "FQ\r" = [70, 81, 13] := by decide +kernel

theorem blockOut_head (block : List Proposal) (hne : block ≠ []) : ∃ t, blockOut block = 70 :: t := by
  cases block with
  | nil => exact absurd rfl hne
  | cons p ps =>
    obtain ⟨t, ht⟩ := pl_eq p
    simp only [blockOut, blockBytes, ht, List.map_cons, List.flatten_cons, List.cons_append]
    exact ⟨_, rfl⟩

/-- **A session whose next turn is a sender turn writes 'F' first** (or nothing at all). -/
theorem send_out_head (c : Cfg) (fuel n : Nat) (st : SState) (h : HState) (hh : c.hasHandler = true)
    (hmb : 1 ≤ c.maxBlock) (J : Bytes) :
    outBytes (trOf (restOfSession c fuel n true st) J h) = [] ∨
      ∃ t, outBytes (trOf (restOfSession c fuel n true st) J h) = 70 :: t := by
  cases n with
  | zero => left; rfl
  | succ n =>
    by_cases hquit : st.quitReceived = true ∨ st.quitSent = true
    · left; rw [restOfSession_quit c fuel n true st hquit]; rfl
    · have hq : st.quitReceived = false := by
        cases hq : st.quitReceived with
        | false => rfl
        | true => exact absurd (Or.inl hq) hquit
      have hs : st.quitSent = false := by
        cases hs : st.quitSent with
        | false => rfl
        | true => exact absurd (Or.inr hs) hquit
      right
      by_cases hE : sortProposals (((offered h).filter fun m : OutMsg => m.valid).map mkProp) = []
      · rw [trOf_send_empty c fuel n st h hh hq hs hE J, outBytes_append]
        cases st.remoteNoMsgs with
        | true => simp only [outBytes, sb_FQ, if_true, List.nil_append, List.cons_append]; exact ⟨_, rfl⟩
        | false =>
          simp only [outBytes, sb_FF, Bool.false_eq_true, if_false, List.nil_append, List.cons_append]; exact ⟨_, rfl⟩
      · obtain ⟨Rr, hR⟩ := send_out c fuel n st h hh hq hs (block_ne_of_sorted hmb hE) J
        obtain ⟨t, ht⟩ := blockOut_head _ (block_ne_of_sorted hmb hE)
        exact ⟨t ++ Rr, by rw [hR, ht]; rfl⟩

end Wl2k.B2F
