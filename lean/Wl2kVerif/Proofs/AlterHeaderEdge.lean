import Wl2kVerif.Proofs.AlterHeaderSub
/-
The boundary of the header clause: what happens at index 0 (SOH) and index 1 (length byte), where insertion /
deletion is NOT always refused.
-/
namespace Wl2k.B2F
open Wl2k Wl2k.Strconv

variable {H : Type} (hstep : H → Call → H × Reply)

/-- inserting the byte `L + 1` in front of the length byte `L` gives the frame whose title is `L :: qtitle` -/
theorem frameOf_insert_len (m : Nat) (qtitle d : Bytes) :
    (frameOf m qtitle d).insertIdx 1 (UInt8.ofNat (qtitle.length + 4)) = frameOf m (lenByte qtitle :: qtitle) d := by
  rw [frameOf_cons, frameOf_cons, List.insertIdx_succ_cons, List.insertIdx_zero]
  have : lenByte (lenByte qtitle :: qtitle) = UInt8.ofNat (qtitle.length + 4) := by
    unfold lenByte
    rw [List.length_cons, show qtitle.length + 1 + 1 + 2 = qtitle.length + 4 by omega]
    apply UInt8.toNat_inj.1
    simp
  rw [this]; simp

/-- deleting the length byte of the frame whose title is `L :: t`, `L = |t| + 3` -/
theorem frameOf_erase_len (m : Nat) (t d : Bytes) :
    (frameOf m (lenByte t :: t) d).eraseIdx 1 = frameOf m t d := by
  rw [frameOf_cons, frameOf_cons, List.eraseIdx_cons_succ, List.eraseIdx_cons_zero]
  simp

theorem lenByte_ne_zero (qtitle : Bytes) (hlen : qtitle.length + 3 < 256) : lenByte qtitle ≠ 0 := by
  intro e
  have := lenByte_toNat qtitle hlen
  rw [e] at this
  simp at this

/-- a program that ends in `ret (error e)` whatever its first part answers never returns a payload -/
theorem run_bind_error_not_ok {α β : Type} (P : Proc α) (e : SErr) (inp : Bytes) (h : H) (tr : List Ev) (x : β) :
    (Proc.run hstep (Proc.bind P fun _ => (.ret (.error e) : Proc (Except SErr β))) inp h tr).1 ≠ .done (.ok x) := by
  rw [run_bind]
  generalize Proc.run hstep P inp h tr = r
  obtain ⟨a, b, c, d⟩ := r
  cases a <;> simp [Proc.run]

/-- **any first byte other than SOH**: no payload is returned -/
theorem run_rc_first_not_soh (fuel : Nat) (p : Proposal) (c : UInt8) (X : Bytes) (hc : c ≠ 1) (h : H) (tr : List Ev)
    (x : Bytes) :
    (Proc.run hstep (readCompressed fuel p) (c :: X) h tr).1 ≠ .done (.ok x) := by
  unfold readCompressed
  simp only [Proc.run]
  by_cases h42 : c = 42
  · rw [if_pos h42]
    exact run_bind_error_not_ok hstep _ _ _ _ _ _
  · rw [if_neg h42, if_pos hc]
    simp [Proc.run]

/-- … and the exact answer when that byte is not `*` either -/
theorem run_rc_first_other (fuel : Nat) (p : Proposal) (c : UInt8) (X : Bytes) (hc : c ≠ 1) (h42 : c ≠ 42)
    (h : H) (tr : List Ev) :
    Proc.run hstep (readCompressed fuel p) (c :: X) h tr = (.done (.error (.proto "first-byte-not-soh")), X, h, tr) := by
  unfold readCompressed
  simp only [Proc.run, if_neg h42, if_pos hc]

/-- **a second SOH in front of the frame** -/
theorem run_rc_insert_soh (m : Nat) (qtitle d rest : Bytes) (hq : (0 : UInt8) ∉ qtitle)
    (hlen : qtitle.length + 3 < 256) (p : Proposal)
    (fuel : Nat) (hfuel : qtitle.length + 4 < fuel) (h : H) (tr : List Ev) :
    Proc.run hstep (readCompressed fuel p) ((frameOf m qtitle d).insertIdx 0 1 ++ rest) h tr =
      (.done (.error (.proto "header-length-mismatch")), frameTail m d ++ rest, h, tr) := by
  rw [frameOf_cons, List.insertIdx_zero]
  have := run_rc_hdr_mismatch hstep fuel p 1 (lenByte qtitle :: qtitle) [48] (frameTail m d ++ rest)
    (by simp only [List.mem_cons, not_or]; exact ⟨fun e => lenByte_ne_zero qtitle hlen e.symm, hq⟩)
    (by decide) (by simp; omega) (by simp; omega) (by simp) h tr
  simpa using this

/-! ### decidable equality of run results, for evaluated examples (scoped: `open Wl2k.B2F.HeaderEx`) -/
namespace HeaderEx

def decEqExcept {ε α : Type} [DecidableEq ε] [DecidableEq α] : DecidableEq (Except ε α)
  | .ok a, .ok b => if h : a = b then isTrue (by rw [h]) else isFalse (fun e => by cases e; exact h rfl)
  | .error a, .error b => if h : a = b then isTrue (by rw [h]) else isFalse (fun e => by cases e; exact h rfl)
  | .ok _, .error _ => isFalse (fun e => by cases e)
  | .error _, .ok _ => isFalse (fun e => by cases e)

def decEqEnded {α : Type} [DecidableEq α] : DecidableEq (Ended α)
  | .done a, .done b => if h : a = b then isTrue (by rw [h]) else isFalse (fun e => by cases e; exact h rfl)
  | .panicked a, .panicked b => if h : a = b then isTrue (by rw [h]) else isFalse (fun e => by cases e; exact h rfl)
  | .blocked, .blocked => isTrue rfl
  | .done _, .panicked _ => isFalse (fun e => by cases e)
  | .done _, .blocked => isFalse (fun e => by cases e)
  | .panicked _, .done _ => isFalse (fun e => by cases e)
  | .panicked _, .blocked => isFalse (fun e => by cases e)
  | .blocked, .done _ => isFalse (fun e => by cases e)
  | .blocked, .panicked _ => isFalse (fun e => by cases e)

scoped instance {ε α : Type} [DecidableEq ε] [DecidableEq α] : DecidableEq (Except ε α) := decEqExcept
scoped instance {α : Type} [DecidableEq α] : DecidableEq (Ended α) := decEqEnded

end HeaderEx

end Wl2k.B2F
