import Wl2kVerif.Util.Hex
/-
RFC 1321 MD5, executable. It stands in for Go's `crypto/md5` (an external call of
`secureLoginResponse`); it is cross-checked against `crypto/md5` on every
correspondence run, not proved against the RFC (trusted base, DESIGN §8).
-/
namespace Wl2k.Md5

def sTab : Array UInt32 := #[
  7,12,17,22,7,12,17,22,7,12,17,22,7,12,17,22,
  5,9,14,20,5,9,14,20,5,9,14,20,5,9,14,20,
  4,11,16,23,4,11,16,23,4,11,16,23,4,11,16,23,
  6,10,15,21,6,10,15,21,6,10,15,21,6,10,15,21]

def kTab : Array UInt32 := #[
  0xd76aa478,0xe8c7b756,0x242070db,0xc1bdceee,0xf57c0faf,0x4787c62a,0xa8304613,0xfd469501,
  0x698098d8,0x8b44f7af,0xffff5bb1,0x895cd7be,0x6b901122,0xfd987193,0xa679438e,0x49b40821,
  0xf61e2562,0xc040b340,0x265e5a51,0xe9b6c7aa,0xd62f105d,0x02441453,0xd8a1e681,0xe7d3fbc8,
  0x21e1cde6,0xc33707d6,0xf4d50d87,0x455a14ed,0xa9e3e905,0xfcefa3f8,0x676f02d9,0x8d2a4c8a,
  0xfffa3942,0x8771f681,0x6d9d6122,0xfde5380c,0xa4beea44,0x4bdecfa9,0xf6bb4b60,0xbebfbc70,
  0x289b7ec6,0xeaa127fa,0xd4ef3085,0x04881d05,0xd9d4d039,0xe6db99e5,0x1fa27cf8,0xc4ac5665,
  0xf4292244,0x432aff97,0xab9423a7,0xfc93a039,0x655b59c3,0x8f0ccc92,0xffeff47d,0x85845dd1,
  0x6fa87e4f,0xfe2ce6e0,0xa3014314,0x4e0811a1,0xf7537e82,0xbd3af235,0x2ad7d2bb,0xeb86d391]

def rotl (x : UInt32) (c : UInt32) : UInt32 := (x <<< c) ||| (x >>> (32 - c))

def le32 (b0 b1 b2 b3 : UInt8) : UInt32 :=
  b0.toUInt32 ||| (b1.toUInt32 <<< 8) ||| (b2.toUInt32 <<< 16) ||| (b3.toUInt32 <<< 24)

def wordsOf (blk : Array UInt8) : Array UInt32 :=
  (Array.range 16).map fun i =>
    le32 (blk.getD (4*i) 0) (blk.getD (4*i+1) 0) (blk.getD (4*i+2) 0) (blk.getD (4*i+3) 0)

structure St where
  a : UInt32
  b : UInt32
  c : UInt32
  d : UInt32

def round (m : Array UInt32) (s : St) (i : Nat) : St :=
  let (f, g) :=
    if i < 16 then ((s.b &&& s.c) ||| ((~~~ s.b) &&& s.d), i)
    else if i < 32 then ((s.d &&& s.b) ||| ((~~~ s.d) &&& s.c), (5*i + 1) % 16)
    else if i < 48 then (s.b ^^^ s.c ^^^ s.d, (3*i + 5) % 16)
    else (s.c ^^^ (s.b ||| (~~~ s.d)), (7*i) % 16)
  let f := f + s.a + kTab.getD i 0 + m.getD g 0
  { a := s.d, d := s.c, c := s.b, b := s.b + rotl f (sTab.getD i 0) }

def block (s : St) (blk : Array UInt8) : St :=
  let m := wordsOf blk
  let t := (List.range 64).foldl (round m) s
  { a := s.a + t.a, b := s.b + t.b, c := s.c + t.c, d := s.d + t.d }

def pad (msg : Bytes) : Bytes :=
  let n := msg.length
  let zeros := (55 + 64 - n % 64) % 64
  let bits := n * 8
  msg ++ [(0x80 : UInt8)] ++ List.replicate zeros (0 : UInt8) ++
    ((List.range 8).map (fun i => UInt8.ofNat ((bits >>> (8*i)) % 256)) : Bytes)

partial def chunks (bs : Array UInt8) (i : Nat) (acc : Array (Array UInt8)) : Array (Array UInt8) :=
  if i + 64 ≤ bs.size then chunks bs (i + 64) (acc.push (bs.extract i (i + 64))) else acc

def outWord (w : UInt32) : Bytes :=
  [w.toUInt8, (w >>> 8).toUInt8, (w >>> 16).toUInt8, (w >>> 24).toUInt8]

def sum (msg : Bytes) : Bytes :=
  let p := (pad msg).toArray
  let s := (chunks p 0 #[]).foldl block ⟨0x67452301, 0xefcdab89, 0x98badcfe, 0x10325476⟩
  outWord s.a ++ outWord s.b ++ outWord s.c ++ outWord s.d

end Wl2k.Md5
