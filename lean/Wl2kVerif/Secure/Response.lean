import Wl2kVerif.Secure.Md5
import Wl2kVerif.Std.Fmt
/-
Model of `fbb/secure.go: secureLoginResponse`.
The salt is NOT written here: it is regenerated from /repo into `Gen.Tables`
and passed in; `Props.C16.salt_eq` pins it to the published 64 bytes.
-/
namespace Wl2k.Secure
open Wl2k.Fmt

/-- `pr := int32(sum[3] & 0x3f); for i := 2; i >= 0; i-- { pr = (pr << 8) | int32(sum[i]) }` -/
def prOf (dg : Bytes) : Nat :=
  let b := fun i => (dg.getD i 0).toNat
  let pr := b 3 &&& 0x3f
  let pr := (pr <<< 8) ||| b 2
  let pr := (pr <<< 8) ||| b 1
  (pr <<< 8) ||| b 0

/-- `str := fmt.Sprintf("%08d", pr); return str[len(str)-8:]` -/
def respOfDigest (dg : Bytes) : Bytes := lastN 8 (dec0 8 (prOf dg))

def response (salt challenge password : Bytes) : Bytes :=
  respOfDigest (Md5.sum (challenge ++ password ++ salt))

end Wl2k.Secure
