/-
Byte-string helpers shared by the models and the line-protocol driver.
Core-only (the driver is a `lean_exe`, so nothing here may import Mathlib).
-/
namespace Wl2k

abbrev Bytes := List UInt8

def hexDigit (n : Nat) : Char :=
  if n < 10 then Char.ofNat (48 + n) else Char.ofNat (87 + n)

def hexVal (c : Char) : Option Nat :=
  if '0' ≤ c ∧ c ≤ '9' then some (c.toNat - 48)
  else if 'a' ≤ c ∧ c ≤ 'f' then some (c.toNat - 87)
  else if 'A' ≤ c ∧ c ≤ 'F' then some (c.toNat - 55)
  else none

def toHex (bs : Bytes) : String :=
  String.ofList (bs.flatMap fun b => [hexDigit (b.toNat / 16), hexDigit (b.toNat % 16)])

/-- `-` denotes the empty byte string (so that every field is non-empty on the wire). -/
def toHexField (bs : Bytes) : String := if bs.isEmpty then "-" else toHex bs

partial def fromHexAux : List Char → Bytes → Option Bytes
  | [], acc => some acc.reverse
  | [_], _ => none
  | a :: b :: rest, acc =>
    match hexVal a, hexVal b with
    | some x, some y => fromHexAux rest (UInt8.ofNat (x * 16 + y) :: acc)
    | _, _ => none

def fromHexField (s : String) : Option Bytes :=
  if s == "-" then some [] else fromHexAux s.toList []

def strBytes (s : String) : Bytes := s.toUTF8.toList

/-- Render bytes as a Lean `String` when they are valid UTF-8, else hex in angle brackets (driver output only). -/
def showBytes (bs : Bytes) : String := toHexField bs

def parseInt? (s : String) : Option Int :=
  if s.startsWith "-" then (s.drop 1).toString.toNat?.map (fun n => - (Int.ofNat n))
  else s.toNat?.map Int.ofNat

end Wl2k
