import Wl2kVerif.Util.Hex
/-
C17, part 2: the reporter state machines of `writeCompressed` / `readCompressed` (after the `fix:`
commit: the reporters read atomic counters published by the transfer goroutine).
-/
namespace Wl2k.Status

structure Report where
  transferred : Int
  total : Int
  done : Bool
deriving Repr, DecidableEq

/-- send side. A tick observes the counter `remaining` (bytes not yet handed to the connection) and the
transport's transmit-buffer length (0 when the transport has none); the final report comes from the
`statusDone` branch. -/
inductive SendEv where
  | tick (remaining txBuf : Nat)
  | done (remaining : Nat)

def sendReport (total : Nat) : SendEv → Report
  | .tick r t => { transferred := max 0 ((total : Int) - r - t), total := total, done := false }
  | .done r => { transferred := (total : Int) - r, total := total, done := true }

/-- a complete run: any number of ticks, then exactly one done (the goroutine returns after it) -/
def sendRun (total : Nat) (ticks : List (Nat × Nat)) (finalRemaining : Nat) : List Report :=
  ticks.map (fun (r, t) => sendReport total (.tick r t)) ++ [sendReport total (.done finalRemaining)]

/-- receive side: each notification observes the counter `received`; closing the channel gives the final report -/
def recvRun (total : Nat) (notes : List Nat) (finalReceived : Nat) : List Report :=
  notes.map (fun n => { transferred := n, total := total, done := false }) ++
    [{ transferred := finalReceived, total := total, done := true }]

end Wl2k.Status
