import Wl2kVerif.Util.Hex
/-
C17, part 1: a conservative race criterion over the goroutine access facts regenerated from /repo
(`Gen.goroutineAccessFacts`, harness/cmd/extract/goroutines.go).

For every variable of the enclosing function that a `go func(){…}()` literal touches, the facts list
the goroutine-side accesses and the function-side accesses that can run concurrently (everything after
the go statement). Two accesses CONFLICT when the variable is not of a synchronisation-safe type, at
least one of them mutates, and the goroutine-side access is not ordered after the whole function body
(i.e. it does not sit in a branch entered by receiving from a channel the function closes only in a
defer). Unknown types and methods count as mutating: the criterion fails closed.
-/
namespace Wl2k.Status

/-- types whose methods may be called from several goroutines. The extractor emits the declared or
inferred type; matching is on the exact strings (pattern matching reduces in the kernel). -/
def syncSafeType : String → Bool
  | "chan" => true
  | "atomic.Int64" => true
  | "atomic.Int32" => true
  | "atomic.Uint64" => true
  | "atomic.Uint32" => true
  | "atomic.Bool" => true
  | "sync.Mutex" => true
  | "sync.RWMutex" => true
  | "sync.WaitGroup" => true
  | "sync.Once" => true
  | "*time.Ticker" => true
  | "" => true            -- a field selector such as `statusTicker.C` (a channel of a Ticker)
  | _ => false

def isBuffer : String → Bool
  | "*bytes.Buffer" => true
  | "bytes.Buffer" => true
  | _ => false

def bufferReadOnlyMethod : String → Bool
  | "Len" => true
  | "Cap" => true
  | "Bytes" => true
  | "String" => true
  | _ => false

/-- does this access leave the value unchanged? -/
def readOnly (ty kind : String) : Bool :=
  (match kind with | "read" => true | _ => false) || (isBuffer ty && bufferReadOnlyMethod kind)

def conflict (ty : String) (g : String × Bool) (m : String) : Bool :=
  !syncSafeType ty && !g.2 && (!readOnly ty g.1 || !readOnly ty m)

abbrev Fact := String × String × String × List (String × Bool) × List String

def factRaceFree (f : Fact) : Bool :=
  let (_, _, ty, gs, ms) := f
  gs.all fun g => ms.all fun m => !conflict ty g m

def raceFree (fs : List Fact) : Bool := fs.all factRaceFree

/-- the conflicting (function, variable, goroutine access, function access) tuples: the witness when `raceFree` is false -/
def conflicts (fs : List Fact) : List (String × String × String × String) :=
  fs.flatMap fun (fn, v, ty, gs, ms) =>
    gs.flatMap fun g => (ms.filter fun m => conflict ty g m).map fun m => (fn, v, g.1, m)

end Wl2k.Status
