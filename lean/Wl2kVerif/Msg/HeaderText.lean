import Wl2kVerif.Msg.Message
import Wl2kVerif.Std.Fmt
/-
The two external functions of the message model (`Ext.encode`, `Ext.decode`), transcribed
function-for-function from the sources they stand for:

* Go `mime` (src/mime/encodedword.go, identical in go1.23.5 and go1.24.0 up to comments):
  `WordEncoder.Encode` for `QEncoding` (`needsEncoding`, `encodeWord`, `openWord`, `qEncode`,
  `writeQString`, `closeWord`, `splitWord`, `isUTF8`), `WordDecoder.DecodeHeader` (`decode`, `qDecode`,
  `readHexByte`, `fromHex`, `convert`, `hasNonWhitespace`), with `base64.StdEncoding.DecodeString`
  (src/encoding/base64/base64.go: `Decode`, `decodeQuantum`) and `strings.EqualFold`, `strings.Index`;
* fbb/header.go: `encodeHeaderText` (`toCharset` = go-charset's code-page writer = `toLatin1`), and
  `WordDecoder.DecodeHeader` (the "=?" test, `utf8.Valid`, the ISO-8859-1 fallback through
  go-charset's `translateFromCodePage`, whose ISO-8859-1 table is the identity on 0..255).

Everything is a total function on ARBITRARY byte strings (`Bytes = List UInt8`), structural or with
explicit fuel, so that the kernel can evaluate it. Errors are values: `Option` (`none` = the Go error)
or a `Bool` flag next to the returned text.
-/
namespace Wl2k.Msg.HeaderText
open Wl2k Wl2k.Utf8 Wl2k.Textproto

/-! ### constants -/

/-- `DefaultCharset = "ISO-8859-1"` -/
def defaultCharset : Bytes := [73, 83, 79, 45, 56, 56, 53, 57, 45, 49]
/-- `"UTF-8"` (the argument of `isUTF8`) -/
def cUTF8 : Bytes := [85, 84, 70, 45, 56]
/-- `"utf-8"`, `"iso-8859-1"`, `"us-ascii"` (the arguments of `convert`) -/
def cUtf8 : Bytes := [117, 116, 102, 45, 56]
def cLatin1 : Bytes := [105, 115, 111, 45, 56, 56, 53, 57, 45, 49]
def cAscii : Bytes := [117, 115, 45, 97, 115, 99, 105, 105]
/-- `"=?"` and `"?="` -/
def eqq : Bytes := [61, 63]
def qeq : Bytes := [63, 61]

/-! ### `strings` -/

/-- `strings.Index(s, sub)`; `none` = -1. -/
def index (sub : Bytes) : Bytes → Option Nat
  | [] => if sub.isEmpty then some 0 else none
  | b :: t => if sub.isPrefixOf (b :: t) then some 0 else (index sub t).map (· + 1)

/-- the ASCII/ASCII step of `strings.EqualFold`: equal, or an upper-case letter and its lower-case form -/
def asciiFoldEq (a b : UInt8) : Bool :=
  a == b ||
    (let lo := if a < b then a else b
     let hi := if a < b then b else a
     65 ≤ lo && lo ≤ 90 && hi == lo + 32)

/-- the general step of `strings.EqualFold` for an ASCII byte `a` against a rune `r ≥ 0x80`
(incl. U+FFFD for an invalid byte): `unicode.SimpleFold` orbits that leave ASCII are only
K k U+212A (KELVIN SIGN) and S s U+017F (LATIN SMALL LETTER LONG S). -/
def foldRuneEq (a : UInt8) (r : Nat) : Bool :=
  ((a == 75 || a == 107) && r == 0x212A) || ((a == 83 || a == 115) && r == 0x17F)

/-- `strings.EqualFold(c, x)` (= `EqualFold(x, c)`) for an ASCII-only `c` (all callers pass a constant):
runes of `x` are decoded as Go does (`utf8.DecodeRuneInString`, invalid byte = U+FFFD, width 1);
both strings must be exhausted together. Structural in `c`. -/
def equalFoldC : Bytes → Bytes → Bool
  | [], [] => true
  | [], _ :: _ => false
  | _ :: _, [] => false
  | a :: s, b :: t =>
    if b < 0x80 then asciiFoldEq a b && equalFoldC s t
    else
      let (r, n) := decodeRune (b :: t)
      foldRuneEq a r && equalFoldC s (t.drop (n - 1))

/-! ### `unicode/utf8` -/

/-- `utf8.Valid`: no position decodes to (RuneError, 1). (A genuine U+FFFD, EF BF BD, has width 3.)
Structural: `skip` bytes of the current character are still to be passed over. -/
def validS : Nat → Bytes → Bool
  | _, [] => true
  | k + 1, _ :: t => validS k t
  | 0, b :: t =>
    let (r, n) := decodeRune (b :: t)
    !(r == runeError && n == 1) && validS (n - 1) t

def utf8Valid (s : Bytes) : Bool := validS 0 s

/-! ### `mime.QEncoding.Encode` -/

/-- `needsEncoding(s)`: the loop ranges over the RUNES of `s` (an invalid byte is U+FFFD). -/
def needsEncoding (s : Bytes) : Bool :=
  (runes s).any fun b => (b < 32 || b > 126) && b != 9

/-- `upperhex[n]` for `n < 16` -/
def upperhex (n : UInt8) : UInt8 := if n < 10 then 48 + n else 55 + n

/-- one byte of `writeQString` -/
def qByte (b : UInt8) : Bytes :=
  if b == 32 then [95]
  else if b ≥ 33 && b ≤ 126 && b != 61 && b != 63 && b != 95 then [b]
  else [61, upperhex (b >>> 4), upperhex (b &&& 0x0f)]

/-- `writeQString(buf, s)` -/
def writeQString (s : Bytes) : Bytes := s.flatMap qByte

/-- `isUTF8(charset)` = `strings.EqualFold(charset, "UTF-8")` -/
def isUTF8 (charset : Bytes) : Bool := equalFoldC cUTF8 charset

/-- `openWord(buf, charset)` for the encoder `e` (`byte(e)` = 'q' or 'b') -/
def openWord (e : UInt8) (charset : Bytes) : Bytes := eqq ++ charset ++ [63] ++ [e] ++ [63]
/-- `closeWord(buf)` -/
def closeWord : Bytes := qeq
/-- `splitWord(buf, charset)` -/
def splitWord (e : UInt8) (charset : Bytes) : Bytes := closeWord ++ [32] ++ openWord e charset

/-- `maxContentLen = 75 - len("=?UTF-8?q?") - len("?=")` -/
def maxContentLen : Nat := 63

/-- the splitting loop of `qEncode` (charset UTF-8 only; never reached from fbb, which always passes
ISO-8859-1): `cur` = `currentLen`, the remaining string is `s[i:]`; fuel = remaining length + 1. -/
def qEncodeSplit (e : UInt8) (charset : Bytes) : Nat → Nat → Bytes → Bytes
  | 0, _, _ => []
  | _, _, [] => []
  | f + 1, cur, b :: t =>
    let plain : Bool := b ≥ 32 && b ≤ 126 && b != 61 && b != 63 && b != 95
    let runeLen : Nat := if plain then 1 else (decodeRune (b :: t)).2
    let encLen : Nat := if plain then 1 else 3 * runeLen
    let split : Bool := cur + encLen > maxContentLen
    (if split then splitWord e charset else []) ++ writeQString ((b :: t).take runeLen) ++
      qEncodeSplit e charset f ((if split then 0 else cur) + encLen) ((b :: t).drop runeLen)

/-- `qEncode(buf, charset, s)`: no splitting unless the charset is UTF-8 -/
def qEncode (e : UInt8) (charset s : Bytes) : Bytes :=
  if !isUTF8 charset then writeQString s else qEncodeSplit e charset (s.length + 1) 0 s

/-- `QEncoding.encodeWord(charset, s)` -/
def encodeWord (charset s : Bytes) : Bytes := openWord 113 charset ++ qEncode 113 charset s ++ closeWord

/-- `mime.QEncoding.Encode(charset, s)` -/
def qEncodingEncode (charset s : Bytes) : Bytes :=
  if !needsEncoding s then s else encodeWord charset s

/-! ### fbb `encodeHeaderText` -/

/-- one byte of the hand-written encoder (`fmt.Fprintf(&buf, "=%02X", b)`) -/
def handByte (b : UInt8) : Bytes :=
  if b == 32 then [95]
  else if b ≥ 33 && b ≤ 126 && b != 61 && b != 63 && b != 95 then [b]
  else 61 :: Fmt.hex02 b.toNat

/-- `encodeHeaderText(str)`. `toCharset(DefaultCharset, str)` = `toLatin1` (its error is impossible:
the ISO-8859-1 table is linked in through go-charset/data). `strings.Trim(encoded, " \t")` trims bytes
(ASCII cut set). -/
def encodeHeaderText (str : Bytes) : Bytes :=
  let encoded := toLatin1 str
  let verbatimOK : Bool := !Str.containsSub encoded eqq && trimWith isBlank encoded == encoded
  let q := qEncodingEncode defaultCharset encoded
  if q != encoded || verbatimOK then q
  else eqq ++ defaultCharset ++ [63, 113, 63] ++ encoded.flatMap handByte ++ qeq

/-! ### `base64.StdEncoding.DecodeString` -/

/-- `enc.decodeMap[c]` for the standard alphabet; `none` = 0xff -/
def b64val (c : UInt8) : Option UInt8 :=
  if 65 ≤ c && c ≤ 90 then some (c - 65)
  else if 97 ≤ c && c ≤ 122 then some (c - 71)
  else if 48 ≤ c && c ≤ 57 then some (c + 4)
  else if c == 43 then some 62
  else if c == 47 then some 63
  else none

def isNL (c : UInt8) : Bool := c == 10 || c == 13

/-- the bytes of one quantum: `val := d0<<18 | d1<<12 | d2<<6 | d3`, `dlen - 1` bytes of it -/
def quantumBytes (d0 d1 d2 d3 : UInt8) (dlen : Nat) : Bytes :=
  let val : Nat := d0.toNat * 262144 + d1.toNat * 4096 + d2.toNat * 64 + d3.toNat
  ([UInt8.ofNat (val / 65536), UInt8.ofNat (val / 256), UInt8.ofNat val] : Bytes).take (dlen - 1)

/-- `Decode` = repeated `decodeQuantum` (the 8- and 4-character fast paths compute the same as two /
one all-alphabet quantum and fall back to `decodeQuantum` otherwise). `acc` = the sextets `dbuf[0..j)`
of the current quantum (j < 4). Padded, non-strict encoding: CR and LF are skipped everywhere; the input
may end only at a quantum boundary; '=' is accepted only as "xx==" / "xxx=" followed by nothing but
CR/LF (otherwise CorruptInputError = `none`). -/
def b64Loop : List UInt8 → Bytes → Option Bytes
  | acc, [] => if acc.isEmpty then some [] else none
  | acc, c :: t =>
    match b64val c with
    | some v =>
      match acc with
      | [d0, d1, d2] => (quantumBytes d0 d1 d2 v 4 ++ ·) <$> b64Loop [] t
      | _ => b64Loop (acc ++ [v]) t
    | none =>
      if isNL c then b64Loop acc t
      else if c != 61 then none
      else
        match acc with
        | [d0, d1] =>
          match t.dropWhile isNL with
          | [] => none
          | p :: t' =>
            if p != 61 then none
            else if (t'.dropWhile isNL).isEmpty then some (quantumBytes d0 d1 0 0 2) else none
        | [d0, d1, d2] =>
          if (t.dropWhile isNL).isEmpty then some (quantumBytes d0 d1 d2 0 3) else none
        | _ => none

/-- `base64.StdEncoding.DecodeString(s)`; `none` = an error is returned -/
def b64Decode (s : Bytes) : Option Bytes := b64Loop [] s

/-! ### `mime.WordDecoder.DecodeHeader` -/

/-- `fromHex(b)` (lower-case digits are accepted) -/
def fromHex (b : UInt8) : Option UInt8 :=
  if 48 ≤ b && b ≤ 57 then some (b - 48)
  else if 65 ≤ b && b ≤ 70 then some (b - 65 + 10)
  else if 97 ≤ b && b ≤ 102 then some (b - 97 + 10)
  else none

/-- `readHexByte(a, b)` -/
def readHexByte (a b : UInt8) : Option UInt8 :=
  match fromHex a with
  | none => none
  | some hb =>
    match fromHex b with
    | none => none
    | some lb => some (hb <<< 4 ||| lb)

/-- `qDecode(s)`; `none` = errInvalidWord / invalid hex byte -/
def qDecode : Bytes → Option Bytes
  | [] => some []
  | c :: t =>
    if c == 95 then (32 :: ·) <$> qDecode t
    else if c == 61 then
      match t with
      | a :: b :: t' =>
        match readHexByte a b with
        | none => none
        | some x => (x :: ·) <$> qDecode t'
      | _ => none
    else if (c ≤ 126 && c ≥ 32) || c == 10 || c == 13 || c == 9 then (c :: ·) <$> qDecode t
    else none

/-- `decode(encoding, text)` -/
def decode (encoding : UInt8) (text : Bytes) : Option Bytes :=
  if encoding == 66 || encoding == 98 then b64Decode text
  else if encoding == 81 || encoding == 113 then qDecode text
  else none

/-- `d.convert(buf, charset, content)` with `d.CharsetReader == nil` (fbb's `WordDecoder{}` sets none):
what is appended to `buf`, or `none` = the error "mime: unhandled charset". -/
def convert (charset content : Bytes) : Option Bytes :=
  if equalFoldC cUtf8 charset then some content
  else if equalFoldC cLatin1 charset then some (content.flatMap fun c => encodeRune c.toNat)
  else if equalFoldC cAscii charset then
    some (content.flatMap fun c => if c ≥ 0x80 then encodeRune runeError else [c])
  else none

/-- `hasNonWhitespace(s)` (ranges over runes) -/
def hasNonWhitespace (s : Bytes) : Bool :=
  (runes s).any fun b => !(b == 32 || b == 9 || b == 10 || b == 13)

/-- The `for { … }` of `DecodeHeader`: `buf` so far, the remaining `header`, `betweenWords`.
Every `break` falls through to the final `buf.WriteString(header)`. Each iteration that does not break
removes at least two bytes from `header`: fuel `len(header) + 1` suffices. Result: (text, error?). -/
def dhLoop : Nat → Bytes → Bytes → Bool → Bytes × Bool
  | 0, buf, header, _ => (buf ++ header, false)
  | f + 1, buf, header, betweenWords =>
    match index eqq header with
    | none => (buf ++ header, false)
    | some start =>
      let cur := start + 2
      match index [63] (header.drop cur) with
      | none => (buf ++ header, false)
      | some i =>
        let charset := (header.drop cur).take i
        let cur := cur + i + 1
        if header.length < cur + 4 then (buf ++ header, false)
        else
          let encoding := header.getD cur 0
          let cur := cur + 1
          if header.getD cur 0 != 63 then (buf ++ header, false)
          else
            let cur := cur + 1
            match index qeq (header.drop cur) with
            | none => (buf ++ header, false)
            | some j =>
              let text := (header.drop cur).take j
              let end_ := cur + j + 2
              match decode encoding text with
              | none => dhLoop f (buf ++ header.take (start + 2)) (header.drop (start + 2)) false
              | some content =>
                let buf :=
                  if start > 0 && (!betweenWords || hasNonWhitespace (header.take start)) then
                    buf ++ header.take start
                  else buf
                match convert charset content with
                | none => ([], true)
                | some c => dhLoop f (buf ++ c) (header.drop end_) true

/-- `mime.WordDecoder.DecodeHeader(header)` with a nil `CharsetReader`: (text, error?) -/
def mimeDecodeHeader (header : Bytes) : Bytes × Bool :=
  match index eqq header with
  | none => (header, false)
  | some i => dhLoop ((header.drop i).length + 1) (header.take i) (header.drop i) false

/-! ### fbb `WordDecoder.DecodeHeader` -/

/-- `fbb.WordDecoder.DecodeHeader(header)`: (text, error?). The ISO-8859-1 fallback
(`charset.NewReader(DefaultCharset, …)`, identity table) cannot fail. -/
def decodeHeader (header : Bytes) : Bytes × Bool :=
  match index eqq header with
  | some _ => mimeDecodeHeader header
  | none =>
    if utf8Valid header then (header, false)
    else (header.flatMap fun c => encodeRune c.toNat, false)

end Wl2k.Msg.HeaderText

namespace Wl2k.Msg

/-- The external functions of the message model, instantiated with the transcriptions of the real ones
(`encodeHeaderText`, `WordDecoder.DecodeHeader` with its error dropped, as all callers in fbb do);
`dateFallback` stays a parameter. -/
def goExt (df : Bytes → Bool) : Ext :=
  { encode := HeaderText.encodeHeaderText
    decode := fun h => (HeaderText.decodeHeader h).1
    dateFallback := df }

end Wl2k.Msg
