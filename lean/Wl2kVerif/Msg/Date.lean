import Wl2kVerif.Std.Fmt
/-
The `Date` header: `t.UTC().Format("2006/01/02 15:04")` and `time.Parse` with the same (primary)
layout, on civil date-times to the minute. Transcribed from Go 1.24 `time/format.go`:
"2006" = exactly four digits; "01", "02", "04" = exactly two digits (`getnum(value, true)`);
"15" = ONE OR TWO digits (`getnum(value, false)`); a space in the layout matches zero or more
spaces, but only if the value is empty or continues with a space (`skip`); trailing text is an
error; month 1..12, hour < 24, minute < 60 are range-checked, the day against the month length.
The conversion civil time ↔ instant (`time.Date`, `Time.UTC`) and the further layouts of
`dateLayouts` (tried only when the primary layout fails) are stdlib parameters.
-/
namespace Wl2k.Msg
open Wl2k

structure Civil where
  y : Nat
  mo : Nat
  d : Nat
  h : Nat
  mi : Nat
  deriving DecidableEq, Repr

def isLeap (y : Nat) : Bool := y % 4 == 0 && (y % 100 != 0 || y % 400 == 0)

/-- `daysIn(month, year)`; 0 for a month outside 1..12 -/
def daysIn (mo y : Nat) : Nat :=
  if mo == 2 then (if isLeap y then 29 else 28)
  else if mo == 4 || mo == 6 || mo == 9 || mo == 11 then 30
  else if 1 ≤ mo && mo ≤ 12 then 31 else 0

def Civil.valid (c : Civil) : Bool :=
  c.y ≤ 9999 && 1 ≤ c.mo && c.mo ≤ 12 && 1 ≤ c.d && c.d ≤ daysIn c.mo c.y && c.h < 24 && c.mi < 60

/-- `Format("2006/01/02 15:04")` (years 0..9999) -/
def formatDate (c : Civil) : Bytes :=
  Fmt.fixed 4 c.y ++ [47] ++ Fmt.fixed 2 c.mo ++ [47] ++ Fmt.fixed 2 c.d ++ [32] ++ Fmt.fixed 2 c.h ++ [58] ++ Fmt.fixed 2 c.mi

def isDigit (b : UInt8) : Bool := 48 ≤ b && b ≤ 57
def dval (b : UInt8) : Nat := b.toNat - 48

/-- exactly two digits -/
def num2 : Bytes → Option (Nat × Bytes)
  | a :: b :: t => if isDigit a && isDigit b then some (dval a * 10 + dval b, t) else none
  | _ => none

/-- one or two digits (`getnum(value, false)`) -/
def num12 : Bytes → Option (Nat × Bytes)
  | a :: b :: t =>
    if isDigit a then (if isDigit b then some (dval a * 10 + dval b, t) else some (dval a, b :: t)) else none
  | [a] => if isDigit a then some (dval a, []) else none
  | [] => none

def num4 : Bytes → Option (Nat × Bytes)
  | a :: b :: c :: d :: t =>
    if isDigit a && isDigit b && isDigit c && isDigit d then
      some (dval a * 1000 + dval b * 100 + dval c * 10 + dval d, t) else none
  | _ => none

def expect (c : UInt8) : Bytes → Option Bytes
  | b :: t => if b = c then some t else none
  | [] => none

/-- `skip(value, " ")` -/
def skipSpaces : Bytes → Option Bytes
  | [] => some []
  | b :: t => if b = 32 then some (t.dropWhile (· == 32)) else none

/-- `time.Parse("2006/01/02 15:04", s)` as civil fields -/
def parsePrimary (s : Bytes) : Option Civil := do
  let (y, s) ← num4 s
  let s ← expect 47 s
  let (mo, s) ← num2 s
  let s ← expect 47 s
  let (d, s) ← num2 s
  let s ← skipSpaces s
  let (h, s) ← num12 s
  let s ← expect 58 s
  let (mi, s) ← num2 s
  if s.isEmpty && 1 ≤ mo && mo ≤ 12 && h < 24 && mi < 60 && 1 ≤ d && d ≤ daysIn mo y then
    some { y, mo, d, h, mi }
  else none

end Wl2k.Msg
