import Wl2kVerif.Msg.Spec
import Wl2kVerif.Proofs.Body
/-
What the public builder API can construct (`Built`), and the laws assumed of the external
functions (`ExtLaws`: go-charset + mime Q-encoding as wrapped by `encodeHeaderText`, and
`WordDecoder.DecodeHeader`). `L1 s` = `s` is UTF-8 text of characters ≤ U+00FF (C18).
-/
namespace Wl2k.Msg
open Wl2k Wl2k.Textproto

structure ExtLaws (X : Ext) : Prop where
  /-- decoding an encoded Latin-1-representable text gives the text back (after the two `fix:` commits: also
  for texts containing "=?" and texts with outer blanks) -/
  decode_encode : ∀ s, L1 s → X.decode (X.encode s) = s
  /-- the encoded form consists of printable ASCII / TAB -/
  encode_value : ∀ s, valueOK (X.encode s) = true
  /-- ... does not begin or end with a blank -/
  encode_trimmed : ∀ s, trimString (X.encode s) = X.encode s
  /-- ... and is empty only for the empty text -/
  encode_ne : ∀ s, s ≠ [] → X.encode s ≠ []

/-- Messages constructed through the public API model. Side conditions = the property's quantifier:
addresses are printable ASCII without blanks; attachment names are non-empty (`NewFile` panics otherwise)
and Latin-1 representable; extra headers are `X-` tokens with reader-acceptable values; dates are valid
civil minutes of the years 0..9999; lengths fit a Go `int`. -/
inductive Built (X : Ext) : Msg → Prop
  | new (midv : Bytes) (now : Civil) (t mycall : Bytes) :
      midOK midv = true → now.valid = true → valueOK t = true → graphic mycall = true →
      Built X (newMessage midv now t mycall)
  | subject (m : Msg) (s : Bytes) : Built X m → Built X (setSubject X m s)
  | to (m : Msg) (a : Bytes) : Built X m → graphic a = true → Built X (addTo m a)
  | cc (m : Msg) (a : Bytes) : Built X m → graphic a = true → Built X (addCc m a)
  | from_ (m : Msg) (a : Bytes) : Built X m → graphic a = true → Built X (setFrom m a)
  | date (m : Msg) (c : Civil) : Built X m → c.valid = true → Built X (setDate m c)
  | body (m : Msg) (s : Bytes) : Built X m → (stringToBody s).length < 9223372036854775808 → Built X (setBody m s)
  | file (m : Msg) (name data : Bytes) : Built X m → name ≠ [] → L1 name → data.length < 9223372036854775808 →
      Built X (addFile X m name data)
  | xset (m : Msg) (k v : Bytes) : Built X m → xKey k = true → valueOK v = true → Built X (setHeader m k v)
  | xadd (m : Msg) (k v : Bytes) : Built X m → xKey k = true → valueOK v = true → Built X (addHeader m k v)

end Wl2k.Msg
