import Wl2kVerif.Msg.Message
/-
Specification vocabulary for C09: well-formed messages (`wf`, a decidable/executable predicate),
the normal form a message has after one serialise/parse round (`norm`: values trimmed, Mid first,
other keys in ascending order — as a Go map this is the same header with trimmed values).
-/
namespace Wl2k.Msg
open Wl2k Wl2k.Textproto

/-- a canonical MIME header key: non-empty token in canonical capitalisation -/
def keyOK (k : Bytes) : Bool := !k.isEmpty && k.all validFieldByte && canonLoop true k == k

/-- a value the header reader accepts: no control bytes except TAB (so no CR, LF, NUL) -/
def valueOK (v : Bytes) : Bool := v.all validValueByte

def entryOK (e : Bytes × List Bytes) : Bool := keyOK e.1 && !e.2.isEmpty && e.2.all valueOK

def keys (h : Header) : List Bytes := h.map (·.1)

/-- `File` header value `v` describes attachment `f` -/
def fileOK (X : Ext) (v : Bytes) (f : File) : Bool :=
  match splitN2 (trimString v) with
  | some (sz, nm) => atoi sz == (f.data.length : Int) && X.decode nm == f.name && f.err == none
  | none => false

def filesOK (X : Ext) : List Bytes → List File → Bool
  | [], [] => true
  | v :: vs, f :: fs => fileOK X v f && filesOK X vs fs
  | _, _ => false

/-- the Date value is empty or parses with the primary layout -/
def dateWF (d : Bytes) : Bool := d.isEmpty || (parsePrimary d).isSome

def midWF (h : Header) : Bool :=
  match lookup h kMid with
  | [v] => !(trimString v).isEmpty
  | _ => false

/-- Well-formed message: distinct canonical token keys with non-empty value lists of reader-acceptable
values; exactly one, non-blank Mid and no other key that folds to "Mid"; `Body` = |body|; the `File`
values match the attachments in order; the date is empty or in the Winlink layout. -/
def wf (X : Ext) (m : Msg) : Bool :=
  decide (keys m.header).Nodup && m.header.all entryOK &&
  m.header.all (fun e => !isMidFold e.1 || e.1 == kMid) && midWF m.header &&
  atoi (trimString (getRaw m.header kBody)) == (m.body.length : Int) &&
  filesOK X (lookup m.header kFile) m.files &&
  dateWF (getRaw m.header kDate)

def trimEntry (e : Bytes × List Bytes) : Bytes × List Bytes := (e.1, e.2.map trimString)

def normHeader (h : Header) : Header :=
  (kMid, [trimString (getRaw h kMid)]) :: (others h).map trimEntry

def norm (m : Msg) : Msg := { m with header := normHeader m.header }

end Wl2k.Msg

namespace Wl2k.Msg
open Wl2k Wl2k.Textproto

/-- printable ASCII without blanks -/
def graphic (s : Bytes) : Bool := s.all (fun b => 33 ≤ b && b ≤ 126)

/-- an "extra X- header" key as a caller may spell it: `X-`/`x-` followed by token bytes -/
def xKey : Bytes → Bool
  | a :: 45 :: r => (a == 88 || a == 120) && r.all validFieldByte
  | _ => false

/-- a usable message id: acceptable to the reader and not blank (`GenerateMid` yields 12 base32 characters) -/
def midOK (v : Bytes) : Bool := valueOK v && !(trimString v).isEmpty

end Wl2k.Msg
