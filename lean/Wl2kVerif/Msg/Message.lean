import Wl2kVerif.Msg.Header
import Wl2kVerif.Msg.Addr
import Wl2kVerif.Msg.Date
import Wl2kVerif.Msg.Body
/-
Model of `fbb/message.go`: `Message.Write`/`Bytes`, `Message.ReadFrom` (with `readSection` as fixed:
negative size → error, data read up to the announced size, "\r\n"-or-EOF terminator rule), the
accessors and the builder API (`NewMessage`, `SetSubject`, `AddTo`, `AddCc`, `SetFrom`, `SetDate`,
`SetBody`, `AddFile`, `Header.Set/Add`).

External calls are parameters (`Ext`): `encode` = `encodeHeaderText` (go-charset to ISO-8859-1, then
`mime.QEncoding`, forced when the text would not survive verbatim), `decode` =
`WordDecoder.DecodeHeader`, `dateFallback` = "one of the non-primary `dateLayouts` parses".
-/
namespace Wl2k.Msg
open Wl2k Wl2k.Textproto

structure Ext where
  encode : Bytes → Bytes
  decode : Bytes → Bytes
  dateFallback : Bytes → Bool

inductive MErr
  | hdr (e : Textproto.Err)    -- from ReadMIMEHeader
  | negSize                    -- "Negative section size"
  | unexpectedEOF              -- io.ErrUnexpectedEOF
  | endOfSection               -- "Unexpected end of section"
  | fileHeader                 -- "Failed to parse file header" (recorded on the File only)
  | date                       -- time.Parse error of the Date field
  deriving DecidableEq, Repr

structure File where
  name : Bytes
  data : Bytes
  err : Option MErr := none
  deriving DecidableEq, Repr

structure Msg where
  header : Header
  body : Bytes
  files : List File
  deriving DecidableEq, Repr

/-! ### strconv.Atoi with the error dropped -/

inductive UParse
  | ok (n : Nat)
  | syntax
  | range

/-- the digit loop of `strconv.ParseUint(s, 10, 64)`: an overflow is reported before later
bytes are looked at -/
def parseUintLoop : Nat → Bytes → UParse
  | n, [] => .ok n
  | n, c :: t =>
    if 48 ≤ c && c ≤ 57 then
      if n ≥ 1844674407370955162 then .range
      else
        let n1 := n * 10 + (c.toNat - 48)
        if n1 > 18446744073709551615 then .range else parseUintLoop n1 t
    else .syntax

/-- value of `n, _ := strconv.Atoi(s)` on a 64-bit platform: 0 on a syntax error, clamped on a range error -/
def atoi (s : Bytes) : Int :=
  let neg : Bool := s.head? == some 45
  let digits : Bytes := if s.head? == some 45 || s.head? == some 43 then s.tail else s
  if digits.isEmpty then 0
  else match parseUintLoop 0 digits with
    | .syntax => 0
    | .range => if neg then -9223372036854775808 else 9223372036854775807
    | .ok n =>
      if neg then (if n > 9223372036854775808 then -9223372036854775808 else -(n : Int))
      else (if n ≥ 9223372036854775808 then 9223372036854775807 else (n : Int))

/-! ### Dates -/

/-- `ParseDate(s)` returns a nil error -/
def dateOK (X : Ext) (s : Bytes) : Bool :=
  s.isEmpty || (parsePrimary s).isSome || X.dateFallback s

/-! ### Write -/

/-- `Message.Write` / `Bytes`. The error of `Header.Write` (missing Mid) is ignored by the code:
then no header line at all is written. -/
def serial (m : Msg) : Bytes :=
  (m.header.write.getD []) ++ crlf9 ++ m.body ++
    (if m.files.isEmpty then [] else crlf9) ++ m.files.flatMap (fun f => f.data ++ crlf9)

def write (X : Ext) (m : Msg) : Except MErr Bytes :=
  if dateOK X (get m.header kDate) then .ok (serial m) else .error .date

/-! ### Read -/

/-- `bufio.Reader.ReadString('\n')`: (line incl. the LF, rest, hitEOF) -/
def readString (s : Bytes) : Bytes × Bytes × Bool :=
  match splitLF s with
  | (l, some r) => (l ++ [10], r, false)
  | (l, none) => (l, [], true)

/-- `readSection(reader, n)`: (data, error, rest of the stream) -/
def readSection (s : Bytes) (n : Int) : Bytes × Option MErr × Bytes :=
  if n < 0 then ([], some .negSize, s)
  else
    let k := n.toNat
    let data := s.take k
    match readString (s.drop k) with
    | (e, rest, eof) =>
      if data.length ≠ k then (data, some .unexpectedEOF, rest)
      else if eof then (data, none, rest)
      else if e ≠ crlf9 then (data, some .endOfSection, rest)
      else (data, none, rest)

/-- `strings.SplitN(v, " ", 2)` when it yields two parts -/
def splitN2 : Bytes → Option (Bytes × Bytes)
  | [] => none
  | b :: t =>
    if b = 32 then some ([], t)
    else match splitN2 t with
      | some (a, r) => some (b :: a, r)
      | none => none

/-- The attachment loop of `ReadFrom`. `e` is the variable `err`: it is overwritten by every
`readSection` (also with nil), a malformed File header `continue`s without touching it. -/
def readFiles (X : Ext) : List Bytes → Bytes → Option MErr → List File × Option MErr
  | [], _, e => ([], e)
  | v :: vs, s, e =>
    match splitN2 v with
    | none =>
      match readFiles X vs s e with
      | (fs, e') => ({ name := [], data := [], err := some .fileHeader } :: fs, e')
    | some (sz, nm) =>
      match readSection s (atoi sz) with
      | (data, err, rest) =>
        match readFiles X vs rest err with
        | (fs, e') => ({ name := X.decode nm, data := data, err := err } :: fs, e')

def bodySize (h : Header) : Int := atoi (get h kBody)

/-- `Message.ReadFrom` on the whole stream. -/
def read (X : Ext) (s : Bytes) : Except MErr Msg :=
  match readMIMEHeader (s.dropWhile Str.isSpace) with
  | .error e => .error (.hdr e)
  | .ok (h, rest) =>
    match readSection rest (bodySize h) with
    | (_, some e, _) => .error e
    | (body, none, rest) =>
      match readFiles X (lookup h kFile) rest none with
      | (_, some e) => .error e
      | (files, none) =>
        if dateOK X (get h kDate) then .ok { header := h, body := body, files := files }
        else .error .date

/-! ### Accessors -/

def subject (X : Ext) (m : Msg) : Bytes := X.decode (get m.header kSubject)
def date (m : Msg) : Option Civil := parsePrimary (get m.header kDate)
def from_ (m : Msg) : Address := addrFromString (get m.header kFrom)
def to (m : Msg) : List Address := (lookup m.header kTo).map addrFromString
def cc (m : Msg) : List Address := (lookup m.header kCc).map addrFromString
def mid (m : Msg) : Bytes := get m.header kMid
def fileNames (m : Msg) : List Bytes := m.files.map (·.name)

/-! ### Builder API -/

def vPrivate : Bytes := [80, 114, 105, 118, 97, 116, 101]
def v8bit : Bytes := [56, 98, 105, 116]
/-- `mime.FormatMediaType("text/plain", {"charset": "ISO-8859-1"})` -/
def vTextPlain : Bytes :=
  [116, 101, 120, 116, 47, 112, 108, 97, 105, 110, 59, 32, 99, 104, 97, 114, 115, 101, 116, 61,
   73, 83, 79, 45, 56, 56, 53, 57, 45, 49]

def setHeader (m : Msg) (k v : Bytes) : Msg := { m with header := set m.header k v }
def addHeader (m : Msg) (k v : Bytes) : Msg := { m with header := add m.header k v }

def setDate (m : Msg) (c : Civil) : Msg := setHeader m kDate (formatDate c)
def setFrom (m : Msg) (a : Bytes) : Msg := setHeader m kFrom (addrFromString a).toBytes
def addTo (m : Msg) (a : Bytes) : Msg := addHeader m kTo (addrFromString a).toBytes
def addCc (m : Msg) (a : Bytes) : Msg := addHeader m kCc (addrFromString a).toBytes
def setSubject (X : Ext) (m : Msg) (s : Bytes) : Msg := setHeader m kSubject (X.encode s)

/-- `NewMessage(t, mycall)`; `midv` = `GenerateMid(mycall)`, `now` = `time.Now()` (external). -/
def newMessage (midv : Bytes) (now : Civil) (t mycall : Bytes) : Msg :=
  let m : Msg := { header := [], body := [], files := [] }
  let m := setHeader m kMid midv
  let m := setDate m now
  let m := setFrom m mycall
  let m := setHeader m kMbo mycall
  setHeader m kType (if t.isEmpty then vPrivate else t)

/-- `SetBody(s)` (charset ISO-8859-1; the translation never fails for this charset) -/
def setBody (m : Msg) (s : Bytes) : Msg :=
  let m := setHeader m kCTE v8bit
  let m := setHeader m kContentType vTextPlain
  let b := stringToBody s
  setHeader { m with body := b } kBody (Fmt.dec b.length)

/-- `AddFile(NewFile(name, data))` (`NewFile` panics on an empty name: callers pass `name ≠ []`) -/
def addFile (X : Ext) (m : Msg) (name data : Bytes) : Msg :=
  addHeader { m with files := m.files ++ [{ name := name, data := data }] } kFile
    (Fmt.dec data.length ++ [32] ++ X.encode name)

end Wl2k.Msg
