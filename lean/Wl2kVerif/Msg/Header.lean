import Wl2kVerif.Std.Textproto
/-
Model of `fbb/header.go`: `Header` = `textproto.MIMEHeader` (Add/Set/Get/Del canonicalise the key),
`Header.Write` (Mid first and trimmed — after the `fix:` commit —, the other keys sorted bytewise,
every value trimmed with `textproto.TrimString`, "Key: value\r\n").
-/
namespace Wl2k.Msg
open Wl2k Wl2k.Textproto

abbrev Header := MIMEHeader

def kMid : Bytes := [77, 105, 100]
def kTo : Bytes := [84, 111]
def kCc : Bytes := [67, 99]
def kDate : Bytes := [68, 97, 116, 101]
def kType : Bytes := [84, 121, 112, 101]
def kFrom : Bytes := [70, 114, 111, 109]
def kSubject : Bytes := [83, 117, 98, 106, 101, 99, 116]
def kMbo : Bytes := [77, 98, 111]
def kBody : Bytes := [66, 111, 100, 121]
def kFile : Bytes := [70, 105, 108, 101]
def kContentType : Bytes := [67, 111, 110, 116, 101, 110, 116, 45, 84, 121, 112, 101]
def kCTE : Bytes :=
  [67, 111, 110, 116, 101, 110, 116, 45, 84, 114, 97, 110, 115, 102, 101, 114, 45, 69, 110, 99, 111, 100, 105, 110, 103]

def colonSp : Bytes := [58, 32]
def crlf9 : Bytes := [13, 10]

/-- Go string comparison `a <= b` (bytewise lexicographic). -/
def bytesLe : Bytes → Bytes → Bool
  | [], _ => true
  | _ :: _, [] => false
  | a :: s, b :: t => if a < b then true else if b < a then false else bytesLe s t

def insertKey (e : Bytes × List Bytes) : Header → Header
  | [] => [e]
  | x :: t => if bytesLe e.1 x.1 then e :: x :: t else x :: insertKey e t

/-- `sort.Sort(sort.StringSlice(keys))` — keys of a map are distinct, so the result is THE ascending order. -/
def sortKeys : Header → Header
  | [] => []
  | e :: t => insertKey e (sortKeys t)

/-- `strings.EqualFold(k, "Mid")` for ASCII keys -/
def isMidFold (k : Bytes) : Bool := Str.toLower k == [109, 105, 100]

def line (k v : Bytes) : Bytes := k ++ colonSp ++ trimString v ++ crlf9

def entryLines (e : Bytes × List Bytes) : Bytes := e.2.flatMap (line e.1)

/-- the keys written after Mid, in the order written -/
def others (h : Header) : Header := sortKeys (h.filter (fun e => !isMidFold e.1))

/-- `Header.Write`: `none` = "Missing MID in header" (nothing written). -/
def Header.write (h : Header) : Option Bytes :=
  let mid := getRaw h kMid
  if mid.isEmpty then none
  else some (line kMid mid ++ (others h).flatMap entryLines)

end Wl2k.Msg
