import Wl2kVerif.Std.Utf8
/-
Model of `fbb/message_body.go: StringToBody` (after the two `fix:` commits) for the ISO-8859-1 target:
bufio.ScanLines tokens (no token limit: the scanner buffer is sized from the input), wrap every
line into pieces of at most 998 UTF-8 bytes without splitting a character (`wrapLen`), CRLF after
each piece, then go-charset's code-page translation of the whole buffer (unrepresentable or invalid
→ '?').
-/
namespace Wl2k.Msg
open Wl2k Wl2k.Utf8

def crlf : Bytes := [13, 10]

/-- `dropCR` on a line held in reverse: strip one trailing '\r'. -/
def dropCRrev : Bytes → Bytes
  | 13 :: r => r.reverse
  | l => l.reverse

/-- Tokens of `bufio.ScanLines` over the whole input; `cur` is the current line, reversed.
A final unterminated line is a token iff it is non-empty (before dropCR). -/
def scanLinesS (cur : Bytes) : Bytes → List Bytes
  | [] => if cur.isEmpty then [] else [dropCRrev cur]
  | b :: t => if b = 10 then dropCRrev cur :: scanLinesS [] t else scanLinesS (b :: cur) t

def scanLines (s : Bytes) : List Bytes := scanLinesS [] s

/-- `wrapLen(line, max)`. The Go loop `for n := max; n > max-utf8.UTFMax && n > 0; n--`. -/
def wrapLenLoop (line : Bytes) (max : Nat) : Nat → Nat → Nat
  | 0, _ => max
  | k + 1, n =>
    if n > max - 4 ∧ n > 0 then
      if runeStart (line.getD n 0) then n else wrapLenLoop line max k (n - 1)
    else max

def wrapLen (line : Bytes) (max : Nat) : Nat :=
  if line.length ≤ max then line.length else wrapLenLoop line max 4 max

/-- The inner `for { ... }` of StringToBody: at least one piece per line (an empty line gives one empty piece). -/
def wrapAux (max : Nat) : Nat → Bytes → List Bytes
  | 0, _ => []
  | f + 1, line =>
    let n := wrapLen line max
    let rest := line.drop n
    if rest.isEmpty then [line.take n] else line.take n :: wrapAux max f rest

def wrap (max : Nat) (line : Bytes) : List Bytes := wrapAux max (line.length + 1) line

def latin1Byte (r : Nat) : UInt8 := if r < 256 then UInt8.ofNat r else 63

/-- go-charset `translateToCodePage.Translate(data, eof=true)` for ISO-8859-1: every decoded rune
(invalid bytes decode to U+FFFD, one byte at a time) becomes its Latin-1 byte or '?'. Structural:
`skip` bytes of the current character are still to be passed over. -/
def toLatin1S : Nat → Bytes → Bytes
  | _, [] => []
  | k + 1, _ :: t => toLatin1S k t
  | 0, b :: t => let (r, n) := decodeRune (b :: t); latin1Byte r :: toLatin1S (n - 1) t

def toLatin1 (s : Bytes) : Bytes := toLatin1S 0 s

/-- The UTF-8 buffer before translation. -/
def wrapped (max : Nat) (s : Bytes) : Bytes :=
  (scanLines s).flatMap fun l => (wrap max l).flatMap (· ++ crlf)

def stringToBody (s : Bytes) : Bytes := toLatin1 (wrapped 998 s)

end Wl2k.Msg
