import Wl2kVerif.Std.Strings
/-
Model of `fbb.Address`, `Address.String` and `AddressFromString` (message.go) on ASCII addresses:
":"-split with exactly two parts → (Proto, Addr); else "@"-split: one part → plain address;
second part EqualFold "winlink.org" → the first part; otherwise SMTP with the whole string;
upper-casing only when Proto is empty.
Not modelled: Unicode case folding / upper-casing of non-ASCII text (`strings.EqualFold` also folds
U+212A KELVIN SIGN to 'k'; `strings.ToUpper` maps non-ASCII letters) — addresses are ASCII here.
-/
namespace Wl2k.Msg
open Wl2k

structure Address where
  proto : Bytes
  addr : Bytes
  deriving DecidableEq, Repr

def winlinkOrg : Bytes := [119, 105, 110, 108, 105, 110, 107, 46, 111, 114, 103]
def smtp : Bytes := [83, 77, 84, 80]

/-- `strings.EqualFold` on ASCII -/
def equalFold (a b : Bytes) : Bool := Str.toLower a == Str.toLower b

/-- `Address.String` -/
def Address.toBytes (a : Address) : Bytes :=
  if a.proto.isEmpty then a.addr else a.proto ++ [58] ++ a.addr

/-- the `if / else if` chain of `AddressFromString`, before the upper-casing -/
def addrSplit (s : Bytes) : Address :=
  match Str.splitOn 58 s with
  | [p, x] => { proto := p, addr := x }
  | _ =>
    match Str.splitOn 64 s with
    | p0 :: p1 :: _ => if equalFold p1 winlinkOrg then { proto := [], addr := p0 } else { proto := smtp, addr := s }
    | _ => { proto := [], addr := s }

/-- `AddressFromString` -/
def addrFromString (s : Bytes) : Address :=
  let a := addrSplit s
  if a.proto.isEmpty then { a with addr := Str.toUpper a.addr } else a

end Wl2k.Msg
