#!/usr/bin/env python3
"""
tools/seedtest.py <prop> <srcdir> <name>
  Confirms a seeded change (srcdir contains patch.diff, zz_seed_demo_test.go, meta.txt) in a scratch
  worktree (compiles, existing tests pass, demo fails with / passes without), stores it as
  /verif/seeded/<name>/ and runs ./check <prop> against /repo with the patch applied (then reverts).
"""
import sys, os, subprocess, json, shutil, re, time
ROOT = os.path.dirname(os.path.dirname(os.path.abspath(__file__)))
ENV = dict(os.environ, GOFLAGS="-mod=mod", GOPROXY="off")

def sh(cmd, cwd=None, timeout=1800):
    p = subprocess.run(cmd, shell=True, cwd=cwd, env=ENV, stdout=subprocess.PIPE, stderr=subprocess.STDOUT, text=True, errors='replace', timeout=timeout)
    return p.returncode, p.stdout

def main():
    prop, src, name = sys.argv[1:4]
    check_props = sys.argv[4:] or [prop]
    patch = os.path.join(src, "patch.diff")
    demo = os.path.join(src, "zz_seed_demo_test.go")
    meta_txt = open(os.path.join(src, "meta.txt")).read() if os.path.exists(os.path.join(src, "meta.txt")) else ""
    wt = f"/tmp/seedchk-{name}"
    sh(f"git -C /repo worktree remove --force {wt}")
    rc, out = sh(f"git -C /repo worktree add --detach {wt} HEAD")
    res = {"property": prop, "name": name, "source": src}
    try:
        # where does the demo go? the package of the first patched file unless meta says otherwise
        files = re.findall(r"^\+\+\+ b/(\S+)", open(patch).read(), flags=re.M)
        pkgdir = os.path.dirname(files[0])
        m = re.search(r"^package (\w+)", open(demo).read(), flags=re.M)
        demopkg = m.group(1) if m else ""
        race = "-race " if os.environ.get("SEED_RACE") or "-race" in open(os.path.join(src, "meta.txt")).read() and "skip" in open(demo).read().lower() and "race" in open(demo).read().lower() else ""
        res["demo_needs_race"] = bool(race)
        # external test package or a different package: look for a directory whose package name matches
        cand = pkgdir
        for f in files:
            d = os.path.dirname(f)
            if demopkg.replace("_test", "") == os.path.basename(d):
                cand = d
        cand = os.environ.get("SEED_DEMO_DIR") or cand
        res["demo_dir"] = cand
        # 1. unchanged tree: demo passes
        shutil.copy(demo, os.path.join(wt, cand, "zz_seed_demo_test.go"))
        rc0, out0 = sh(f"go test {race}-mod=mod -vet=off -count=1 -run . ./{cand}/", cwd=wt)
        res["demo_passes_unchanged"] = rc0 == 0
        # 2. with the change: compiles, existing tests pass (without the demo), demo fails
        rc, out = sh(f"git apply {patch}", cwd=wt)
        if rc != 0:
            # the tree moved on since the change was written: try a 3-way apply and re-derive the patch
            rc, out = sh(f"git apply --3way {patch}", cwd=wt)
            if rc == 0:
                sh("git reset -q", cwd=wt)
                rebased = f"/tmp/seed-rebased-{name}.diff"
                open(rebased, "w").write(sh("git diff", cwd=wt)[1])
                patch = rebased
                res["rebased"] = True
        res["patch_applies"] = rc == 0
        os.remove(os.path.join(wt, cand, "zz_seed_demo_test.go"))
        rcb, outb = sh("go build ./... && go build -tags verif ./...", cwd=wt)
        res["compiles"] = rcb == 0
        rct, outt = sh("go test -mod=mod -vet=off -count=1 ./...", cwd=wt)
        res["existing_tests_pass"] = rct == 0
        shutil.copy(demo, os.path.join(wt, cand, "zz_seed_demo_test.go"))
        rc1, out1 = sh(f"go test {race}-mod=mod -vet=off -count=1 -run . ./{cand}/", cwd=wt, timeout=600)
        res["demo_fails_with_change"] = rc1 != 0
        res["demo_output_with_change"] = out1[-800:]
    finally:
        sh(f"git -C /repo worktree remove --force {wt}")
        sh("rm -rf /tmp/N0DE*")
    # restore evidence: the evidence files committed must come from runs on the UNCHANGED tree
    import atexit
    def _restore():
        for cp in check_props:
            sh(f"git -C /verif checkout -- evidence/{cp}.json")
    atexit.register(_restore)
    res["confirmed"] = all(res.get(k) for k in ["demo_passes_unchanged", "patch_applies", "compiles", "existing_tests_pass", "demo_fails_with_change"])
    # 3. run the checks against /repo with the patch applied
    res["checks"] = {}
    if res["confirmed"]:
        st = sh("git -C /repo status --short")[1].strip()
        if st:
            print("REFUSING: /repo is dirty:", st); sys.exit(2)
        try:
            rc, out = sh(f"git -C /repo apply {patch}")
            for cp in check_props:
                t0 = time.time()
                rc, out = sh(f"./check {cp} --tier quick", cwd=ROOT, timeout=3600)
                lines = [l for l in out.split("\n") if l.startswith("VIOLATION") or l.startswith("check ")]
                replays = re.findall(r"replay=(\S+)", out)
                what = []
                for r in replays[:3]:
                    try:
                        j = json.load(open(os.path.join(ROOT, r)))
                        what.append({"replay": r, "kind": j.get("kind"), "key": j.get("key"), "what": (j.get("what") or str(j.get("theorem_or_correspondence")))[:400]})
                    except Exception as e:
                        what.append({"replay": r, "error": str(e)})
                res["checks"][cp] = {"exit": rc, "caught": rc == 1 and any(l.startswith("VIOLATION") for l in lines), "lines": lines[-4:], "first_replays": what, "wall_s": round(time.time() - t0, 1)}
        finally:
            sh("git -C /repo checkout -- . && git -C /repo clean -fdq")
    dst = os.path.join(ROOT, "seeded", name)
    os.makedirs(dst, exist_ok=True)
    shutil.copy(patch, os.path.join(dst, "patch.diff"))
    shutil.copy(demo, os.path.join(dst, "zz_seed_demo_test.go"))
    meta = {"property": prop, "breaks": meta_txt.strip()[:3000], "confirmed": res, "ran": [f"./check {cp} --tier quick (with git -C /repo apply patch.diff, reverted afterwards)" for cp in check_props],
            "origin": "independent sub-agent given only the property text and a scratch worktree"}
    json.dump(meta, open(os.path.join(dst, "meta.json"), "w"), indent=1)
    print(json.dumps({k: res[k] for k in ["name", "confirmed"]}), {cp: (v["caught"], v["lines"][-1] if v["lines"] else "") for cp, v in res["checks"].items()})
    for cp, v in res["checks"].items():
        for w in v["first_replays"][:2]:
            print("   ", cp, w.get("kind"), w.get("key"), (w.get("what") or "")[:200])

if __name__ == "__main__":
    main()
