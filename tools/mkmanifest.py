#!/usr/bin/env python3
"""Regenerates /verif/MANIFEST.json from the table below (keeps it schema-valid at all times)."""
import json, os, subprocess
ROOT = os.path.dirname(os.path.dirname(os.path.abspath(__file__)))

# id -> (level category, level text, level note, technique, design ref)
CLAIMED = {
 "C16": ("proof",
   "Lean 4 theorems about the model of secureLoginResponse/sendHandshake: response_spec (for EVERY digest the answer is the 8 low decimal digits of the LE32 masked to 30 bits), response_length/all_digits, pr_fits_int32, salt_eq (regenerated salt = published salt, by decide), handshake_lines, aux_entry, no_callback_fails, handshake_noninterference. The model is tied to /repo on every run by correspondence (real secureLoginResponse and real slave Sessions against a scripted challenging master vs the compiled Lean driver) and by the regenerated salt table; an independent Go oracle of the Winlink algorithm judges the real code.",
   "MD5 is modelled executably and differential-checked against crypto/md5, not proved against RFC 1321; Go fmt %08d modelled (Fmt.dec0) and differential-checked; readHandshake's ;PQ capture is covered by correspondence only; trusted: Lean kernel, extractor, harness, driver I/O shell",
   "Lean 4 proof over hand-written model + differential correspondence + regenerated salt table", "5.16"),
 "C20": ("proof",
   "Lean 4 theorems over EXACT rational arithmetic (input = ±num/den, which every float64 is): value_within (|printed − |dec|| ≤ ½·10⁻⁴ minute), minutes_lt_60, degrees_le (≤ 90/180, equal only with zero minutes), lat_shape/lon_shape (DD-MM.MMMMH / DDD-MM.MMMMH with digit fields), printed_value, hemisphere (dec ≠ 0), hemisphere_zero_blank (proved negative = the known finding), course_format (0..360 → three digits + T/M, 360 ↦ 000), course_out_of_range, optional_iff_set. Tie: correspondence of the real decToMinDec/NewCourse/PosReport.Message against the Lean driver on a dense grid, the 20 neighbouring doubles of every whole degree/minute, the carry region and rounding-resolution grid; an independent exact-rational oracle judges the real output.",
   "partial w.r.t. IEEE-754: the float multiply |dec|*600000 and fmt %07.4f are outside Lean's kernel (Float is opaque); the model is exact arithmetic and inputs within 1e-6 of a rounding tie are judged by the oracle only (counted in evidence); time.Format and %f of SPEED are stdlib parameters; trusted: Lean kernel, harness, driver shell",
   "Lean 4 proof over exact-rational model + differential correspondence on dense float grid", "5.20"),
 "C18": ("proof",
   "Lean 4 theorems about the model of StringToBody (bufio.ScanLines tokens, wrapLen, CRLF, go-charset ISO-8859-1 translation), for ALL texts whose characters are ≤ U+00FF and lines of ANY length: lines_crlf_le_1000 (the body is a concatenation of LF-free lines of ≤ 998 bytes each followed by CRLF), body_preserves_text (removing CR/LF from stored body and from the translated input gives identical bytes), representable_covered (every Latin-1 text meets the hypothesis), kernel-evaluated witness for the multi-byte wrap. Tie: correspondence of the real StringToBody/SetBody with the Lean driver on boundary line lengths (998, 1996, 64 KiB, 200-700 KB), 2-byte characters at every offset 990..1000, random documents and a malformed stream; an independent Go oracle judges the real output.",
   "bufio.Scanner, go-charset's code-page translator and utf8.DecodeRune are modelled (Std/Utf8.lean, Msg/Body.lean) and differential-checked, not verified; Body header/BodySize equality is checked by the oracle on the real code only; trusted: Lean kernel, harness, driver shell",
   "Lean 4 proof over hand-written model + differential correspondence", "5.18"),
 "C19": ("proof",
   "Lean 4 theorems about the model of ParseURL's own logic and of the dialer registry: parse_compose (a path composed of any digipeater list and target parses into exactly those components, upper-cased, in order; host parameter overrides host), short_target_refused, digis_refused (ardop/telnet), registry_seq (after ANY register/unregister history dial reaches the dialer registered last for the scheme or reports missing), dial_after_register/unregister, mutex_guarded (regenerated fact: every access to the dialer map in /repo's current source lies between mu.Lock and mu.Unlock, by decide). Tie: the real url.Parse output is fed to the Lean model and the final results diffed on composed tuples, raw/mutated strings and registry histories; an independent Go oracle checks exact components end-to-end and recovers panics.",
   "net/url.Parse is an external call (stdlib, trusted): the theorem starts from its result, the end-to-end composition with url.Parse is checked by the oracle on generated tuples only; strings.ToUpper modelled for ASCII paths (non-ASCII paths are judged by the oracle only); concurrency is reduced to the atomic-step model by the regenerated mutex fact (straight-line lock discipline) - a -race run is witness search only; trusted: Lean kernel, extractor, harness, driver shell",
   "Lean 4 proof over hand-written model + regenerated mutex facts + differential correspondence", "5.19"),
 "C06": ("proof",
   "Executable Lean model of the whole codec (Huff/Tree/Writer/Reader, function for function after lzhuf/*.go) tied to /repo by state-digest correspondence: compressed bytes AND an FNV digest of the COMPLETE compressor state after every Write, reader (n,err) sequences, bytes, Close verdict and reader-state digest are compared with the real code on every case. Proved in Lean for all inputs and partitions: write_split_indep / compress_split_indep (output independent of how writes are split). The universal round-trip theorem is NOT yet proved (open obligation, named in Props/C06.lean); it is covered by the property oracle Read(Write(x)) = x ∧ Close = nil on the real code over exhaustive short strings, window/prefill boundary families, the Fibonacci-profile family that drives code lengths past 16 bits, and the testdata files.",
   "OPEN: roundtrip for all x (Huffman-layer invariant HuffWF and window-layer TreeInv not yet proved) - this clause is at exploration level (correspondence + oracle), not proof level; inputs >= 2 GiB wrap the int32 size and are out of scope; bufio/bytes.Buffer plumbing modelled as concatenation; trusted: Lean kernel, harness, hooks lzhuf.VerifDigest, driver shell",
   "Lean 4 model + proved chunk-independence theorem + state-digest correspondence + round-trip oracle", "5.6"),
 "C07": ("proof",
   "Proved in Lean against the tables and constants REGENERATED from /repo on every run: params_canonical (N=2048,F=60,THRESHOLD=2,MAX_FREQ=0x8000,...), ptables_canonical (p_len/p_code are LZHUF.C's), dtable_inverts_ptable (decode tables invert the encode tables, every byte covered; decide +kernel over all entries), crc16tab_eq_bitwise (the table is the CRC-16/XMODEM table of polynomial 0x1021), header_canonical/canon_header (stream layout = LE CRC-16, LE32 size, body). The two cross-decoding statements are NOT proved; they are checked against TWO independent transcriptions of LZHUF.C (Lean Lzhuf.Canon and Go harness/cmd/corr/canon.go, compared with each other on every case) in both directions, plus the five golden .lzh files.",
   "OPEN: canon_decodes_go / go_decodes_canon for all x, and crc = bitwise XMODEM for all byte strings (table entries are proved, the fold is checked by correspondence against a bitwise Go CRC); 'canonical' = two transcriptions + 5 golden files, no third-party binary exists offline; the canonical encoder's own 16-bit code limit is respected (such inputs are skipped in the ref->lib direction and counted); trusted: Lean kernel, extractor, harness, driver shell",
   "Lean 4 proofs over regenerated tables (decide +kernel) + cross-correspondence with two independent canonical transcriptions + golden files", "5.7"),
 "C08": ("proof",
   "Lean model of reader.go/bit_reader.go (after the fixes) incl. the bufio/TeeReader CRC coverage, tied to /repo by correspondence on malformed streams: every truncation/bit flip of short valid streams, header size edits (negative, zero, too small/large), CRC edits, splices, trailing garbage, random bytes; compared: NewReader result, (n,err) sequence, bytes, Close, state digest. Proved: new_reader_short (short headers are error returns), close_sound (Close = nil only if no error was recorded, the bit reader never ran dry, the CRC over the pulled bytes matches and delivered bytes = declared size). An independent Go oracle (own canonical decoder + bitwise CRC) judges the real code: no panic, terminates, bytes <= declared size, Close = nil only for the canonical decoding.",
   "OPEN: read_bounded/read_progress/read_terminates/read_no_panic as Lean theorems (in progress; these clauses currently rest on correspondence + oracle, i.e. exploration level); 'bytes are the canonical decoding' is judged by the independent Go decoder, not proved; known finding C08:crc-ignores-unread-tail; wall-clock/memory not modelled; trusted: Lean kernel, harness, driver shell",
   "Lean 4 model + proved Close-verdict theorem + differential correspondence on malformed streams + independent canonical oracle", "5.8"),
}
PENDING_REASON = "check not yet built in this session (construction order DESIGN.md §7); not claimed until its model, theorems and correspondence run exist"

def main():
    ids = [json.loads(l)["id"] for l in open(os.path.join(ROOT, "properties.jsonl"))]
    hooks = subprocess.run(["git", "-C", "/repo", "log", "--format=%h %s"], capture_output=True, text=True).stdout.strip().split("\n")
    hook_commits = [l.split()[0] for l in hooks if l.split(" ", 1)[1].startswith("verif hooks")]
    checks = []
    for pid in ids:
        if pid not in CLAIMED:
            continue
        cat, text, note, tech, ref = CLAIMED[pid]
        checks.append({
            "property_id": pid,
            "quick_cmd": f"./check {pid} --tier quick",
            "thorough_cmd": f"./check {pid} --tier thorough",
            "evidence_file": f"evidence/{pid}.json",
            "replay_cmd_template": f"./check {pid} --replay {{path}}",
            "engine": "lean-proof+correspondence",
            "level_claimed": {"category": cat, "text": text, "design_ref": "DESIGN.md §" + ref},
            "level_note": note,
            "technique": tech,
        })
    m = {
        "version": 1,
        "setup_cmd": "./setup.sh",
        "hooks": {"guard": "verif",
                  "enable": "go build -tags verif (harness module `replace github.com/la5nta/wl2k-go => /repo`); hook files are *_verif.go with //go:build verif",
                  "baseline_off_cmd": "cd /repo && go test -mod=mod -vet=off -count=1 ./...",
                  "source_commits": hook_commits, "add_only": True},
        "engines": [{"name": "lean-proof+correspondence", "path": "check", "serves_properties": [c["property_id"] for c in checks],
                     "kind_free_text": "Lean 4 theorems over hand-written models (lean/), facts regenerated from /repo (harness/cmd/extract), differential correspondence between the real Go code and the compiled Lean driver plus property oracles on the real code (harness/cmd/corr)"}],
        "checks": checks,
        "not_applicable": [{"property_id": p, "reason": PENDING_REASON} for p in ids if p not in CLAIMED],
        "notes": "Single entry point ./check <id> --tier quick|thorough. Known findings: known_findings.txt. Design: DESIGN.md.",
    }
    json.dump(m, open(os.path.join(ROOT, "MANIFEST.json"), "w"), indent=1)
    print("MANIFEST.json:", len(checks), "checks,", len(m["not_applicable"]), "not claimed")

if __name__ == "__main__":
    main()
